"""C17 (T): every ALTERNATIVE of the selected hook implementations, not only the main formula.

`pyexpr.extract_hookimpls` already records each implementation as a list of guarded alternatives (path conditions) and
`gen.emit_impl_module` writes them into `Gen/C17.lean` as `def <name> : Impl`.  This module adds

* `impls_table_text`  - the extra text for Gen/C17.lean: `def impls : List (String x Impl)`, from which the model driver
  (lean/Drivers/c17.lean) derives one evaluable table entry `<name>#<k>` per formula alternative;
* `alt_correspondence` - (K) drives the REAL python function into each alternative (a `stub.Stub` whose attributes /
  cache marks satisfy the alternative's guard) and compares the value with the Lean Float evaluation of that alternative
  (`.none` alternatives: the python function must return None);
* `changed_items`     - which selected source items differ from the committed translation (named in the tie-break
  message when a proof obligation stops building).
"""
import importlib
import os
import re
import subprocess

from . import pyexpr
from .. import stub
from ..core import LEAN_DIR, VERIF


def impls_table_text(selection):
    rows = ", ".join(f'("{name}", {name})' for (name, _, _) in selection)
    return ("/-- every selected implementation with all its alternatives (the driver evaluates alternative `k` of `n`\n"
            "    under the name `n#k`) -/\n"
            f"def impls : List (String × Impl) := [{rows}]\n")


# ---- which source items changed -------------------------------------------------------------------------------------

def _impl_blocks(text):
    """{lean name: text of `def <name> : Impl := ...` (without the doc comment, whose line number may shift)}"""
    out = {}
    for m in re.finditer(r"^def (\w+) : Impl :=\n((?:[ \t]+.*\n)+)", text, re.M):
        out[m.group(1)] = m.group(2)
    return out


def baseline_text(pid):
    """the committed Gen/<pid>.lean (what the translator produced on the pristine tree); falls back to the file on disk"""
    rel = f"lean/PyrollModel/Gen/{pid}.lean"
    try:
        p = subprocess.run(["git", "-C", VERIF, "show", "HEAD:" + rel], capture_output=True, text=True, timeout=30)
        if p.returncode == 0 and p.stdout:
            return p.stdout
    except Exception:
        pass
    path = os.path.join(VERIF, rel)
    return open(path).read() if os.path.exists(path) else ""


def _guard_txt(g):
    k = g[0]
    if k == "tt":
        return "always"
    if k in ("hasValue", "hasSet", "hasSetOrCached", "hasCached"):
        return f"{k}({(g[1] + '.') if g[1] else ''}{g[2]})"
    if k == "not":
        return "not " + _guard_txt(g[1])
    if k in ("and", "or"):
        return "(" + _guard_txt(g[1]) + f" {k} " + _guard_txt(g[2]) + ")"
    return k + ":" + ",".join(map(str, g[1:]))[:60]


def changed_items(pid, selection, found, baseline, obligations=None):
    """[text] - one line per selected item whose translated alternatives differ from the baseline translation"""
    new = _impl_blocks(open(os.path.join(LEAN_DIR, "PyrollModel", "Gen", f"{pid}.lean")).read())
    old = _impl_blocks(baseline)
    out = []
    for (name, rel, fn) in selection:
        if name not in old or old[name] == new.get(name):
            continue
        impl = found.get(name)
        if impl is None:
            out.append(f"pyroll/core/{rel} `{fn}` ({name}): no longer found in the source")
            continue
        n_old = old[name].count("\n") - 1
        alts = []
        for k, (g, e, kind) in enumerate(impl.alts):
            if kind == "expr":
                alts.append(f"#{k} if {_guard_txt(g)}: formula reading {sorted(set(pyexpr.expr_vars(e)))}")
            else:
                alts.append(f"#{k} if {_guard_txt(g)}: {kind[:40]}")
        obl = (obligations or {}).get(name)
        out.append(f"pyroll/core/{rel}:{impl.lineno} `{fn}` on {impl.host}.{impl.hook} (Gen.{pid}.{name}) changed: "
                   f"{len(impl.alts)} alternative(s), committed translation had {n_old}; now " + "; ".join(alts)
                   + (f"; obligations about it: {', '.join(obl)}" if obl else ""))
    return out


# ---- (K) every alternative against the python function ---------------------------------------------------------------

class _Unsat(Exception):
    pass


def _assign(g, want, st):
    """make guard `g` evaluate to `want` on a Stub: st = {"present": {name: bool}, "cached": {name: bool}, "set": {...}}"""
    k = g[0]

    def put(d, name, val):
        if d.setdefault(name, val) != val:
            raise _Unsat(name)
    if k == "tt":
        if not want:
            raise _Unsat("tt")
    elif k in ("hasValue", "hasCached", "hasSet"):
        full = (g[1] + "." if g[1] else "") + g[2]
        put(st[{"hasValue": "present", "hasCached": "cached", "hasSet": "set"}[k]], full, want)
    elif k == "hasSetOrCached":
        full = (g[1] + "." if g[1] else "") + g[2]
        put(st["cached"], full, want)
        if not want:
            put(st["set"], full, False)
    elif k == "not":
        _assign(g[1], not want, st)
    elif k in ("and", "or"):
        if (k == "and") == want:            # both operands must take the value
            _assign(g[1], want, st)
            _assign(g[2], want, st)
        else:                                 # one operand suffices: first one that can be satisfied
            for sub in (g[1], g[2]):
                trial = {kk: dict(v) for kk, v in st.items()}
                try:
                    _assign(sub, want, trial)
                except _Unsat:
                    continue
                st.update(trial)
                return
            raise _Unsat(k)
    else:
        raise _Unsat("unsupported guard " + k)


def alt_correspondence(ctx, model, found, sampler, n_each=4):
    """for every alternative k of every translated implementation: python function on a stub that satisfies the
    alternative's path condition vs (formula) Lean Float evaluation of `name#k` / (none) python returns None"""
    jobs, lines = [], []
    for name, impl in sorted(found.items()):
        modname = "pyroll.core." + impl.module[:-3].replace("/", ".")
        pyfn = getattr(importlib.import_module(modname), impl.fn, None)
        if pyfn is None:
            continue
        for k, (g, e, kind) in enumerate(impl.alts):
            if kind not in ("expr", "none"):
                continue            # opaque alternatives are reported by gen.emit_impl_module as translator gaps
            st = {"present": {}, "cached": {}, "set": {}}
            try:
                _assign(g, True, st)
            except _Unsat as ex:
                ctx.tie_breaks.append(f"correspondence: cannot drive alternative #{k} of {impl.fn} "
                                      f"(pyroll/core/{impl.module}): {ex}")
                continue
            vs = sorted(set(pyexpr.expr_vars(e))) if kind == "expr" else []
            if any(st["present"].get(v) is False for v in vs):
                ctx.count("alt-eval:formula-needs-absent-attribute")
                continue
            for _ in range(n_each):
                env = {v: sampler(ctx.rng, v) for v in vs}
                for v, want in st["present"].items():       # attributes the guard needs, beyond the formula's own
                    if want and v not in env:
                        env[v] = sampler(ctx.rng, v)
                for d in (st["cached"], st["set"]):         # a cached / set hook also has a value
                    for v, want in d.items():
                        if want and v not in env and st["present"].get(v) is not False:
                            env[v] = sampler(ctx.rng, v)
                try:
                    real = stub.call_impl(pyfn, dict(env), cycle=False,
                                          present={v for v in env} | {v for v, w in st["present"].items() if w},
                                          set_={v for v, w in st["set"].items() if w},
                                          cached={v for v, w in st["cached"].items() if w})
                    real = None if real is None else float(real)
                except Exception as ex:
                    real = ("raised", type(ex).__name__)
                if kind == "expr":
                    lines.append(f"{name}#{k} " + " ".join(f"{kk}={stub.bits(v)}" for kk, v in env.items()))
                jobs.append((name, k, kind, env, real))
    out = iter(ctx.lean_model(model, lines) if lines else [])
    for (name, k, kind, env, real) in jobs:
        ctx.count("alt-eval")
        rp = {"formula": f"{name}#{k}", "env": env, "python": real}
        if kind == "none":
            if real is None:
                ctx.validated()
            else:
                ctx.disagreement(f"alternative #{k} of {name} is `return None` in the translation but the python "
                                 f"function returned {real!r}", rp)
            continue
        o = next(out)
        if isinstance(real, tuple):
            ctx.count("alt-eval-python-raised:" + real[1])
            continue
        try:
            lean = stub.unbits(o)
        except Exception:
            ctx.disagreement(f"alternative {name}#{k}: model driver answered {o!r}", rp)
            continue
        if real is not None and stub.close(real, lean):
            ctx.validated()
        else:
            rp["lean_float"] = lean
            ctx.disagreement(f"alternative #{k} of {name} evaluates differently from the python function under its guard", rp)
