"""(T) for C02, third module: WHICH OBJECTS the solution procedure evaluates root hooks on.

Re-read on every run of `./check C02` from the whole package `pyroll/core/**/*.py` of the working tree (ast only, nothing is
imported for the extraction), written to `lean/PyrollModel/Gen/C02Units.lean` (namespace `Gen.C02.Units`):

  * `classNames`, `mros`   every class of pyroll.core below `HookHost` (units, profiles, rolls - nested classes included) with
                           its method resolution order: base-class expressions are resolved as python resolves them (a name
                           in a nested `class` statement is looked up in the body of the enclosing class first, then in the
                           module: `from x import A as B`), attribute paths (`BaseRollPass.Roll`) through the MRO of the head
                           class, then linearised (C3);
  * `overrides`            every definition of `get_root_hook_results`: its statements in order - `super().get_root_hook_results()`,
                           `self.<attr>.evaluate_and_set_hooks()`, `self.evaluate_and_set_hooks()`; anything else is step 2 (which
                           no theorem accepts) and a tie break;
  * `overridesReturn`      the order in which the partial results are concatenated;
  * `unitObjects`          per unit class: the objects the LIBRARY constructs for it (`self.<attr> = self.<Nested>(...)` in
                           `__init__` / `init_solve` along the MRO: in_profile, out_profile, roll) and the class the nested name
                           resolves to for that unit class;
  * `subunitClass`         per unit class the class of the sub units its `init_solve` creates (`self.DiskElement(self, i)`);
  * `hookNames`, `rootHooks`  the entries of `root_hooks.extend([...])` in `pyroll/core/__init__.py` as (owner class, hook
                           name), in list order;
  * `solveRootCalls`, `solveLoopReevaluates`   `Unit.solve`: how often one iteration of the loop calls
                           `self.get_root_hook_results()` (unconditionally, at the top level of the loop body) and which
                           objects it re-evaluates before;
  * `c_<Class>` / `a_<attr>`  named indices for the hand-written Lean files.

`self_check` compares every fact with the imported package: `__mro__` of every class, `type(unit.roll)` etc. of constructed
units, the live `root_hooks` list, and - by spying on `HookHost.evaluate_and_set_hooks` for the extent of one call (restored in
`finally`) - the objects ONE call of `get_root_hook_results()` evaluates on a solved two-roll / three-roll pass, transport and
sequence, which must be what the extracted overrides say.
"""
import ast
import os
import re

from .pyexpr import lean_str, write_if_changed

CORE = os.path.join("pyroll", "core")
ROOT_METHOD = "get_root_hook_results"
EVAL_METHOD = "evaluate_and_set_hooks"
OBJECT_METHODS = ("__init__", "init_solve")


class Gap(Exception):
    pass


class ClassInfo:
    def __init__(self, qual, module, path, node, outer):
        self.qual, self.module, self.path, self.node, self.outer = qual, module, path, node, outer
        self.methods = {n.name: n for n in node.body if isinstance(n, ast.FunctionDef)}
        self.local_classes = {}          # name -> qual of the classes defined in this body (in order of definition)
        self.hooks = set()
        for n in node.body:
            if isinstance(n, ast.Assign) and len(n.targets) == 1 and isinstance(n.targets[0], ast.Name) and _is_hook_call(n.value):
                self.hooks.add(n.targets[0].id)
        self.bases = None                # resolved quals
        self.mro = None


def _is_hook_call(v):
    if not isinstance(v, ast.Call):
        return False
    f = v.func
    if isinstance(f, ast.Subscript):
        f = f.value
    return isinstance(f, ast.Name) and f.id == "Hook"


def scan(repo):
    """-> (classes by qualified name, modules: name -> {"imports": alias -> original name, "classes": top-level name -> qual})"""
    classes, modules = {}, {}
    root = os.path.join(repo, CORE)
    for d, _, fs in sorted(os.walk(root)):
        for f in sorted(fs):
            if not f.endswith(".py"):
                continue
            path = os.path.join(d, f)
            rel = os.path.relpath(path, repo)
            mod = rel[:-3].replace(os.sep, ".")
            tree = ast.parse(open(path).read(), filename=path)
            imports = {}
            for n in ast.walk(tree):
                if isinstance(n, ast.ImportFrom):
                    for a in n.names:
                        imports[a.asname or a.name] = a.name
            m = modules[mod] = {"imports": imports, "classes": {}, "tree": tree, "path": rel}

            def walk(body, outer, pre):
                for n in body:
                    if isinstance(n, ast.ClassDef):
                        q = pre + n.name
                        if q in classes:
                            raise Gap(f"class {q} is defined twice ({classes[q].path}, {rel})")
                        ci = classes[q] = ClassInfo(q, mod, rel, n, outer)
                        if outer is None:
                            m["classes"][n.name] = q
                        else:
                            classes[outer].local_classes[n.name] = q
                        walk(n.body, q, q + ".")
            walk(tree.body, None, "")
    return classes, modules


def c3(qual, bases_mros, bases):
    seqs = [list(s) for s in bases_mros] + [list(bases)]
    out = [qual]
    while any(seqs):
        seqs = [s for s in seqs if s]
        for s in seqs:
            h = s[0]
            if not any(h in t[1:] for t in seqs):
                break
        else:
            raise Gap(f"{qual}: no consistent method resolution order")
        out.append(h)
        seqs = [[x for x in s if x != h] if s[0] == h else s for s in seqs]
        seqs = [s[1:] if s and s[0] == h else s for s in seqs]
    return out


class Resolver:
    def __init__(self, classes, modules):
        self.classes, self.modules = classes, modules
        self.top = {}
        for m in modules.values():
            for name, q in m["classes"].items():
                self.top[name] = q
        self.busy = set()

    def name(self, ident, ci, before=None):
        """a bare name in a base-class expression of class `ci`: body of the enclosing class (classes defined before the
        statement), then the module (own classes, `from .. import A as B`)"""
        if ci.outer is not None:
            loc = self.classes[ci.outer].local_classes
            if ident in loc and loc[ident] != ci.qual:
                return loc[ident]
        m = self.modules[ci.module]
        if ident in m["classes"]:
            return m["classes"][ident]
        if ident in m["imports"]:
            return self.top.get(m["imports"][ident])      # None: imported from outside pyroll.core (abc, typing, ...)
        return None

    def attr(self, q, name):
        """nested class `name` looked up on class `q` (through its MRO)"""
        for k in self.mro(q):
            if name in self.classes[k].local_classes:
                return self.classes[k].local_classes[name]
        return None

    def expr(self, node, ci):
        if isinstance(node, ast.Name):
            return self.name(node.id, ci)
        if isinstance(node, ast.Attribute):
            head = self.expr(node.value, ci)
            return None if head is None else self.attr(head, node.attr)
        return None                                   # Generic[T], Sequence[Unit], calls: not classes of pyroll.core

    def mro(self, q):
        ci = self.classes[q]
        if ci.mro is not None:
            return ci.mro
        if q in self.busy:
            raise Gap(f"{q}: cyclic base classes")
        self.busy.add(q)
        bases = []
        for b in ci.node.bases:
            r = self.expr(b, ci)
            if r is not None and r not in bases:
                bases.append(r)
        ci.bases = bases
        ci.mro = c3(q, [self.mro(b) for b in bases], bases)
        self.busy.discard(q)
        return ci.mro


def _self_call(node, method):
    """`self.<a>.<method>()` -> a ; `self.<method>()` -> "self" ; else None"""
    if not (isinstance(node, ast.Call) and not node.args and not node.keywords and isinstance(node.func, ast.Attribute)
            and node.func.attr == method):
        return None
    v = node.func.value
    if isinstance(v, ast.Name) and v.id == "self":
        return "self"
    if isinstance(v, ast.Attribute) and isinstance(v.value, ast.Name) and v.value.id == "self":
        return v.attr
    return None


def _is_super_call(node, method):
    return (isinstance(node, ast.Call) and not node.args and not node.keywords and isinstance(node.func, ast.Attribute)
            and node.func.attr == method and isinstance(node.func.value, ast.Call)
            and isinstance(node.func.value.func, ast.Name) and node.func.value.func.id == "super"
            and not node.func.value.args)


def read_override(ci, problems):
    """statements of one `get_root_hook_results` -> (steps [("super",) | ("eval", attr) | ("other", text)], return order as
    indices into the steps)"""
    fn = ci.methods[ROOT_METHOD]
    body = [s for s in fn.body if not (isinstance(s, ast.Expr) and isinstance(s.value, ast.Constant))]
    if [a.arg for a in fn.args.args] != ["self"] or fn.args.vararg or fn.args.kwarg or fn.args.kwonlyargs or fn.decorator_list:
        problems.append(f"{ci.qual}.{ROOT_METHOD}: signature / decorators outside the subset")
    steps, var = [], {}
    ret = None
    for s in body:
        call = None
        if isinstance(s, ast.Assign) and len(s.targets) == 1 and isinstance(s.targets[0], ast.Name):
            call, target = s.value, s.targets[0].id
        elif isinstance(s, ast.Expr):
            call, target = s.value, None
        elif isinstance(s, ast.Return) and s is body[-1]:
            ret = s.value
            continue
        if call is not None and _is_super_call(call, ROOT_METHOD):
            steps.append(("super",))
        elif call is not None and _self_call(call, EVAL_METHOD) is not None:
            steps.append(("eval", _self_call(call, EVAL_METHOD)))
        else:
            steps.append(("other", ast.unparse(s)))
            problems.append(f"{ci.qual}.{ROOT_METHOD}: statement outside the subset: `{ast.unparse(s)}`")
            continue
        if target is not None:
            var[target] = len(steps) - 1
    order = None
    if isinstance(ret, ast.Call) and isinstance(ret.func, ast.Attribute) and ret.func.attr == "concatenate" and ret.args \
            and isinstance(ret.args[0], (ast.List, ast.Tuple)) \
            and all(isinstance(e, ast.Name) and e.id in var for e in ret.args[0].elts):
        order = [var[e.id] for e in ret.args[0].elts]
    elif isinstance(ret, ast.Name) and ret.id in var:
        order = [var[ret.id]]
    if order is None or sorted(order) != list(range(len(steps))):
        problems.append(f"{ci.qual}.{ROOT_METHOD}: the returned vector is not the concatenation of every partial result "
                        f"exactly once: `{ast.unparse(ret) if ret is not None else None}`")
        order = order or []
    return steps, order


def read_objects(ci, res):
    """`self.<attr> = self.<Nested>(...)` in `__init__` / `init_solve` -> [(attr, Nested)];
    `self.<Nested>(self, ...)` inside a comprehension assigned to `self._subunits` -> sub unit class name"""
    objs, sub = [], None
    for mname in OBJECT_METHODS:
        fn = ci.methods.get(mname)
        if fn is None:
            continue
        for n in ast.walk(fn):
            if not (isinstance(n, ast.Assign) and len(n.targets) == 1):
                continue
            t = n.targets[0]
            if not (isinstance(t, ast.Attribute) and isinstance(t.value, ast.Name) and t.value.id == "self"):
                continue
            v = n.value
            if isinstance(v, ast.Call) and isinstance(v.func, ast.Attribute) and isinstance(v.func.value, ast.Name) \
                    and v.func.value.id == "self" and v.func.attr[:1].isupper() and not t.attr.startswith("_"):
                if (t.attr, v.func.attr) not in objs:
                    objs.append((t.attr, v.func.attr))
            elif t.attr == "_subunits":
                for c in ast.walk(v):
                    if isinstance(c, ast.ListComp) and isinstance(c.elt, ast.Call) and isinstance(c.elt.func, ast.Attribute) \
                            and isinstance(c.elt.func.value, ast.Name) and c.elt.func.value.id == "self" \
                            and c.elt.func.attr[:1].isupper():
                        sub = c.elt.func.attr
    return objs, sub


def read_root_hooks(modules, res, problems):
    """`root_hooks.extend([A.B.name, ...])` of pyroll/core/__init__.py -> [(owner qual, hook name)]"""
    mod = modules.get("pyroll.core.__init__")
    if mod is None:
        raise Gap("pyroll/core/__init__.py not found")
    out, seen = [], 0
    for n in ast.walk(mod["tree"]):
        if isinstance(n, ast.Call) and isinstance(n.func, ast.Attribute) and isinstance(n.func.value, ast.Name) \
                and n.func.value.id == "root_hooks":
            seen += 1
            if n.func.attr != "extend" or len(n.args) != 1 or not isinstance(n.args[0], (ast.List, ast.Tuple)):
                problems.append(f"pyroll/core/__init__.py: `{ast.unparse(n)[:80]}` is not `root_hooks.extend([...])`")
                continue
            for e in n.args[0].elts:
                owner = None
                if isinstance(e, ast.Attribute):
                    owner = _resolve_global(e.value, mod, res)
                if owner is None:
                    problems.append(f"pyroll/core/__init__.py: root hook `{ast.unparse(e)}`: owner class not resolved")
                    continue
                if not any(e.attr in res.classes[k].hooks for k in res.mro(owner)):
                    problems.append(f"pyroll/core/__init__.py: root hook `{ast.unparse(e)}`: no class of the owner's MRO "
                                    f"declares a Hook of that name")
                out.append((owner, e.attr))
    if seen != 1:
        problems.append(f"pyroll/core/__init__.py: {seen} statements touch `root_hooks` (expected one `extend`)")
    return out


def _resolve_global(node, mod, res):
    if isinstance(node, ast.Name):
        if node.id in mod["classes"]:
            return mod["classes"][node.id]
        if node.id in mod["imports"]:
            return res.top.get(mod["imports"][node.id])
        return None
    if isinstance(node, ast.Attribute):
        head = _resolve_global(node.value, mod, res)
        return None if head is None else res.attr(head, node.attr)
    return None


def read_solve_loop(classes, problems):
    """`Unit.solve`: the `for` loop -> (number of unconditional `self.get_root_hook_results()` per iteration, the objects
    re-evaluated / sub units solved before it, in order)"""
    solvers = [q for q, ci in classes.items() if "solve" in ci.methods and ci.mro and "Unit" in ci.mro]
    if solvers != ["Unit"]:
        problems.append(f"`solve` is defined by {solvers} (expected: by Unit only)")
    fn = classes["Unit"].methods.get("solve") if "Unit" in classes else None
    if fn is None:
        raise Gap("Unit.solve not found")
    loops = [s for s in fn.body if isinstance(s, ast.For)
             and any(isinstance(n, ast.Call) and _self_call(n, ROOT_METHOD) is not None for n in ast.walk(s))]
    if len(loops) != 1:
        raise Gap(f"Unit.solve: {len(loops)} top-level for loops calling {ROOT_METHOD}")
    calls, before = 0, []
    for s in loops[0].body:
        v = s.value if isinstance(s, (ast.Assign, ast.Expr)) else None
        if v is not None and _self_call(v, ROOT_METHOD) == "self":
            calls += 1
        elif v is not None and _self_call(v, "reevaluate_cache") is not None and calls == 0:
            before.append(_self_call(v, "reevaluate_cache"))
        elif v is not None and _self_call(v, "_solve_subunits") == "self" and calls == 0:
            before.append("<subunits>")
    nested = sum(1 for n in ast.walk(loops[0]) if isinstance(n, ast.Call) and _self_call(n, ROOT_METHOD) is not None)
    if nested != calls:
        problems.append(f"Unit.solve: {nested - calls} conditional / nested calls of {ROOT_METHOD} in the loop")
    total = sum(1 for n in ast.walk(fn) if isinstance(n, ast.Call) and _self_call(n, ROOT_METHOD) is not None)
    if total != nested:
        problems.append(f"Unit.solve: {total - nested} calls of {ROOT_METHOD} outside the loop")
    return calls, before


def extract(repo):
    problems = []
    classes, modules = scan(repo)
    res = Resolver(classes, modules)
    for q in list(classes):
        try:
            res.mro(q)
        except Gap as ex:
            problems.append(str(ex))
            classes[q].mro = [q]
    hosts = sorted(q for q, ci in classes.items() if "HookHost" in ci.mro)
    # stable numbering: HookHost first, then by qualified name
    hosts = ["HookHost"] + [q for q in hosts if q != "HookHost"] if "HookHost" in classes else hosts
    for q in hosts:
        for k in classes[q].mro:
            if k not in hosts:
                hosts.append(k)                       # mixins above HookHost (ReprMixin, LogMixin) - part of the MRO
    overrides, returns = {}, {}
    for q in hosts:
        if ROOT_METHOD in classes[q].methods:
            overrides[q], returns[q] = read_override(classes[q], problems)
    # objects and sub units
    own_objs = {q: read_objects(classes[q], res) for q in hosts}
    units = [q for q in hosts if "Unit" in classes[q].mro]
    unit_objects, subunit = {}, {}
    attrs = ["self"]
    for q in units:
        objs = [("self", q)]
        sub = None
        for k in reversed(classes[q].mro):                 # base classes first: the order the constructors run in
            if k not in own_objs:
                continue
            for attr, nested in own_objs[k][0]:
                target = res.attr(q, nested)
                if target is None:
                    problems.append(f"{q}: `self.{attr} = self.{nested}(...)` ({k}): no nested class {nested}")
                    continue
                objs = [(a, t) for a, t in objs if a != attr] + [(attr, target)]
                if attr not in attrs:
                    attrs.append(attr)
        for k in classes[q].mro:
            if k in own_objs and own_objs[k][1] is not None:
                sub = res.attr(q, own_objs[k][1])
                if sub is None:
                    problems.append(f"{q}: sub units `self.{own_objs[k][1]}(...)` ({k}): no such nested class")
                break
        unit_objects[q] = objs
        if sub is not None:
            subunit[q] = sub
    for q, steps in overrides.items():
        for s in steps:
            if s[0] == "eval" and s[1] not in attrs:
                attrs.append(s[1])
    roots = read_root_hooks(modules, res, problems)
    try:
        calls, before = read_solve_loop(classes, problems)
    except Gap as ex:
        problems.append(str(ex))
        calls, before = 99, ["<missing>"]
    lines = {q: (classes[q].path, classes[q].node.lineno) for q in hosts}
    olines = {q: (classes[q].path, classes[q].methods[ROOT_METHOD].lineno) for q in overrides}
    return {"classes": hosts, "mro": {q: classes[q].mro for q in hosts}, "overrides": overrides, "returns": returns,
            "attrs": attrs, "unit_objects": unit_objects, "subunit": subunit, "roots": roots, "solve_calls": calls,
            "solve_before": before, "lines": lines, "override_lines": olines,
            "module": {q: (classes[q].module[:-len(".__init__")] if classes[q].module.endswith(".__init__") else classes[q].module)
                       for q in hosts},
            "hooks": {q: sorted(classes[q].hooks) for q in hosts}}, problems


# ---- emission -----------------------------------------------------------------------------------------------------------

def ident(q):
    return re.sub(r"[^A-Za-z0-9]", "_", q)


def _nats(xs):
    return "[" + ", ".join(str(x) for x in xs) + "]"


def _npairs(xs):
    return "[" + ", ".join(f"({a}, {b})" for a, b in xs) + "]"


def render(info):
    cid = {q: k for k, q in enumerate(info["classes"])}
    aid = {a: k for k, a in enumerate(info["attrs"])}
    hook_names = []
    for _, n in info["roots"]:
        if n not in hook_names:
            hook_names.append(n)
    hid = {n: k for k, n in enumerate(hook_names)}
    out = ["/- GENERATED by driver/translate/c02_units.py from pyroll/core/**/*.py of the working tree on every run of "
           "./check C02 - do not edit. -/", "namespace Gen.C02.Units", ""]
    out.append("/-- the classes of pyroll.core below `HookHost` (units, profiles, rolls; nested classes by qualified name) and the "
               "mixins in their MROs; index = class id -/")
    out.append("def classNames : List String :=\n  [" + ",\n   ".join(lean_str(q) for q in info["classes"]) + "]")
    out.append("")
    out.append("/-- (class id, `__mro__` restricted to the classes above, the class itself first) -/")
    out.append("def mros : List (Nat × List Nat) :=\n  [" + ",\n   ".join(
        f"({cid[q]}, {_nats(cid[k] for k in info['mro'][q])})" for q in info["classes"]) + "]")
    out.append("")
    out.append("/-- attributes under which a unit keeps the objects it owns; index = attribute id (0 = the unit itself) -/")
    out.append("def attrNames : List String := [" + ", ".join(lean_str(a) for a in info["attrs"]) + "]")
    out.append("")
    out.append("/-- every definition of `get_root_hook_results`: (class id, statements in order); a statement is\n"
               "(0, 0) = `super().get_root_hook_results()`, (1, a) = `self.<a>.evaluate_and_set_hooks()` (a = attribute id; 0: "
               "`self.evaluate_and_set_hooks()`),\n(2, k) = the k-th statement outside that subset -/")
    rows = []
    for q, steps in info["overrides"].items():
        enc, other = [], 0
        for s in steps:
            if s[0] == "super":
                enc.append((0, 0))
            elif s[0] == "eval":
                enc.append((1, aid[s[1]]))
            else:
                enc.append((2, other))
                other += 1
        p, ln = info["override_lines"][q]
        comment = f"{p}:{ln} {q}: " + " ; ".join(
            "super" if s[0] == "super" else (f"eval {s[1]}" if s[0] == "eval" else "OTHER " + s[1][:40].replace("\n", " "))
            for s in steps)
        rows.append((f"({cid[q]}, {_npairs(enc)})", comment))
    out.append("def overrides : List (Nat × List (Nat × Nat)) :=\n  [" + "\n   ".join(
        d + ("," if k < len(rows) - 1 else "") + "   -- " + c for k, (d, c) in enumerate(rows)) + "\n  ]")
    out.append("")
    out.append("/-- (class id, positions of the statements above in the order their results are concatenated for the convergence "
               "test) -/")
    out.append("def overridesReturn : List (Nat × List Nat) :=\n  [" + ", ".join(
        f"({cid[q]}, {_nats(info['returns'][q])})" for q in info["overrides"]) + "]")
    out.append("")
    out.append("/-- per unit class: the objects the library constructs for it, (attribute id, class id of the object): attribute 0 is "
               "the unit itself, the others come from `self.<attr> = self.<Nested>(...)` in `__init__` / `init_solve` along the MRO, "
               "the nested class looked up on the unit class -/")
    out.append("def unitObjects : List (Nat × List (Nat × Nat)) :=\n  [" + ",\n   ".join(
        f"({cid[q]}, {_npairs((aid[a], cid[t]) for a, t in objs)})" for q, objs in info["unit_objects"].items()) + "]")
    out.append("")
    out.append("/-- (unit class id, class id of the sub units (disk elements) its `init_solve` creates) -/")
    out.append("def subunitClass : List (Nat × Nat) := " + _npairs((cid[q], cid[s]) for q, s in info["subunit"].items()))
    out.append("")
    out.append("/-- names of the root hooks; index = hook id -/")
    out.append("def hookNames : List String := [" + ", ".join(lean_str(n) for n in hook_names) + "]")
    out.append("")
    out.append("/-- `root_hooks.extend([...])` of pyroll/core/__init__.py in list order: (owner class id, hook id) -/")
    out.append("def rootHooks : List (Nat × Nat) :=\n  [" + ", ".join(
        f"({cid[o]}, {hid[n]})" for o, n in info["roots"]) + "]")
    out.append("")
    out.append("/-- `Unit.solve`: unconditional calls of `self.get_root_hook_results()` per iteration of the loop -/")
    out.append(f"def solveRootCalls : Nat := {info['solve_calls']}")
    out.append("")
    out.append("/-- `Unit.solve`: what one iteration re-evaluates / solves before that call, in order -/")
    out.append("def solveLoopBefore : List String := [" + ", ".join(lean_str(a) for a in info["solve_before"]) + "]")
    out.append("")
    out.append("/-! named indices -/")
    for q in info["classes"]:
        p, ln = info["lines"][q]
        out.append(f"/-- {p}:{ln} -/ def c_{ident(q)} : Nat := {cid[q]}")
    for a in info["attrs"]:
        out.append(f"def a_{ident(a)} : Nat := {aid[a]}")
    for n in hook_names:
        out.append(f"def h_{ident(n)} : Nat := {hid[n]}")
    out.append("")
    out.append("end Gen.C02.Units")
    return "\n".join(out) + "\n"


REQUIRED_CLASSES = ["HookHost", "Unit", "Unit.Profile", "Unit.InProfile", "Unit.OutProfile", "BaseRollPass", "BaseRollPass.Roll",
                    "SymmetricRollPass", "TwoRollPass", "ThreeRollPass", "Transport", "CoolingPipe", "Rotator", "PassSequence",
                    "Roll", "Profile"]
REQUIRED_ATTRS = ["self", "in_profile", "out_profile", "roll"]


def emit(ctx, repo=None, lean_dir=None):
    from .. import core
    repo = repo or core.REPO
    lean_dir = lean_dir or core.LEAN_DIR
    try:
        info, problems = extract(repo)
    except (OSError, SyntaxError, Gap) as ex:
        ctx.tie_breaks.append(f"translator (C02Units): pyroll/core unreadable: {type(ex).__name__}: {ex}")
        info = {"classes": list(REQUIRED_CLASSES), "mro": {q: [q] for q in REQUIRED_CLASSES}, "overrides": {}, "returns": {},
                "attrs": list(REQUIRED_ATTRS), "unit_objects": {}, "subunit": {}, "roots": [], "solve_calls": 99,
                "solve_before": ["<missing>"], "lines": {q: ("?", 0) for q in REQUIRED_CLASSES}, "override_lines": {},
                "hooks": {}, "module": {}}
        problems = []
    # the hand-written Lean files name these: keep them defined whatever the source looks like
    for q in REQUIRED_CLASSES:
        if q not in info["classes"]:
            problems.append(f"class {q} not found below HookHost")
            info["classes"].append(q)
            info["mro"][q] = [q]
            info["lines"][q] = ("?", 0)
    for a in REQUIRED_ATTRS:
        if a not in info["attrs"]:
            problems.append(f"no object attribute `{a}` found")
            info["attrs"].append(a)
    if not any(n == "roll_torque" for _, n in info["roots"]):
        problems.append("root hook roll_torque not found in root_hooks.extend([...])")
        info["roots"] = list(info["roots"]) + [("BaseRollPass.Roll", "roll_torque")]
    for p in problems:
        msg = "translator (pyroll/core, C02Units): " + p
        if msg not in ctx.tie_breaks:
            ctx.tie_breaks.append(msg)
    text = render(info)
    changed = write_if_changed(os.path.join(lean_dir, "PyrollModel", "Gen", "C02Units.lean"), text)
    ctx.notes.setdefault("generated", {})["Gen/C02Units.lean"] = {
        "classes": len(info["classes"]), "overrides": {q: [" ".join(s[:2]) for s in st] for q, st in info["overrides"].items()},
        "unit_classes": len(info["unit_objects"]), "root_hooks": len(info["roots"]), "rewritten": changed}
    try:
        bad = self_check(info)
    except Exception as ex:
        bad = [f"probe raised {type(ex).__name__}: {ex}"]
    for b in bad:
        ctx.tie_breaks.append("translator self-check (C02Units facts vs. the imported pyroll.core): " + b)
    ctx.notes["generated"]["Gen/C02Units.lean"]["self_check_mismatches"] = len(bad)
    return info


# ---- the model of the extracted facts, in python (used by the self-check; the Lean model `RootUnits.evaluated` is the same
# ---- recursion and is compared with the implementation by the correspondence of driver/props/c02_units.py) ----------------

def evaluated(info, q):
    """the objects ONE call of `type(self).get_root_hook_results(self)` evaluates, in order, for a unit of class `q`"""
    def go(mro):
        for k, c in enumerate(mro):
            if c in info["overrides"]:
                out = []
                for s in info["overrides"][c]:
                    if s[0] == "super":
                        out += go(mro[k + 1:])
                    elif s[0] == "eval":
                        out.append(s[1])
                    else:
                        out.append("?")
                return out
        return []
    return go(info["mro"][q])


def real_class(q, module):
    import importlib
    obj = importlib.import_module(module)
    for r in q.split("."):
        obj = getattr(obj, r, None) if obj is not None else None
    return obj


def spy_root_phase(unit):
    """the objects ONE call of `unit.get_root_hook_results()` evaluates, in order (`HookHost.evaluate_and_set_hooks` is wrapped
    for the extent of the call and restored in `finally`)"""
    from pyroll.core.hooks import HookHost
    seen = []
    orig = HookHost.__dict__[EVAL_METHOD]

    def spy(self):
        seen.append(self)
        return orig(self)
    setattr(HookHost, EVAL_METHOD, spy)
    try:
        unit.get_root_hook_results()
    finally:
        setattr(HookHost, EVAL_METHOD, orig)
    return seen


def role_of(unit, obj, attrs):
    for a in attrs:
        if a == "self":
            if obj is unit:
                return a
        elif getattr(unit, a, None) is obj:
            return a
    return "?"


def self_check(info):
    import random
    import pyroll.core as pc
    from ..props import common
    bad = []
    # 1. method resolution orders
    known = set(info["classes"])
    for q in info["classes"]:
        cls = real_class(q, info["module"][q]) if q in info.get("module", {}) else None
        if cls is None:
            bad.append(f"class {q} read from the source is not reachable in the imported package")
            continue
        real = [k.__qualname__ for k in cls.__mro__ if k.__module__.startswith("pyroll.") and k.__qualname__ in known]
        if real != info["mro"][q]:
            bad.append(f"MRO of {q}: read {info['mro'][q]}, imported {real}")
    # 2. root hooks
    real_roots = [(h.owner.__qualname__, h.name) for h in pc.root_hooks]
    if real_roots[:len(info["roots"])] != [tuple(r) for r in info["roots"]]:
        bad.append(f"root_hooks: read {info['roots']}, imported {real_roots}")
    # 3. objects of constructed units and what one root phase evaluates
    rng = random.Random(2)
    p2, _ = common.make_pass(rng, kind="oval", label="c02u-p2", disk_element_count=2)
    g3 = pc.CircularOvalGroove(depth=8e-3, r1=6e-3, r2=40e-3, pad_angle=30)
    p3 = pc.ThreeRollPass(label="c02u-p3", roll=pc.Roll(groove=g3, nominal_radius=160e-3, rotational_frequency=1), gap=2e-3)
    cases = [(pc.PassSequence([p2, pc.Transport(label="c02u-t", duration=1.0)]), common.make_in_profile(rng, "round", size=30e-3)),
             (pc.PassSequence([p3, pc.Rotator(label="c02u-r", rotation=0), pc.CoolingPipe(label="c02u-c", duration=1.0)]),
              common.make_in_profile(rng, "round", size=55e-3))]
    for seq, ip in cases:
        seq.solve(ip)
        todo = [seq]
        while todo:
            u = todo.pop()
            todo.extend(u.subunits)
            q = type(u).__qualname__
            if q not in info["unit_objects"]:
                bad.append(f"unit class {q} was not read from the source")
                continue
            for a, t in info["unit_objects"][q]:
                o = u if a == "self" else getattr(u, a, None)
                if o is None or type(o).__qualname__ != t:
                    bad.append(f"{q}.{a}: read class {t}, constructed {type(o).__qualname__ if o is not None else None}")
            if u.subunits and info["subunit"].get(q) != type(u.subunits[0]).__qualname__ and not isinstance(u, pc.PassSequence):
                bad.append(f"{q}: sub units read {info['subunit'].get(q)}, constructed {type(u.subunits[0]).__qualname__}")
            got = [role_of(u, o, info["attrs"]) for o in spy_root_phase(u)]
            if got != evaluated(info, q):
                bad.append(f"{q}.{ROOT_METHOD}(): read {evaluated(info, q)}, one call evaluates {got}")
    return bad
