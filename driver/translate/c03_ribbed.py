"""(T) for C03: `EquivalentRibbedGroove.__init__` (pyroll/core/grooves/equivalent_ripped_groove.py)
-> lean/PyrollModel/Gen/C03Ribbed.lean (`ribbed : RibbedSpec`, interpreted by lean/PyrollModel/GrooveWFRibbed.lean).

The constructor is straight-line code; every statement must have one of these shapes (anything else -> gap):

    <docstring>
    self.<name> = <parameter>                       -> stored
    <local> = <expression>                          -> locals, in statement order (a parameter may be re-bound:
                                                       `pad_angle = np.deg2rad(pad_angle)`); expressions over parameters and
                                                       earlier locals, numpy functions of `pyexpr.ExprTranslator`
    sol = <solver>(<keyword> = <expression>, …)     -> solver, solverArgs
    super().__init__(<keyword> = <expression>, …, **kwargs)   -> superArgs (`sol["key"]` -> variable `sol.key`), forwardsKwargs

plus the decorator `@validated(signed=(…))` (which arguments may be negative; every other given number must be finite and
non-negative, pyroll/core/grooves/_validation.py) and the signature (required parameters).
The generated table is run (Float) against the arguments the real constructor hands to `GenericElongationGroove.__init__`
by the harness on every construction of the class (op `ribbed` of the model driver).
"""
import ast
import os

from . import pyexpr
from .c03_validate import lean_expr
from ..core import LEAN_DIR, REPO

SRC = os.path.join("pyroll", "core", "grooves", "equivalent_ripped_groove.py")
CLASS = "EquivalentRibbedGroove"
Untranslatable = pyexpr.Untranslatable


class _Tr(pyexpr.ExprTranslator):
    """every bare name that is a parameter or an earlier local is a variable (sequential semantics, no substitution);
    `sol["key"]` is the variable `sol.key`"""

    def __init__(self, names, sol_name=None):
        super().__init__("self", {}, names)
        self.sol_name = sol_name

    def tr(self, n):
        if isinstance(n, ast.Subscript) and isinstance(n.value, ast.Name) and n.value.id == self.sol_name \
                and isinstance(n.slice, ast.Constant) and isinstance(n.slice.value, str):
            return ("var", f"sol.{n.slice.value}")
        return super().tr(n)


def extract(repo=None, gaps=None):
    gaps = gaps if gaps is not None else []
    out = dict(params=[], locals=[], solver="", solverArgs=[], superArgs=[], forwardsKwargs=False, signed=[], stored=[],
               validated=False)
    path = os.path.join(repo or REPO, SRC)
    if not os.path.exists(path):
        gaps.append(f"ribbed: {SRC} not found")
        return out
    tree = ast.parse(open(path).read())
    cls = next((n for n in tree.body if isinstance(n, ast.ClassDef) and n.name == CLASS), None)
    init = next((n for n in (cls.body if cls else []) if isinstance(n, ast.FunctionDef) and n.name == "__init__"), None)
    if init is None:
        gaps.append(f"ribbed: {CLASS}.__init__ not found")
        return out
    # ---- decorator
    for d in init.decorator_list:
        if isinstance(d, ast.Call) and isinstance(d.func, ast.Name) and d.func.id == "validated" and not d.args \
                and all(k.arg == "signed" for k in d.keywords):
            out["validated"] = True
            out["signed"] = ["pad_angle"]                           # default of the decorator
            for k in d.keywords:
                if isinstance(k.value, (ast.Tuple, ast.List)) and all(isinstance(e, ast.Constant) and isinstance(e.value, str)
                                                                      for e in k.value.elts):
                    out["signed"] = [e.value for e in k.value.elts]
                else:
                    gaps.append("ribbed: `signed` of the decorator is not a literal tuple of names")
        else:
            gaps.append(f"ribbed: decorator `{ast.unparse(d)[:80]}` outside the subset")
    if not out["validated"]:
        gaps.append("ribbed: the constructor is not decorated with `validated`")
    # ---- signature
    a = init.args
    pos = a.args[1:]
    ndef = len(a.defaults)
    for i, p in enumerate(pos):
        out["params"].append((p.arg, i < len(pos) - ndef))
    if a.vararg or a.kwonlyargs:
        gaps.append("ribbed: signature outside the subset")
    kwargs_name = a.kwarg.arg if a.kwarg else None
    names = {p for p, _ in out["params"]}
    body = list(init.body)
    if body and isinstance(body[0], ast.Expr) and isinstance(body[0].value, ast.Constant) and isinstance(body[0].value.value, str):
        body = body[1:]
    sol_name = None
    done = False
    for st in body:
        what = ast.unparse(st).splitlines()[0][:80]
        if done:
            gaps.append(f"ribbed: statement `{what}` after the super().__init__ call")
            continue
        try:
            if isinstance(st, ast.Assign) and len(st.targets) == 1:
                t, v = st.targets[0], st.value
                if isinstance(t, ast.Attribute) and isinstance(t.value, ast.Name) and t.value.id == "self" \
                        and isinstance(v, ast.Name) and v.id in names and not out["locals"]:
                    out["stored"].append((t.attr, v.id))           # before any re-binding: the value as given
                    continue
                if isinstance(t, ast.Name) and isinstance(v, ast.Call) and isinstance(v.func, ast.Name) \
                        and v.func.id.startswith("solve_") and not v.args and sol_name is None:
                    tr = _Tr(names)
                    out["solver"] = v.func.id
                    out["solverArgs"] = [(k.arg, tr.tr(k.value)) for k in v.keywords]
                    if any(k.arg is None for k in v.keywords):
                        raise Untranslatable("** in the solver call")
                    sol_name = t.id
                    continue
                if isinstance(t, ast.Name) and t.id != sol_name:
                    out["locals"].append((t.id, _Tr(names, sol_name).tr(v)))
                    names.add(t.id)
                    continue
            if isinstance(st, ast.Expr) and isinstance(st.value, ast.Call) and ast.unparse(st.value.func) == "super().__init__" \
                    and not st.value.args:
                tr = _Tr(names, sol_name)
                for k in st.value.keywords:
                    if k.arg is None:
                        if isinstance(k.value, ast.Name) and k.value.id == kwargs_name:
                            out["forwardsKwargs"] = True
                        else:
                            raise Untranslatable(f"**{ast.unparse(k.value)}")
                    else:
                        out["superArgs"].append((k.arg, tr.tr(k.value)))
                done = True
                continue
            raise Untranslatable("statement shape")
        except Untranslatable as ex:
            gaps.append(f"ribbed: `{what}` outside the subset ({ex})")
    if not done:
        gaps.append("ribbed: no super().__init__(…) call found")
    return out


def emit(ctx, pid="C03", repo=None):
    gaps = []
    f = extract(repo, gaps)
    for g in gaps:
        ctx.tie_breaks.append("translator: " + g)
    s = pyexpr.lean_str
    tbl = lambda rows: "[" + ",\n    ".join(f"({s(k)}, {lean_expr(e, '')})" for k, e in rows) + "]"
    L = ["import PyrollModel.GrooveWFRibbed",
         f"/- GENERATED by driver/translate/c03_ribbed.py from `{CLASS}.__init__` ({SRC}) - do not edit. -/",
         f"namespace Gen.{pid}Ribbed", "open GrooveWF", "",
         "def ribbed : RibbedSpec := {",
         "  params := [" + ", ".join(f"({s(n)}, {str(r).lower()})" for n, r in f["params"]) + "],",
         "  signed := [" + ", ".join(s(n) for n in f["signed"]) + "],",
         f"  validated := {str(f['validated']).lower()},",
         "  stored := [" + ", ".join(f"({s(a)}, {s(b)})" for a, b in f["stored"]) + "],",
         "  locals := " + tbl(f["locals"]) + ",",
         f"  solver := {s(f['solver'])},",
         "  solverArgs := " + tbl(f["solverArgs"]) + ",",
         "  superArgs := " + tbl(f["superArgs"]) + ",",
         f"  forwardsKwargs := {str(f['forwardsKwargs']).lower()} }}", "",
         f"end Gen.{pid}Ribbed"]
    changed = pyexpr.write_if_changed(os.path.join(LEAN_DIR, "PyrollModel", "Gen", f"{pid}Ribbed.lean"), "\n".join(L) + "\n")
    ctx.notes.setdefault("generated", {})[f"Gen/{pid}Ribbed.lean"] = {"locals": len(f["locals"]), "rewritten": changed}
    return f
