"""(T) for C18: read, with `ast`, the code the pre-/post-processor property is about and describe it as PROGRAMS over a
small instruction set in lean/PyrollModel/Gen/C18.lean (namespace Gen.C18, import-free):

* pyroll/core/unit/unit.py, class `Unit`:
  - the class attributes `pre_processors` / `post_processors` of the class body          -> `unit_body : List CInstr`
  - `__init_subclass__` (fresh lists per subclass)                                         -> `init_subclass : ClassHook`
  - `_yield_pre_processors` / `_yield_post_processors` (order of the MRO walk, `getattr` vs the class's own
    `__dict__`, default, `None` guard, `yield from`)                                       -> `yield_pre / yield_post : Walk`
  - `init_solve` (factory loop: `factory(self)`, `None` -> `continue`, threading of the profile through
    `p.solve(...)`, `InProfile` / `OutProfile` built from which variable)                  -> `pre_loop : Loop`, `init_solve`
  - `solve` (`init_solve(arg)`, the solution loop with its call of `_solve_subunits`, the returned profile = public
    copy of `self.out_profile`, post-processor loop, `return`)                             -> `solution_loop`, `post_loop`, `solve`
  - `_solve_subunits` (every sub-unit receives what the previous one's `solve` RETURNED)    -> `solve_subunits : Subs`
  - `__init__`: what `in_profile` / `out_profile` start as                                 -> `unitInitState` (pinned)
* all of pyroll/core: which unit classes define `pre_processors`, `post_processors`, `__init_subclass__`,
  `_yield_pre_processors`, `_yield_post_processors`, `init_solve`, `solve`, `_solve_subunits` themselves (`overrides`; the
  `init_solve` overrides with their canonical statements, `initSolveOverrides`), every statement outside the translated
  methods that touches the lists or the walk methods (`mentions`), the registrations the library makes itself
  (`libRegistrations`: `BaseRollPass.pre_processors.append(rotator_factory)` in pyroll/core/roll_pass/base.py) and the
  class table of the harness preamble with statically computed C3 MRO tails (`libClasses`).

Everything is recognised by AST node type (never by source text): comments, docstrings, blank lines, logging / timing
statements and the names of local variables / parameters do not matter.  A statement outside the accepted subset gives
a `Gap` naming method and statement: the item is emitted as `untranslated` / `defined := false` (the refinement theorem
of lean/PyrollProps/C18.lean then does not build) and the caller records a `ctx.tie_breaks` entry.
"""
import ast
import os

from .pyexpr import write_if_changed

UNIT_PY = "pyroll/core/unit/unit.py"
CORE_DIR = "pyroll/core"

KINDS = {"pre_processors": "pre", "post_processors": "post"}
YIELDS = {"_yield_pre_processors": "pre", "_yield_post_processors": "post"}
WATCH = ["pre_processors", "post_processors", "__init_subclass__", "_yield_pre_processors", "_yield_post_processors",
         "init_solve", "solve", "_solve_subunits"]
MENTION_ATTRS = ["pre_processors", "post_processors", "_yield_pre_processors", "_yield_post_processors"]
TRANSLATED_METHODS = ["__init_subclass__", "_yield_pre_processors", "_yield_post_processors", "init_solve", "solve",
                      "_solve_subunits"]
LIST_METHODS = ["append", "insert", "extend", "remove", "clear", "pop", "__iadd__"]
LIBFAC0 = 900


class Gap(Exception):
    def __init__(self, method, stmt, why):
        self.method, self.stmt, self.why = method, stmt, why
        super().__init__(f"{method}: statement `{stmt}` is outside the translated subset ({why})")


def _src(n):
    try:
        return ast.unparse(n).split("\n")[0][:120]
    except Exception:      # pragma: no cover
        return type(n).__name__


def _parse(repo, rel):
    path = os.path.join(repo, rel)
    with open(path) as f:
        return ast.parse(f.read(), filename=path)


def _is_name(n, name):
    return isinstance(n, ast.Name) and n.id == name


def _is_none(n):
    return isinstance(n, ast.Constant) and n.value is None


def _is_doc(st):
    return isinstance(st, ast.Expr) and isinstance(st.value, ast.Constant) and isinstance(st.value.value, str)


def _strip(stmts):
    return [st for st in stmts if not _is_doc(st) and not isinstance(st, ast.Pass)]


def _find_class(body, name):
    for ch in body:
        if isinstance(ch, ast.ClassDef) and ch.name == name:
            return ch
    return None


def _find_func(cls, name):
    res = None
    for ch in cls.body:
        if isinstance(ch, ast.FunctionDef) and ch.name == name:
            res = ch
    return res


def _self_attr(n, selfname, attr):
    return isinstance(n, ast.Attribute) and n.attr == attr and _is_name(n.value, selfname)


def _names_in(n):
    return {x.id for x in ast.walk(n) if isinstance(x, ast.Name)}


def _is_logging(st, selfname):
    """`self.logger.<level>(...)` / `logging.<level>(...)` / `log.<level>(...)` as a statement"""
    if not (isinstance(st, ast.Expr) and isinstance(st.value, ast.Call) and isinstance(st.value.func, ast.Attribute)):
        return False
    f = st.value.func
    if f.attr not in ("debug", "info", "warning", "error", "exception", "critical", "log"):
        return False
    return _self_attr(f.value, selfname, "logger") or (isinstance(f.value, ast.Name) and f.value.id in
                                                     ("logging", "log", "logger", "_log"))


def _is_timing(st):
    """`start = timer()` / `end = time.perf_counter()`: a clock read bound to a local"""
    if not (isinstance(st, ast.Assign) and len(st.targets) == 1 and isinstance(st.targets[0], ast.Name)):
        return False
    v = st.value
    if not (isinstance(v, ast.Call) and not v.args and not v.keywords):
        return False
    f = v.func
    name = f.id if isinstance(f, ast.Name) else f.attr if isinstance(f, ast.Attribute) else None
    return name in ("timer", "default_timer", "perf_counter", "monotonic", "time", "process_time")


def _empty_list(v):
    """`[]` or `list()`: a NEW empty list"""
    if isinstance(v, ast.List) and not v.elts:
        return True
    return isinstance(v, ast.Call) and _is_name(v.func, "list") and not v.args and not v.keywords


# -------------------------------------------------------------------------------------------------
# class side
# -------------------------------------------------------------------------------------------------
def unit_body(unit):
    """the statements of the class body of `Unit` that bind / mention the two list attributes"""
    out, lines = [], []
    for st in unit.body:
        if isinstance(st, (ast.FunctionDef, ast.ClassDef)) or _is_doc(st):
            continue
        targets, value = None, None
        if isinstance(st, ast.AnnAssign) and isinstance(st.target, ast.Name):
            targets, value = [st.target], st.value
        elif isinstance(st, ast.Assign):
            targets, value = st.targets, st.value
        names = {t.id for t in (targets or []) if isinstance(t, ast.Name)}
        mentioned = {x for x in _names_in(st) if x in KINDS} | \
                    {x.attr for x in ast.walk(st) if isinstance(x, ast.Attribute) and x.attr in KINDS}
        if not mentioned:
            continue
        if targets is not None and len(targets) == 1 and len(names) == 1 and next(iter(names)) in KINDS \
                and value is not None and _empty_list(value):
            out.append(("freshList", KINDS[next(iter(names))]))
            lines.append(st.lineno)
            continue
        if isinstance(st, ast.AnnAssign) and st.value is None and names and names <= set(KINDS):
            continue                      # a bare annotation binds nothing
        raise Gap("Unit (class body)", _src(st), "not `<name> = []` for one of the two lists")
    return out, lines


def init_subclass(unit):
    """`Unit.__init_subclass__` -> (defined, [CInstr], lines)"""
    fn = _find_func(unit, "__init_subclass__")
    if fn is None:
        return False, [], []
    a = fn.args
    if a.vararg or a.kwonlyargs or a.posonlyargs or len(a.args) != 1 or a.defaults:
        raise Gap("Unit.__init_subclass__", "def __init_subclass__(" + ast.unparse(a) + ")", "signature")
    decs = [ast.unparse(d) for d in fn.decorator_list]
    if [d for d in decs if d != "classmethod"]:
        raise Gap("Unit.__init_subclass__", "@" + decs[0], "decorated")
    cls, kw = a.args[0].arg, a.kwarg.arg if a.kwarg else None
    out, lines = [], []
    for st in _strip(fn.body):
        if isinstance(st, ast.Assign) and len(st.targets) == 1 and isinstance(st.targets[0], ast.Attribute) \
                and _is_name(st.targets[0].value, cls) and st.targets[0].attr in KINDS and _empty_list(st.value):
            out.append(("freshList", KINDS[st.targets[0].attr]))
            lines.append(st.lineno)
            continue
        if isinstance(st, ast.Expr) and isinstance(st.value, ast.Call):
            c = st.value
            if isinstance(c.func, ast.Attribute) and c.func.attr == "__init_subclass__" \
                    and isinstance(c.func.value, ast.Call) and _is_name(c.func.value.func, "super") \
                    and not c.func.value.args and not c.args \
                    and all(k.arg is None and kw is not None and _is_name(k.value, kw) for k in c.keywords):
                out.append(("superCall",))
                lines.append(st.lineno)
                continue
        raise Gap("Unit.__init_subclass__", _src(st), "not `cls.<list> = []` / `super().__init_subclass__(**kwargs)`")
    return True, out, lines


def _type_of_self(n, selfname):
    """`type(self)` / `self.__class__`"""
    if isinstance(n, ast.Call) and _is_name(n.func, "type") and len(n.args) == 1 and _is_name(n.args[0], selfname) \
            and not n.keywords:
        return True
    return _self_attr(n, selfname, "__class__")


def _mro_of_self(n, selfname):
    """`type(self).__mro__` / `type(self).mro()`"""
    if isinstance(n, ast.Attribute) and n.attr == "__mro__" and _type_of_self(n.value, selfname):
        return True
    return isinstance(n, ast.Call) and isinstance(n.func, ast.Attribute) and n.func.attr == "mro" \
        and _type_of_self(n.func.value, selfname) and not n.args and not n.keywords


def _order(n, selfname):
    if _mro_of_self(n, selfname):
        return "mroForward"
    if isinstance(n, ast.Call) and _is_name(n.func, "reversed") and len(n.args) == 1 and not n.keywords \
            and _mro_of_self(n.args[0], selfname):
        return "mroReversed"
    if isinstance(n, ast.Subscript) and _mro_of_self(n.value, selfname) and isinstance(n.slice, ast.Slice) \
            and n.slice.lower is None and n.slice.upper is None and isinstance(n.slice.step, ast.UnaryOp) \
            and isinstance(n.slice.step.op, ast.USub) and isinstance(n.slice.step.operand, ast.Constant) \
            and n.slice.step.operand.value == 1:
        return "mroReversed"
    return None


def _default(n):
    if n is None or _is_none(n):
        return "none"
    if isinstance(n, (ast.List, ast.Tuple)) and not n.elts:
        return "empty"
    return None


def _lookup(n, clsvar):
    """`getattr(s, "<name>", d)` / `s.__dict__.get("<name>"[, d])` / `vars(s).get(…)`, optionally `… or ()`
    -> (lookup, kind, default) or None"""
    if isinstance(n, ast.BoolOp) and isinstance(n.op, ast.Or) and len(n.values) == 2 \
            and _default(n.values[1]) == "empty":
        r = _lookup(n.values[0], clsvar)
        return None if r is None else (r[0], r[1], "empty")
    if not isinstance(n, ast.Call) or n.keywords:
        return None
    if _is_name(n.func, "getattr") and len(n.args) == 3 and _is_name(n.args[0], clsvar) \
            and isinstance(n.args[1], ast.Constant) and n.args[1].value in KINDS:
        d = _default(n.args[2])
        return None if d is None else ("getattr", KINDS[n.args[1].value], d)
    if isinstance(n.func, ast.Attribute) and n.func.attr == "get" and len(n.args) in (1, 2) \
            and isinstance(n.args[0], ast.Constant) and n.args[0].value in KINDS:
        o = n.func.value
        own = (isinstance(o, ast.Attribute) and o.attr == "__dict__" and _is_name(o.value, clsvar)) or \
              (isinstance(o, ast.Call) and _is_name(o.func, "vars") and len(o.args) == 1 and _is_name(o.args[0], clsvar))
        d = _default(n.args[1] if len(n.args) == 2 else None)
        if own and d is not None:
            return "ownDict", KINDS[n.args[0].value], d
    return None


def walk_method(unit, name):
    """`_yield_<kind>_processors` -> dict(order, lookup, kind, dflt, noneGuard), lines"""
    label = "Unit." + name
    fn = _find_func(unit, name)
    if fn is None:
        raise Gap(label, "(method missing)", "not defined in Unit")
    a = fn.args
    if a.vararg or a.kwarg or a.kwonlyargs or a.posonlyargs or len(a.args) != 1 or fn.decorator_list:
        raise Gap(label, "def " + name + "(" + ast.unparse(a) + ")", "signature / decorator")
    selfname = a.args[0].arg
    body = _strip(fn.body)
    if len(body) != 1:
        raise Gap(label, _src(body[1]) if len(body) > 1 else "(empty)", "more than the one loop")
    st = body[0]
    lines = [st.lineno]

    def from_comp(c):
        """`(f for s in ORDER for f in LOOKUP)`"""
        if not isinstance(c, (ast.GeneratorExp, ast.ListComp)) or len(c.generators) != 2:
            return None
        g1, g2 = c.generators
        if g1.ifs or g2.ifs or g1.is_async or g2.is_async or not isinstance(g1.target, ast.Name) \
                or not isinstance(g2.target, ast.Name) or not _is_name(c.elt, g2.target.id):
            return None
        o = _order(g1.iter, selfname)
        lk = _lookup(g2.iter, g1.target.id)
        if o is None or lk is None:
            return None
        return dict(order=o, lookup=lk[0], kind=lk[1], dflt=lk[2], noneGuard=False)

    # the equivalent comprehension: `yield from (…)` / `return (…)` / `return iter([...])`
    comp = None
    if isinstance(st, ast.Expr) and isinstance(st.value, ast.YieldFrom):
        comp = st.value.value
    elif isinstance(st, ast.Return) and st.value is not None:
        comp = st.value
        if isinstance(comp, ast.Call) and _is_name(comp.func, "iter") and len(comp.args) == 1 and not comp.keywords:
            comp = comp.args[0]
    if comp is not None:
        w = from_comp(comp)
        if w is None:
            raise Gap(label, _src(st), "not `(f for s in reversed(type(self).__mro__) for f in getattr(s, name, ()))`")
        return w, lines
    if not (isinstance(st, ast.For) and isinstance(st.target, ast.Name) and not st.orelse):
        raise Gap(label, _src(st), "not a `for s in …` loop")
    order = _order(st.iter, selfname)
    if order is None:
        raise Gap(label, "for … in " + _src(st.iter), "not the (reversed) `type(self).__mro__`")
    clsvar = st.target.id
    inner = _strip(st.body)
    lines += [x.lineno for x in inner]

    def is_yield_all(x, var_expr_check):
        """`yield from V` / `for f in V: yield f`"""
        if isinstance(x, ast.Expr) and isinstance(x.value, ast.YieldFrom) and var_expr_check(x.value.value):
            return True
        if isinstance(x, ast.For) and isinstance(x.target, ast.Name) and not x.orelse and var_expr_check(x.iter) \
                and len(_strip(x.body)) == 1:
            y = _strip(x.body)[0]
            return isinstance(y, ast.Expr) and isinstance(y.value, ast.Yield) and _is_name(y.value.value, x.target.id)
        return False

    # `yield from <lookup>` directly
    if len(inner) == 1:
        got = {}

        def direct(e):
            lk = _lookup(e, clsvar)
            if lk is not None:
                got["lk"] = lk
            return lk is not None
        if is_yield_all(inner[0], direct):
            lk = got["lk"]
            return dict(order=order, lookup=lk[0], kind=lk[1], dflt=lk[2], noneGuard=False), lines
    # `V = <lookup>` first
    if not inner or not (isinstance(inner[0], ast.Assign) and len(inner[0].targets) == 1
                         and isinstance(inner[0].targets[0], ast.Name)):
        raise Gap(label, _src(inner[0]) if inner else "(empty loop)", "not `inits = getattr(s, name, None)`")
    var = inner[0].targets[0].id
    lk = _lookup(inner[0].value, clsvar)
    if lk is None:
        raise Gap(label, _src(inner[0]), "not `getattr(s, \"pre_processors\" | \"post_processors\", None)`")
    rest = inner[1:]

    def is_var(e):
        return _is_name(e, var)

    def none_test(t, positive):
        """`V is not None` (positive) / `V is None`"""
        return isinstance(t, ast.Compare) and is_var(t.left) and len(t.ops) == 1 and len(t.comparators) == 1 \
            and _is_none(t.comparators[0]) and isinstance(t.ops[0], ast.IsNot if positive else ast.Is)

    guard = None
    if len(rest) == 1 and is_yield_all(rest[0], is_var):
        guard = False
    elif len(rest) == 1 and isinstance(rest[0], ast.If) and not rest[0].orelse and none_test(rest[0].test, True) \
            and len(_strip(rest[0].body)) == 1 and is_yield_all(_strip(rest[0].body)[0], is_var):
        guard = True
        lines.append(_strip(rest[0].body)[0].lineno)
    elif len(rest) == 2 and isinstance(rest[0], ast.If) and not rest[0].orelse and none_test(rest[0].test, False) \
            and len(_strip(rest[0].body)) == 1 and isinstance(_strip(rest[0].body)[0], ast.Continue) \
            and is_yield_all(rest[1], is_var):
        guard = True
    if guard is None:
        raise Gap(label, _src(rest[0]) if rest else "(nothing yielded)", "not `if inits is not None: yield from inits`")
    return dict(order=order, lookup=lk[0], kind=lk[1], dflt=lk[2], noneGuard=guard), lines


# -------------------------------------------------------------------------------------------------
# run side: init_solve / solve
# -------------------------------------------------------------------------------------------------
def _public_copy_src(n, profile_names):
    """`BaseProfile(**{k: v for k, v in SRC.__dict__.items() if not k.startswith("_")})` (or the `dict(e for e in …
    if not e[0].startswith("_"))` form of `Unit.Profile.__init__`) -> SRC, else None"""
    if not (isinstance(n, ast.Call) and isinstance(n.func, ast.Name) and n.func.id in profile_names and not n.args
            and len(n.keywords) == 1 and n.keywords[0].arg is None):
        return None
    return _public_dict_src(n.keywords[0].value)


def _public_dict_src(d):
    """`{k: v for k, v in SRC.__dict__.items() if not k.startswith("_")}` / `dict(e for e in SRC.__dict__.items() if not
    e[0].startswith("_"))` -> SRC, else None"""

    def items_of(it):
        if isinstance(it, ast.Call) and isinstance(it.func, ast.Attribute) and it.func.attr == "items" and not it.args \
                and not it.keywords and isinstance(it.func.value, ast.Attribute) and it.func.value.attr == "__dict__":
            return it.func.value.value
        if isinstance(it, ast.Call) and isinstance(it.func, ast.Attribute) and it.func.attr == "items" and not it.args \
                and not it.keywords and isinstance(it.func.value, ast.Call) and _is_name(it.func.value.func, "vars") \
                and len(it.func.value.args) == 1:
            return it.func.value.args[0]
        return None

    def not_private(t, keyexpr):
        """`not <key>.startswith("_")`"""
        return isinstance(t, ast.UnaryOp) and isinstance(t.op, ast.Not) and isinstance(t.operand, ast.Call) \
            and isinstance(t.operand.func, ast.Attribute) and t.operand.func.attr == "startswith" \
            and keyexpr(t.operand.func.value) and len(t.operand.args) == 1 and not t.operand.keywords \
            and isinstance(t.operand.args[0], ast.Constant) and t.operand.args[0].value == "_"

    def pair_gen(g, elt_ok):
        if g.is_async or len(g.ifs) != 1:
            return None
        src = items_of(g.iter)
        if src is None:
            return None
        if isinstance(g.target, ast.Tuple) and len(g.target.elts) == 2 and all(isinstance(x, ast.Name) for x in g.target.elts):
            k, v = g.target.elts[0].id, g.target.elts[1].id
            if not_private(g.ifs[0], lambda e: _is_name(e, k)) and elt_ok(("kv", k, v)):
                return src
        if isinstance(g.target, ast.Name):
            e = g.target.id

            def first(x):
                return isinstance(x, ast.Subscript) and _is_name(x.value, e) and isinstance(x.slice, ast.Constant) \
                    and x.slice.value == 0
            if not_private(g.ifs[0], first) and elt_ok(("e", e)):
                return src
        return None

    if isinstance(d, ast.DictComp) and len(d.generators) == 1:
        return pair_gen(d.generators[0],
                        lambda t: t[0] == "kv" and _is_name(d.key, t[1]) and _is_name(d.value, t[2]))
    if isinstance(d, ast.Call) and _is_name(d.func, "dict") and len(d.args) == 1 and not d.keywords \
            and isinstance(d.args[0], (ast.GeneratorExp, ast.ListComp)) and len(d.args[0].generators) == 1:
        c = d.args[0]

        def elt_ok(t):
            if t[0] == "e":
                return _is_name(c.elt, t[1])
            return isinstance(c.elt, ast.Tuple) and len(c.elt.elts) == 2 and _is_name(c.elt.elts[0], t[1]) \
                and _is_name(c.elt.elts[1], t[2])
        return pair_gen(c.generators[0], elt_ok)
    return None


class MethodTr:
    """statements of `init_solve` / `solve` -> [SInstr] (tuples)"""

    def __init__(self, label, fn, profile_names):
        self.label, self.fn, self.profile_names = label, fn, profile_names
        a = fn.args
        if a.vararg or a.kwarg or a.kwonlyargs or a.posonlyargs or len(a.args) != 2 or a.defaults or fn.decorator_list:
            raise Gap(label, "def " + fn.name + "(" + ast.unparse(a) + ")", "signature / decorator")
        self.selfname, self.param = a.args[0].arg, a.args[1].arg
        self.local = None
        self.loops, self.loop_lines = [], []
        self.solution_loop, self.solution_line = None, None
        self.refreshes = []
        self.lines = []

    def gap(self, st, why):
        return Gap(self.label, _src(st), why)

    def ref(self, n, st, bind=False):
        if _is_name(n, self.param):
            return "arg"
        if isinstance(n, ast.Name):
            if self.local is None and bind:
                self.local = n.id
            if n.id == self.local:
                return "loc"
            raise self.gap(st, f"`{n.id}` is neither the profile parameter nor the one profile local")
        if _self_attr(n, self.selfname, "in_profile"):
            return "selfIn"
        if _self_attr(n, self.selfname, "out_profile"):
            return "selfOut"
        raise self.gap(st, f"`{_src(n)}` is not a profile variable")

    # ---- the factory loop ---------------------------------------------------------------------------
    def loop(self, st):
        it = st.iter
        if not (isinstance(st.target, ast.Name) and not st.orelse and isinstance(it, ast.Call) and not it.args
                and not it.keywords and isinstance(it.func, ast.Attribute) and it.func.attr in YIELDS
                and _is_name(it.func.value, self.selfname)):
            raise self.gap(st, "not `for factory in self._yield_…_processors():`")
        kind = YIELDS[it.func.attr]
        fac = st.target.id
        state = {"proc": None}
        body = []

        def stmts(lst, last_allowed):
            for i, x in enumerate(lst):
                is_last = last_allowed and i == len(lst) - 1
                if _is_doc(x) or isinstance(x, ast.Pass):
                    continue
                if _is_logging(x, self.selfname):
                    if state["proc"] is not None and state["proc"] in _names_in(x):
                        body.append(("logProc",))
                    continue
                if isinstance(x, ast.Assign) and len(x.targets) == 1 and isinstance(x.targets[0], ast.Name) \
                        and isinstance(x.value, ast.Call) and _is_name(x.value.func, fac):
                    c = x.value
                    if len(c.args) == 1 and _is_name(c.args[0], self.selfname) and not c.keywords \
                            and state["proc"] is None:
                        state["proc"] = x.targets[0].id
                        body.append(("callFactory",))
                        continue
                    raise self.gap(x, "the factory is not called as `factory(self)` exactly once")
                p = state["proc"]
                if isinstance(x, ast.If) and p is not None and not x.orelse and isinstance(x.test, ast.Compare) \
                        and _is_name(x.test.left, p) and len(x.test.ops) == 1 and _is_none(x.test.comparators[0]):
                    inner = _strip(x.body)
                    if isinstance(x.test.ops[0], ast.Is) and len(inner) == 1 \
                            and isinstance(inner[0], (ast.Continue, ast.Break)):
                        body.append(("ifNone", "skip" if isinstance(inner[0], ast.Continue) else "stop"))
                        continue
                    if isinstance(x.test.ops[0], ast.IsNot) and is_last:
                        body.append(("ifNone", "skip"))
                        stmts(inner, False)
                        continue
                    raise self.gap(x, "not `if p is None: continue`")
                call = None
                if isinstance(x, ast.Assign) and len(x.targets) == 1:
                    call, dst = x.value, x.targets[0]
                elif isinstance(x, ast.Expr):
                    call, dst = x.value, None
                if p is not None and isinstance(call, ast.Call) and isinstance(call.func, ast.Attribute) \
                        and call.func.attr == "solve" and _is_name(call.func.value, p):
                    if len(call.args) != 1 or call.keywords:
                        raise self.gap(x, "`p.solve` is not called with the one profile")
                    src = self.ref(call.args[0], x)
                    d = None if dst is None else self.ref(dst, x, bind=True)
                    body.append(("solve", d, src))
                    continue
                raise self.gap(x, "not one of `p = factory(self)`, `if p is None: continue`, `x = p.solve(x)`")
        stmts(st.body, True)
        self.loops.append((kind, body))
        self.loop_lines.append(st.lineno)
        return ("loop", len(self.loops) - 1)

    # ---- the re-use branch of init_solve ----------------------------------------------------------------
    def refresh(self, stmts):
        """roots = {h.name for h in root_hooks if isinstance(self.out_profile, h.owner)}
        handed = {k: v for k, v in SRC.__dict__.items() if not k.startswith("_")}
        outdated = [k for k in self.out_profile.__dict__ if <conjunction of literals>]
        for k in outdated: delattr(self.out_profile, k)
        for k, v in handed.items(): [if <disjunction of literals>:] setattr(self.out_profile, k, v)
        -> dict(src, delete=[literal], set=[literal])"""
        s = self.selfname
        body = [x for x in _strip(stmts) if not _is_logging(x, s)]
        if len(body) != 5:
            raise self.gap(body[0] if body else stmts[0],
                           f"the re-use branch has {len(body)} statements, not roots / handed over / outdated / delete / set")
        a_roots, a_handed, a_out, f_del, f_set = body
        for a in (a_roots, a_handed, a_out):
            if not (isinstance(a, ast.Assign) and len(a.targets) == 1 and isinstance(a.targets[0], ast.Name)):
                raise self.gap(a, "re-use branch: not `name = …`")
        roots, handed, outdated = (a.targets[0].id for a in (a_roots, a_handed, a_out))

        def is_out(n):
            return _self_attr(n, s, "out_profile")

        def is_out_dict(n):
            return (isinstance(n, ast.Attribute) and n.attr == "__dict__" and is_out(n.value)) or \
                   (isinstance(n, ast.Call) and _is_name(n.func, "vars") and len(n.args) == 1 and is_out(n.args[0]))

        # roots
        sc = a_roots.value
        ok = isinstance(sc, ast.SetComp) and len(sc.generators) == 1 and not sc.generators[0].is_async \
            and isinstance(sc.generators[0].target, ast.Name) and len(sc.generators[0].ifs) == 1
        if ok:
            g = sc.generators[0]
            h = g.target.id
            c = g.ifs[0]
            it = g.iter
            ok = isinstance(sc.elt, ast.Attribute) and sc.elt.attr == "name" and _is_name(sc.elt.value, h) \
                and (_is_name(it, "root_hooks") or (isinstance(it, ast.Attribute) and it.attr == "root_hooks")) \
                and isinstance(c, ast.Call) and _is_name(c.func, "isinstance") and len(c.args) == 2 and not c.keywords \
                and is_out(c.args[0]) and isinstance(c.args[1], ast.Attribute) and c.args[1].attr == "owner" \
                and _is_name(c.args[1].value, h)
        if not ok:
            raise self.gap(a_roots, "re-use branch: not `{h.name for h in root_hooks if isinstance(self.out_profile, h.owner)}`")
        # handed over
        src = _public_dict_src(a_handed.value)
        if src is None:
            raise self.gap(a_handed, "re-use branch: not the public entries of a profile's `__dict__`")
        src_ref = self.ref(src, a_handed)

        def literal(t, k, where):
            pos = True
            if isinstance(t, ast.UnaryOp) and isinstance(t.op, ast.Not):
                pos, t = False, t.operand
            if isinstance(t, ast.Call) and isinstance(t.func, ast.Attribute) and t.func.attr == "startswith" \
                    and _is_name(t.func.value, k) and len(t.args) == 1 and not t.keywords \
                    and isinstance(t.args[0], ast.Constant) and t.args[0].value == "_":
                return ("isPublic", not pos)
            if isinstance(t, ast.Compare) and _is_name(t.left, k) and len(t.ops) == 1 \
                    and isinstance(t.ops[0], (ast.In, ast.NotIn)):
                p = isinstance(t.ops[0], ast.In) == pos
                c = t.comparators[0]
                if _is_name(c, roots):
                    return ("isRoot", p)
                if _is_name(c, handed):
                    return ("isHanded", p)
                if is_out_dict(c):
                    return ("isPresent", p)
            raise self.gap(where, f"re-use branch: `{_src(t)}` is not a test of the entry name against `_`, the root hook "
                                  "names, the handed-over entries or the out profile's entries")

        def junction(tests, op, k, where):
            lits = []
            for t in tests:
                if isinstance(t, ast.BoolOp) and isinstance(t.op, op):
                    lits += junction(t.values, op, k, where)
                elif isinstance(t, ast.BoolOp):
                    raise self.gap(where, "re-use branch: mixed and / or")
                else:
                    lits.append(literal(t, k, where))
            return lits

        # outdated
        lc = a_out.value
        if not (isinstance(lc, ast.ListComp) and len(lc.generators) == 1 and not lc.generators[0].is_async
                and isinstance(lc.generators[0].target, ast.Name) and _is_name(lc.elt, lc.generators[0].target.id)
                and is_out_dict(lc.generators[0].iter) and lc.generators[0].ifs):
            raise self.gap(a_out, "re-use branch: not `[k for k in self.out_profile.__dict__ if …]`")
        g = lc.generators[0]
        delete = junction(g.ifs, ast.And, g.target.id, a_out)
        # delete loop
        db = _strip(f_del.body) if isinstance(f_del, ast.For) else []
        ok = isinstance(f_del, ast.For) and not f_del.orelse and isinstance(f_del.target, ast.Name) \
            and _is_name(f_del.iter, outdated) and len(db) == 1 and isinstance(db[0], ast.Expr) \
            and isinstance(db[0].value, ast.Call) and _is_name(db[0].value.func, "delattr") \
            and len(db[0].value.args) == 2 and not db[0].value.keywords and is_out(db[0].value.args[0]) \
            and _is_name(db[0].value.args[1], f_del.target.id)
        if not ok:
            raise self.gap(f_del, "re-use branch: not `for k in outdated: delattr(self.out_profile, k)`")
        # set loop
        ok = isinstance(f_set, ast.For) and not f_set.orelse and isinstance(f_set.target, ast.Tuple) \
            and len(f_set.target.elts) == 2 and all(isinstance(e, ast.Name) for e in f_set.target.elts) \
            and isinstance(f_set.iter, ast.Call) and isinstance(f_set.iter.func, ast.Attribute) \
            and f_set.iter.func.attr == "items" and not f_set.iter.args and not f_set.iter.keywords \
            and _is_name(f_set.iter.func.value, handed) and len(_strip(f_set.body)) == 1
        if not ok:
            raise self.gap(f_set, "re-use branch: not `for k, v in handed_over.items(): …`")
        kk, vv = (e.id for e in f_set.target.elts)
        inner = _strip(f_set.body)[0]
        if isinstance(inner, ast.If):
            if inner.orelse or len(_strip(inner.body)) != 1:
                raise self.gap(inner, "re-use branch: `if … else` in the set loop")
            setl = junction([inner.test], ast.Or, kk, inner)
            act = _strip(inner.body)[0]
        else:
            setl = [("isPublic", True), ("isPublic", False)]           # unconditional
            act = inner
        ok = isinstance(act, ast.Expr) and isinstance(act.value, ast.Call) and _is_name(act.value.func, "setattr") \
            and len(act.value.args) == 3 and not act.value.keywords and is_out(act.value.args[0]) \
            and _is_name(act.value.args[1], kk) and _is_name(act.value.args[2], vv)
        if not ok:
            raise self.gap(act, "re-use branch: not `setattr(self.out_profile, k, v)`")
        return dict(src=src_ref, delete=delete, set=setl, line=a_roots.lineno)

    # ---- the solution loop ---------------------------------------------------------------------------
    def iter_loop(self, st):
        if not (isinstance(st.iter, ast.Call) and _is_name(st.iter.func, "range") and isinstance(st.target, ast.Name)):
            raise self.gap(st, "not `for i in range(…)`")
        s = self.selfname
        body = []
        results = None
        for x in _strip(st.body):
            if _is_logging(x, s):
                continue
            if isinstance(x, ast.Expr) and isinstance(x.value, ast.Call) and not x.value.args and not x.value.keywords \
                    and isinstance(x.value.func, ast.Attribute):
                f = x.value.func
                if f.attr == "reevaluate_cache" and _self_attr(f.value, s, "in_profile"):
                    body.append("reevalIn")
                    continue
                if f.attr == "reevaluate_cache" and _self_attr(f.value, s, "out_profile"):
                    body.append("reevalOut")
                    continue
                if f.attr == "reevaluate_cache" and _is_name(f.value, s):
                    body.append("reevalSelf")
                    continue
                if f.attr == "_solve_subunits" and _is_name(f.value, s):
                    body.append("solveSubunits")
                    continue
            if isinstance(x, ast.Assign) and len(x.targets) == 1 and isinstance(x.targets[0], ast.Name) \
                    and isinstance(x.value, ast.Call) and isinstance(x.value.func, ast.Attribute) \
                    and x.value.func.attr == "get_root_hook_results" and _is_name(x.value.func.value, s) \
                    and not x.value.args and not x.value.keywords:
                results = x.targets[0].id
                body.append("rootResults")
                continue
            if isinstance(x, ast.If) and not x.orelse:
                inner = [y for y in _strip(x.body) if not _is_logging(y, s)]
                forbidden = {"in_profile", "out_profile", "_solve_subunits", "init_solve"} | set(YIELDS) | set(KINDS)
                touched = {n.attr for n in ast.walk(x.test) if isinstance(n, ast.Attribute)} & forbidden
                if len(inner) == 1 and isinstance(inner[0], ast.Break) and not touched:
                    body.append("breakIfConverged")
                    continue
            if isinstance(x, ast.Assign) and len(x.targets) == 1 and _self_attr(x.targets[0], s, "_old_results") \
                    and results is not None and _is_name(x.value, results):
                body.append("storeOld")
                continue
            raise self.gap(x, "not a statement of the solution loop (re-evaluation, `_solve_subunits()`, "
                              "root hook results, convergence test, `_old_results`)")
        for x in _strip(st.orelse):
            if not _is_logging(x, s):
                raise self.gap(x, "the `else` of the solution loop does more than logging")
        self.solution_loop, self.solution_line = body, st.lineno
        return ("iterLoop",)

    # ---- statements ----------------------------------------------------------------------------------
    def run(self):
        out = []
        s = self.selfname
        for st in _strip(self.fn.body):
            if _is_logging(st, s) or _is_timing(st):
                continue
            self.lines.append(st.lineno)
            if isinstance(st, ast.For):
                if isinstance(st.iter, ast.Call) and isinstance(st.iter.func, ast.Attribute) \
                        and st.iter.func.attr in YIELDS:
                    out.append(self.loop(st))
                else:
                    out.append(self.iter_loop(st))
                continue
            if isinstance(st, ast.Return):
                if st.value is None:
                    raise self.gap(st, "returns nothing")
                src = _public_copy_src(st.value, self.profile_names)
                if src is not None:
                    out.append(("retCopy", self.ref(src, st)))
                else:
                    out.append(("ret", self.ref(st.value, st)))
                continue
            if isinstance(st, ast.Expr) and isinstance(st.value, ast.Call) and isinstance(st.value.func, ast.Attribute) \
                    and st.value.func.attr == "init_solve" and _is_name(st.value.func.value, s):
                c = st.value
                if len(c.args) != 1 or c.keywords:
                    raise self.gap(st, "`init_solve` is not called with the one profile")
                out.append(("initSolve", self.ref(c.args[0], st)))
                continue
            guarded = False
            inner = st
            refresh = None
            if isinstance(st, ast.If) and len(_strip(st.body)) == 1:
                t = st.test
                unset = (isinstance(t, ast.UnaryOp) and isinstance(t.op, ast.Not)
                         and _self_attr(t.operand, s, "out_profile")) or \
                        (isinstance(t, ast.Compare) and _self_attr(t.left, s, "out_profile") and len(t.ops) == 1
                         and isinstance(t.ops[0], ast.Is) and _is_none(t.comparators[0]))
                if unset:
                    guarded, inner = True, _strip(st.body)[0]
                    if st.orelse:
                        refresh = self.refresh(st.orelse)
                elif st.orelse:
                    raise self.gap(st, "an `if … else` other than `if not self.out_profile: … else: <re-use branch>`")
            if refresh is not None:
                v = inner.value if isinstance(inner, ast.Assign) and len(inner.targets) == 1 else None
                if v is not None and isinstance(v, ast.Call) and isinstance(v.func, ast.Attribute) \
                        and _is_name(v.func.value, s) and v.func.attr == "OutProfile" and len(v.args) == 2 \
                        and not v.keywords and _is_name(v.args[0], s) and _self_attr(inner.targets[0], s, "out_profile"):
                    self.refreshes.append(refresh)
                    out.append(("newOrRefreshOut", self.ref(v.args[1], st), len(self.refreshes) - 1))
                    continue
                raise self.gap(st, "the `if` branch before the re-use branch does not create the `OutProfile`")
            if isinstance(inner, ast.Assign) and len(inner.targets) == 1:
                tgt, v = inner.targets[0], inner.value
                new = None
                if isinstance(v, ast.Call) and isinstance(v.func, ast.Attribute) and _is_name(v.func.value, s) \
                        and v.func.attr in ("InProfile", "OutProfile") and len(v.args) == 2 and not v.keywords \
                        and _is_name(v.args[0], s):
                    new = v.func.attr
                if new == "InProfile" and _self_attr(tgt, s, "in_profile") and not guarded:
                    out.append(("newIn", self.ref(v.args[1], st)))
                    continue
                if new == "OutProfile" and _self_attr(tgt, s, "out_profile"):
                    out.append(("newOut", self.ref(v.args[1], st), guarded))
                    continue
                if new is None and not guarded:
                    src = _public_copy_src(v, self.profile_names)
                    if src is not None:
                        r = self.ref(src, st)
                        out.append(("publicCopy", self.ref(tgt, st, bind=True), r))
                        continue
                    if isinstance(v, (ast.Name, ast.Attribute)):
                        r = self.ref(v, st)
                        out.append(("bind", self.ref(tgt, st, bind=True), r))
                        continue
            raise self.gap(st, "not a statement of the translated subset")
        return out


def _profile_names(tree):
    """local names under which `pyroll.core.profile.Profile` is imported into unit.py"""
    names = set()
    for st in tree.body:
        if isinstance(st, ast.ImportFrom) and st.module and st.module.split(".")[-1] == "profile":
            for a in st.names:
                if a.name == "Profile":
                    names.add(a.asname or a.name)
    return names


def solve_subunits(unit):
    """`Unit._solve_subunits` -> dict(guarded, start, body, wrapped), lines"""
    label = "Unit._solve_subunits"
    fn = _find_func(unit, "_solve_subunits")
    if fn is None:
        raise Gap(label, "(method missing)", "not defined in Unit")
    a = fn.args
    if a.vararg or a.kwarg or a.kwonlyargs or a.posonlyargs or len(a.args) != 1 or fn.decorator_list:
        raise Gap(label, "def _solve_subunits(" + ast.unparse(a) + ")", "signature / decorator")
    s = a.args[0].arg
    body = _strip(fn.body)
    guarded = False
    if len(body) == 1 and isinstance(body[0], ast.If) and not body[0].orelse and \
            (_self_attr(body[0].test, s, "_subunits") or _self_attr(body[0].test, s, "subunits")):
        guarded = True
        body = _strip(body[0].body)
    if len(body) != 2:
        raise Gap(label, _src(body[0]) if body else "(empty)", "not `last = self.in_profile` followed by the one loop")
    first, loop = body
    if not (isinstance(first, ast.Assign) and len(first.targets) == 1 and isinstance(first.targets[0], ast.Name)):
        raise Gap(label, _src(first), "not `last = self.in_profile`")
    last = first.targets[0].id
    if not (isinstance(loop, ast.For) and isinstance(loop.target, ast.Name) and not loop.orelse and
            (_self_attr(loop.iter, s, "_subunits") or _self_attr(loop.iter, s, "subunits"))):
        raise Gap(label, _src(loop), "not `for u in self._subunits:`")
    member = loop.target.id

    def uref(n, st):
        if _is_name(n, last):
            return "last"
        if _self_attr(n, s, "in_profile"):
            return "selfIn"
        if _self_attr(n, s, "out_profile"):
            return "selfOut"
        if _self_attr(n, member, "out_profile"):
            return "memberOut"
        if _self_attr(n, member, "in_profile"):
            return "memberIn"
        raise Gap(label, _src(st), f"`{_src(n)}` is not a profile expression of the sub-unit loop")

    start = uref(first.value, first)
    out, lines, wrapped = [], [first.lineno, loop.lineno], False
    for st in _strip(loop.body):
        x = st
        if isinstance(st, ast.Try):
            ok = len(_strip(st.body)) == 1 and not st.orelse and not st.finalbody and len(st.handlers) == 1
            if ok:
                h = st.handlers[0]
                hb = _strip(h.body)
                ok = len(hb) == 1 and isinstance(hb[0], ast.Raise) and hb[0].exc is not None
            if not ok:
                raise Gap(label, _src(st), "not `try: <one statement> except …: raise …`")
            wrapped = True
            x = _strip(st.body)[0]
        if _is_logging(x, s):
            continue
        lines.append(x.lineno)
        call, dst = None, None
        if isinstance(x, ast.Assign) and len(x.targets) == 1:
            call, dst = x.value, x.targets[0]
        elif isinstance(x, ast.Expr):
            call = x.value
        if isinstance(call, ast.Call) and isinstance(call.func, ast.Attribute) and call.func.attr == "solve" \
                and _is_name(call.func.value, member):
            if len(call.args) != 1 or call.keywords or (dst is not None and not _is_name(dst, last)):
                raise Gap(label, _src(x), "not `last = u.solve(last)`")
            out.append(("solveMember", dst is not None, uref(call.args[0], x)))
            continue
        if dst is not None and _is_name(dst, last) and isinstance(x.value, (ast.Name, ast.Attribute)):
            out.append(("bind", uref(x.value, x)))
            continue
        raise Gap(label, _src(x), "not `last = u.solve(last)` / `last = <profile>`")
    return dict(guarded=guarded, start=start, body=out, wrapped=wrapped), lines


# -------------------------------------------------------------------------------------------------
# canonical statement lists (pinned items)
# -------------------------------------------------------------------------------------------------
class _Rename(ast.NodeTransformer):
    def __init__(self, m):
        self.m = m

    def visit_Name(self, n):
        return ast.copy_location(ast.Name(self.m.get(n.id, n.id), n.ctx), n)

    def visit_arg(self, n):
        return ast.copy_location(ast.arg(self.m.get(n.arg, n.arg), None), n)


def canonical(fn, keep=()):
    """parameter list + statements with docstrings dropped and locals (not parameters) renamed v0, v1, … in binding
    order"""
    params = [a.arg for a in fn.args.args]
    # binding order = order of appearance in the source
    stores = sorted({(n.lineno, n.col_offset, n.id) for n in ast.walk(fn)
                     if isinstance(n, ast.Name) and isinstance(n.ctx, ast.Store) and n.id not in params})
    order = []
    for (_, _, name) in stores:
        if name not in order:
            order.append(name)
    m = {name: f"v{i}" for i, name in enumerate(order) if name not in keep}
    out = ["(" + ", ".join(params) + ")"]
    for st in _strip(fn.body):
        st = _Rename(m).visit(ast.parse(ast.unparse(st)).body[0])
        for x in ast.walk(st):
            if hasattr(x, "body") and isinstance(getattr(x, "body"), list):
                x.body = _strip(x.body) or [ast.Pass()]
        out += ast.unparse(ast.fix_missing_locations(st)).split("\n")
    return out


# -------------------------------------------------------------------------------------------------
# inventory of pyroll/core
# -------------------------------------------------------------------------------------------------
def _py_files(repo):
    root = os.path.join(repo, CORE_DIR)
    res = []
    for d, _, fs in os.walk(root):
        for f in fs:
            if f.endswith(".py"):
                res.append(os.path.relpath(os.path.join(d, f), repo))
    return sorted(res)


class _ClassInfo:
    def __init__(self, qual, node, rel, top):
        self.qual, self.node, self.rel, self.top = qual, node, rel, top
        self.bases = [ast.unparse(b) for b in node.bases]
        self.defined = {}
        for ch in node.body:
            if isinstance(ch, ast.FunctionDef):
                self.defined[ch.name] = ch
            elif isinstance(ch, ast.Assign):
                for t in ch.targets:
                    if isinstance(t, ast.Name):
                        self.defined[t.id] = ch
            elif isinstance(ch, ast.AnnAssign) and isinstance(ch.target, ast.Name) and ch.value is not None:
                self.defined[ch.target.id] = ch


def _collect_classes(repo):
    classes, trees = [], {}
    for rel in _py_files(repo):
        tree = _parse(repo, rel)
        trees[rel] = tree

        def rec(body, prefix, top):
            for ch in body:
                if isinstance(ch, ast.ClassDef):
                    q = prefix + ch.name
                    classes.append(_ClassInfo(q, ch, rel, top))
                    rec(ch.body, q + ".", False)
        rec(tree.body, "", True)
    return classes, trees


def _resolve(b, classes, inside):
    """classes a base expression can denote (static, by name; over-approximation)"""
    res = []
    for c in classes:
        if c.qual == b or (inside and c.qual == inside + "." + b):
            res.append(c)
        elif "." not in b and c.top and c.qual == b:
            res.append(c)
    return res


def _c3(name, bases_of, memo, stack=()):
    """C3 linearisation over the static class graph (unknown bases are roots)"""
    if name in memo:
        return memo[name]
    if name in stack:
        raise Gap("class table", name, "cyclic inheritance")
    bases = bases_of.get(name, [])
    seqs = [list(_c3(b, bases_of, memo, stack + (name,))) for b in bases] + [list(bases)]
    res = [name]
    while True:
        seqs = [s for s in seqs if s]
        if not seqs:
            break
        for s in seqs:
            cand = s[0]
            if not any(cand in t[1:] for t in seqs):
                break
        else:
            raise Gap("class table", name, "no consistent MRO")
        res.append(cand)
        seqs = [s[1:] if s[0] == cand else s for s in seqs]
    memo[name] = res
    return res


def inventory(repo, libnames):
    classes, trees = _collect_classes(repo)
    by_qual = {}
    for c in classes:
        by_qual.setdefault(c.qual, c)
    # unit classes: fixpoint over the static base names
    unit_q = {"Unit"} if "Unit" in by_qual else set()
    changed = True
    while changed:
        changed = False
        for c in classes:
            if c.qual in unit_q:
                continue
            outer = c.qual.rsplit(".", 1)[0] if "." in c.qual else None
            for b in c.bases:
                if any(r.qual in unit_q for r in _resolve(b, classes, outer)):
                    unit_q.add(c.qual)
                    changed = True
                    break
    overrides = sorted((c.qual, n) for c in classes if c.qual in unit_q and c.qual != "Unit"
                       for n in WATCH if n in c.defined)
    over_init = []
    for c in classes:
        if c.qual in unit_q and c.qual != "Unit" and isinstance(c.defined.get("init_solve"), ast.FunctionDef):
            over_init.append((c.qual, canonical(c.defined["init_solve"]), c.rel, c.defined["init_solve"].lineno))
    over_init.sort(key=lambda t: t[0])

    # mentions outside the translated methods of Unit
    skip = set()
    unit = by_qual.get("Unit")
    if unit is not None:
        for n in TRANSLATED_METHODS:
            fn = unit.defined.get(n)
            if isinstance(fn, ast.FunctionDef):
                skip |= {id(x) for x in ast.walk(fn)}
        for n in KINDS:
            st = unit.defined.get(n)
            if st is not None:
                skip |= {id(x) for x in ast.walk(st)}
        for ch in unit.node.body:             # bare annotations of the two lists
            if isinstance(ch, ast.AnnAssign) and isinstance(ch.target, ast.Name) and ch.target.id in KINDS:
                skip |= {id(x) for x in ast.walk(ch)}
    mentions, regs = [], []
    for rel, tree in trees.items():
        def visit(body, scope):
            for st in body:
                if isinstance(st, (ast.FunctionDef, ast.AsyncFunctionDef, ast.ClassDef)):
                    if id(st) in skip:
                        continue
                    visit(st.body, (scope + "." if scope else "") + st.name)
                    for d in st.decorator_list:
                        check(d, st, scope)
                    continue
                if _is_doc(st):
                    continue
                sub = [getattr(st, f) for f in ("body", "orelse", "finalbody") if isinstance(getattr(st, f, None), list)]
                if sub and not isinstance(st, (ast.Assign, ast.Expr)):
                    head = [getattr(st, f) for f in ("test", "iter", "target", "items") if getattr(st, f, None) is not None]
                    for h in head:
                        for hh in (h if isinstance(h, list) else [h]):
                            check(hh, st, scope)
                    for b in sub:
                        visit(b, scope)
                    for h in getattr(st, "handlers", []):
                        visit(h.body, scope)
                    continue
                check(st, st, scope)

        def check(node, st, scope):
            if id(st) in skip or id(node) in skip:
                return
            hit = False
            for x in ast.walk(node):
                if id(x) in skip:
                    continue
                if isinstance(x, ast.Attribute) and x.attr in MENTION_ATTRS:
                    hit = True
                if isinstance(x, ast.Constant) and isinstance(x.value, str) and x.value in MENTION_ATTRS:
                    hit = True
            if not hit:
                return
            where = rel + (" in " + scope if scope else "")
            mentions.append((where, _src(st), st.lineno))
            # a registration the library makes: `<Class>.<kind>.append(<factory>)` at module level
            if not scope and isinstance(st, ast.Expr) and isinstance(st.value, ast.Call) \
                    and isinstance(st.value.func, ast.Attribute) and st.value.func.attr in LIST_METHODS \
                    and isinstance(st.value.func.value, ast.Attribute) and st.value.func.value.attr in KINDS \
                    and isinstance(st.value.func.value.value, ast.Name) and not st.value.keywords:
                regs.append((st.value.func.value.value.id, KINDS[st.value.func.value.attr], st.value.func.attr,
                             ", ".join(ast.unparse(a) for a in st.value.args), rel, st.lineno))
        visit(tree.body, "")
    mentions.sort()
    # class table of the harness preamble
    bases_of = {}
    for c in classes:
        outer = c.qual.rsplit(".", 1)[0] if "." in c.qual else None
        bs = []
        for b in c.bases:
            r = _resolve(b, classes, outer)
            bs.append(r[0].qual if r else "<" + b + ">")
        bases_of.setdefault(c.qual, bs)
    memo = {}
    table = []
    for name in libnames:
        if name not in by_qual:
            raise Gap("class table", name, "class not found in pyroll/core")
        mro = _c3(name, bases_of, memo)
        tail = [libnames.index(k) for k in mro[1:] if k in libnames]
        table.append((name, tail, "__init_subclass__" in by_qual[name].defined, by_qual[name].rel,
                      by_qual[name].node.lineno))
    return dict(overrides=overrides, over_init=over_init, mentions=mentions, regs=regs, table=table,
                unit_classes=sorted(unit_q))


def unit_init_state(unit):
    """what `Unit.__init__` binds `self.in_profile` / `self.out_profile` to"""
    fn = _find_func(unit, "__init__")
    res = []
    if fn is None:
        return res, None
    s = fn.args.args[0].arg
    for st in ast.walk(fn):
        tgt, val = None, None
        if isinstance(st, ast.Assign) and len(st.targets) == 1:
            tgt, val = st.targets[0], st.value
        elif isinstance(st, ast.AnnAssign) and st.value is not None:
            tgt, val = st.target, st.value
        if tgt is not None and isinstance(tgt, ast.Attribute) and _is_name(tgt.value, s) \
                and tgt.attr in ("in_profile", "out_profile"):
            res.append((tgt.attr, ast.unparse(val), st.lineno))
    res.sort(key=lambda t: t[2])
    return [(a, b) for (a, b, _) in res], fn.lineno


# -------------------------------------------------------------------------------------------------
# Lean text
# -------------------------------------------------------------------------------------------------
HEADER = r'''/- GENERATED by driver/translate/c18_procs.py from pyroll/core/unit/unit.py, pyroll/core/roll_pass/base.py and the class
   inventory of pyroll/core.  Do not edit: rewritten by every `./check C18`.
   Import-free.  The instruction set below is fixed text; the programs after it are what the translator read.
   Meaning of the instructions: lean/PyrollModel/ProcProg.lean;  refinement theorems: lean/PyrollProps/C18.lean. -/

namespace Gen.C18

/-! ## instruction set -/

/-- which of the two class attributes: `pre_processors` / `post_processors` -/
inductive Kind where
  | pre | post
  deriving DecidableEq, Repr

/-- a statement of a class body / of `__init_subclass__` that concerns the two lists -/
inductive CInstr where
  /-- `<class>.<k> = []`: a NEW empty list bound in the namespace of the class -/
  | freshList (k : Kind)
  /-- `super().__init_subclass__(**kwargs)` -/
  | superCall
  /-- a statement outside the translated subset -/
  | untranslated
  deriving DecidableEq, Repr

/-- `Unit.__init_subclass__(cls, **kwargs)`: defined in the class body?  its statements -/
structure ClassHook where
  defined : Bool
  body : List CInstr
  deriving DecidableEq, Repr

/-- `for s in reversed(type(self).__mro__)` / `for s in type(self).__mro__` -/
inductive Order where
  | mroReversed | mroForward
  deriving DecidableEq, Repr

/-- `getattr(s, name, d)` (attribute lookup along the MRO of `s`) / `s.__dict__.get(name, d)` (the class's own entry) -/
inductive Lookup where
  | getattr | ownDict
  deriving DecidableEq, Repr

/-- the default `d` of the lookup: `None`, or an empty sequence -/
inductive Default where
  | none | empty
  deriving DecidableEq, Repr

/-- `_yield_pre_processors` / `_yield_post_processors`:
    `for s in <order>: inits = <lookup>(s, "<kind>", <dflt>); [if inits is not None:] yield from inits` -/
structure Walk where
  defined : Bool
  order : Order
  lookup : Lookup
  kind : Kind
  dflt : Default
  noneGuard : Bool
  deriving DecidableEq, Repr

/-- a profile variable of `init_solve` / `solve`: the method's profile parameter (rebinding included), its one further
    profile local, `self.in_profile`, `self.out_profile` -/
inductive Ref where
  | arg | loc | selfIn | selfOut
  deriving DecidableEq, Repr

/-- what `if p is None:` does -/
inductive OnNone where
  /-- `continue` -/
  | skip
  /-- `break` -/
  | stop
  deriving DecidableEq, Repr

/-- a statement of the body of `for factory in self._yield_…_processors():` -/
inductive PInstr where
  /-- `p = factory(self)` -/
  | callFactory
  /-- `if p is None: continue | break` -/
  | ifNone (act : OnNone)
  /-- a logging statement that reads an attribute of `p` (`p.label`) -/
  | logProc
  /-- `dst = p.solve(src)`; `dst = none`: the result is dropped -/
  | solve (dst : Option Ref) (src : Ref)
  | untranslated
  deriving DecidableEq, Repr

/-- `for factory in self._yield_<walk>_processors(): body` -/
structure Loop where
  walk : Kind
  body : List PInstr
  deriving DecidableEq, Repr

/-- a statement of the body of the solution loop `for i in range(1, self.max_iteration_count):` -/
inductive LInstr where
  /-- `self.in_profile.reevaluate_cache()` -/
  | reevalIn
  /-- `self._solve_subunits()` -/
  | solveSubunits
  /-- `self.reevaluate_cache()` -/
  | reevalSelf
  /-- `self.out_profile.reevaluate_cache()` -/
  | reevalOut
  /-- `x = self.get_root_hook_results()` -/
  | rootResults
  /-- `if <converged>: break` -/
  | breakIfConverged
  /-- `self._old_results = x` -/
  | storeOld
  | untranslated
  deriving DecidableEq, Repr

/-- a literal of the conditions of the re-use branch of `init_solve`, about the name `k` of an entry of a profile's
    `__dict__` (`pos = false`: negated) -/
inductive RLit where
  /-- `not k.startswith("_")` -/
  | isPublic (pos : Bool)
  /-- `k in roots` -/
  | isRoot (pos : Bool)
  /-- `k in handed_over` -/
  | isHanded (pos : Bool)
  /-- `k in self.out_profile.__dict__` -/
  | isPresent (pos : Bool)
  deriving DecidableEq, Repr

/-- the re-use branch of `init_solve` (an out profile exists already):
    `roots = {h.name for h in root_hooks if isinstance(self.out_profile, h.owner)}`;
    `handed_over = {public entries of src.__dict__}`;
    `outdated = [k for k in self.out_profile.__dict__ if <delete: conjunction>]; for k in outdated: delattr(self.out_profile, k)`;
    `for k, v in handed_over.items(): if <set: disjunction>: setattr(self.out_profile, k, v)` -/
structure Refresh where
  src : Ref
  delete : List RLit
  set : List RLit
  deriving DecidableEq, Repr

/-- a statement of `Unit.init_solve` / `Unit.solve` (logging and timing statements are passed over) -/
inductive SInstr where
  /-- `dst = src` -/
  | bind (dst src : Ref)
  /-- the factory loop -/
  | loop (l : Loop)
  /-- `self.in_profile = self.InProfile(self, tmpl)` -/
  | newIn (tmpl : Ref)
  /-- `self.out_profile = self.OutProfile(self, tmpl)`; `onlyIfUnset`: under `if not self.out_profile:` -/
  | newOut (tmpl : Ref) (onlyIfUnset : Bool)
  /-- `if not self.out_profile: self.out_profile = self.OutProfile(self, tmpl)  else: <re-use branch r>` -/
  | newOrRefreshOut (tmpl : Ref) (r : Refresh)
  /-- `self.init_solve(a)` -/
  | initSolve (a : Ref)
  /-- `for i in range(1, self.max_iteration_count): body  [else: warning]` -/
  | iterLoop (body : List LInstr)
  /-- `dst = BaseProfile(**{k: v for k, v in src.__dict__.items() if not k.startswith("_")})`: a NEW profile object
      holding the public entries of `src` -/
  | publicCopy (dst src : Ref)
  /-- `return r` -/
  | ret (r : Ref)
  /-- `return BaseProfile(**{public entries of r})` -/
  | retCopy (r : Ref)
  | untranslated
  deriving DecidableEq, Repr

/-- a profile expression inside `_solve_subunits`: the local that is threaded, `self.in_profile`, `self.out_profile`,
    `u.out_profile` / `u.in_profile` of the sub-unit at hand -/
inductive URef where
  | last | selfIn | selfOut | memberOut | memberIn
  deriving DecidableEq, Repr

/-- a statement of the body of `for u in self._subunits:` -/
inductive UInstr where
  /-- `[last =] u.solve(src)`; `keep = false`: the returned profile is dropped -/
  | solveMember (keep : Bool) (src : URef)
  /-- `last = src` -/
  | bind (src : URef)
  | untranslated
  deriving DecidableEq, Repr

/-- `Unit._solve_subunits`: `[if self._subunits:] last = <start>; for u in self._subunits: body`;
    `wrapped`: the call of `u.solve` stands in `try: … except Exception as e: raise RuntimeError(…) from e` -/
structure Subs where
  defined : Bool
  guarded : Bool
  start : URef
  body : List UInstr
  wrapped : Bool
  deriving DecidableEq, Repr

/-! ## what the translator read -/
'''


def _s(x):
    return '"' + x.replace("\\", "\\\\").replace('"', '\\"') + '"'


def _b(x):
    return "true" if x else "false"


def _slist(xs, indent="   "):
    if not xs:
        return "[]"
    return "[" + (",\n" + indent).join(_s(x) for x in xs) + "]"


def _refs(rel, lines):
    seen = []
    for ln in lines:
        if ln not in seen:
            seen.append(ln)
    return ", ".join(f"{rel}:{ln}" for ln in seen)


def _doc(text):
    return text.replace("-/", "- /")


def _cinstr(i):
    return ".freshList ." + i[1] if i[0] == "freshList" else "." + i[0]


def _pinstr(i):
    if i[0] == "ifNone":
        return f".ifNone .{i[1]}"
    if i[0] == "solve":
        return f".solve ({'none' if i[1] is None else 'some .' + i[1]}) .{i[2]}"
    return "." + i[0]


def _walk_def(name, w):
    if w is None:
        return (f"def {name} : Walk :=\n  {{ defined := false, order := .mroForward, lookup := .ownDict, kind := .pre, "
                f"dflt := .none, noneGuard := false }}\n")
    return (f"def {name} : Walk :=\n  {{ defined := true, order := .{w['order']}, lookup := .{w['lookup']}, "
            f"kind := .{w['kind']}, dflt := .{w['dflt']}, noneGuard := {_b(w['noneGuard'])} }}\n")


def generate(repo, libnames):
    """-> (text of Gen/C18.lean, [Gap])"""
    gaps = []
    L = [HEADER]
    tree = _parse(repo, UNIT_PY)
    unit = _find_class(tree.body, "Unit")
    if unit is None:
        raise Gap("Unit", "(class missing)", f"no class Unit in {UNIT_PY}")

    # ---- class side ----------------------------------------------------------------------------------
    try:
        body, lines = unit_body(unit)
        L.append(f"/-- class body of `Unit`: the two class attributes — {_refs(UNIT_PY, lines)} -/")
        L.append("def unit_body : List CInstr := [" + ", ".join(_cinstr(i) for i in body) + "]\n")
    except Gap as g:
        gaps.append(g)
        L.append(f"/-- class body of `Unit` — UNTRANSLATED: {_doc(str(g))} -/")
        L.append("def unit_body : List CInstr := [.untranslated]\n")
    try:
        defined, body, lines = init_subclass(unit)
        if not defined:
            gaps.append(Gap("Unit.__init_subclass__", "(method missing)",
                            "subclasses get no lists of their own: they share the list of the base class"))
            L.append("/-- `Unit.__init_subclass__` — NOT DEFINED in the class body -/")
        else:
            L.append(f"/-- `Unit.__init_subclass__` — {_refs(UNIT_PY, lines)} -/")
        L.append("def init_subclass : ClassHook :=\n  { defined := " + _b(defined) + ", body := [" +
                 ", ".join(_cinstr(i) for i in body) + "] }\n")
    except Gap as g:
        gaps.append(g)
        L.append(f"/-- `Unit.__init_subclass__` — UNTRANSLATED: {_doc(str(g))} -/")
        L.append("def init_subclass : ClassHook :=\n  { defined := true, body := [.untranslated] }\n")
    for pyname, lean, kind in (("_yield_pre_processors", "yield_pre", "pre"),
                               ("_yield_post_processors", "yield_post", "post")):
        try:
            w, lines = walk_method(unit, pyname)
            if w["kind"] != kind:
                gaps.append(Gap("Unit." + pyname, f"getattr(…, \"{w['kind']}_processors\", …)",
                                "the walk reads the list of the OTHER kind"))
            L.append(f"/-- `Unit.{pyname}` — {_refs(UNIT_PY, lines)} -/")
            L.append(_walk_def(lean, w))
        except Gap as g:
            gaps.append(g)
            L.append(f"/-- `Unit.{pyname}` — UNTRANSLATED: {_doc(str(g))} -/")
            L.append(_walk_def(lean, None))

    # ---- run side ------------------------------------------------------------------------------------
    profile_names = _profile_names(tree)

    def sinstr(i, loop_names):
        k = i[0]
        if k == "loop":
            return ".loop " + loop_names[i[1]]
        if k == "iterLoop":
            return ".iterLoop solution_loop"
        if k == "newOut":
            return f".newOut .{i[1]} {_b(i[2])}"
        if k == "newOrRefreshOut":
            return f".newOrRefreshOut .{i[1]} out_refresh"
        if k in ("bind", "publicCopy"):
            return f".{k} .{i[1]} .{i[2]}"
        return f".{k} .{i[1]}"

    def method(pyname, lean, loop_lean, want_kind):
        fn = _find_func(unit, pyname)
        try:
            if fn is None:
                raise Gap("Unit." + pyname, "(method missing)", "not defined in Unit")
            tr = MethodTr("Unit." + pyname, fn, profile_names)
            prog = tr.run()
            if len(tr.loops) != 1:
                raise Gap("Unit." + pyname, f"{len(tr.loops)} factory loops", "exactly one factory loop expected")
            kind, body = tr.loops[0]
            if kind != want_kind:
                gaps.append(Gap("Unit." + pyname, f"for … in self._yield_{kind}_processors()",
                                "the loop iterates the factories of the OTHER kind"))
            L.append(f"/-- the factory loop of `Unit.{pyname}` — {_refs(UNIT_PY, tr.loop_lines)} -/")
            L.append(f"def {loop_lean} : Loop :=\n  {{ walk := .{kind},\n    body := [" +
                     ", ".join(_pinstr(i) for i in body) + "] }\n")
            if pyname == "solve":
                if tr.solution_loop is None:
                    raise Gap("Unit.solve", "(no solution loop)", "`for i in range(…)` expected")
                L.append(f"/-- the solution loop of `Unit.solve` — {UNIT_PY}:{tr.solution_line} -/")
                L.append("def solution_loop : List LInstr :=\n  [" + ", ".join("." + x for x in tr.solution_loop) +
                         "]\n")
            elif tr.solution_loop is not None:
                raise Gap("Unit." + pyname, "for … in range(…)", "a solution loop outside `solve`")
            if len(tr.refreshes) > (1 if pyname == "init_solve" else 0):
                raise Gap("Unit." + pyname, "if not self.out_profile: … else: …", "a re-use branch where none is expected")
            for r in tr.refreshes:
                lit = lambda l: f".{l[0]} {_b(l[1])}"
                L.append(f"/-- the re-use branch of `Unit.init_solve` (the out profile exists already) — {UNIT_PY}:{r['line']} -/")
                L.append(f"def out_refresh : Refresh :=\n  {{ src := .{r['src']},\n    delete := [" +
                         ", ".join(lit(l) for l in r["delete"]) + "],\n    set := [" +
                         ", ".join(lit(l) for l in r["set"]) + "] }\n")
            if pyname == "init_solve" and not tr.refreshes:
                L.append("/-- `Unit.init_solve` has NO re-use branch -/")
                L.append("def out_refresh : Refresh :=\n  { src := .arg, delete := [], set := [] }\n")
            L.append(f"/-- `Unit.{pyname}` — {_refs(UNIT_PY, [fn.lineno] + tr.lines)} -/")
            L.append(f"def {lean} : List SInstr :=\n  [" + ",\n   ".join(sinstr(i, [loop_lean]) for i in prog) + "]\n")
        except Gap as g:
            gaps.append(g)
            L.append(f"/-- `Unit.{pyname}` — UNTRANSLATED: {_doc(str(g))} -/")
            L.append(f"def {loop_lean} : Loop :=\n  {{ walk := .{want_kind}, body := [.untranslated] }}\n")
            if pyname == "solve":
                L.append("def solution_loop : List LInstr := [.untranslated]\n")
            else:
                L.append("def out_refresh : Refresh :=\n  { src := .arg, delete := [], set := [] }\n")
            L.append(f"def {lean} : List SInstr := [.untranslated]\n")

    method("init_solve", "init_solve", "pre_loop", "pre")
    method("solve", "solve", "post_loop", "post")
    try:
        sp, lines = solve_subunits(unit)
        L.append(f"/-- `Unit._solve_subunits` — {_refs(UNIT_PY, lines)} -/")
        body = []
        for i in sp["body"]:
            body.append(f".solveMember {_b(i[1])} .{i[2]}" if i[0] == "solveMember" else f".bind .{i[1]}")
        L.append("def solve_subunits : Subs :=\n  { defined := true, guarded := " + _b(sp["guarded"]) +
                 f", start := .{sp['start']}, body := [" + ", ".join(body) + "], wrapped := " + _b(sp["wrapped"]) +
                 " }\n")
    except Gap as g:
        gaps.append(g)
        L.append(f"/-- `Unit._solve_subunits` — UNTRANSLATED: {_doc(str(g))} -/")
        L.append("def solve_subunits : Subs :=\n  { defined := false, guarded := false, start := .last, "
                 "body := [.untranslated], wrapped := false }\n")

    # ---- pinned: Unit.__init__, the library ----------------------------------------------------------
    state, line = unit_init_state(unit)
    L.append(f"/-- `Unit.__init__` — {UNIT_PY}:{line}: what `self.in_profile` / `self.out_profile` are bound to -/")
    L.append("def unitInitState : List (String × String) :=\n  [" +
             ", ".join(f"({_s(a)}, {_s(b)})" for a, b in state) + "]\n")
    inv = inventory(repo, libnames)
    L.append("/-- unit classes of pyroll/core other than `Unit` (static: every class whose bases lead to `Unit`) that define "
             "one of\n    " + ", ".join(WATCH) + " themselves: (class, name) -/")
    L.append("def overrides : List (String × String) :=\n  [" +
             ",\n   ".join(f"({_s(c)}, {_s(n)})" for c, n in inv["overrides"]) + "]\n")
    L.append("-- unit classes found: " + ", ".join(inv["unit_classes"]) + "\n")
    L.append("/-- the `init_solve` overrides: parameters, then the statements (docstrings dropped, locals renamed v0, v1, … "
             "in binding order) — " + ", ".join(f"{rel}:{ln}" for (_, _, rel, ln) in inv["over_init"]) + " -/")
    L.append("def initSolveOverrides : List (String × List String) :=\n  [" +
             ",\n   ".join(f"({_s(c)},\n    {_slist(stmts, '     ')})" for (c, stmts, _, _) in inv["over_init"]) + "]\n")
    L.append("/-- every statement of pyroll/core OUTSIDE the methods translated above that touches `pre_processors`, "
             "`post_processors`,\n    `_yield_pre_processors` or `_yield_post_processors` (attribute or string): (where, statement) — " +
             ", ".join(f"{w.split(' ')[0]}:{ln}" for (w, _, ln) in inv["mentions"]) + " -/")
    L.append("def mentions : List (String × String) :=\n  [" +
             ",\n   ".join(f"({_s(w)}, {_s(t)})" for (w, t, _) in inv["mentions"]) + "]\n")
    L.append("/-- the registrations the library makes itself (module level): (class, kind, list method, argument) — " +
             ", ".join(f"{rel}:{ln}" for (_, _, _, _, rel, ln) in inv["regs"]) + " -/")
    L.append("def libRegistrations : List (String × Kind × String × String) :=\n  [" +
             ",\n   ".join(f"({_s(c)}, .{k}, {_s(m)}, {_s(a)})" for (c, k, m, a, _, _) in inv["regs"]) + "]\n")
    L.append("/-- the unit classes of the harness preamble (driver/props/c18.py: LIBNAMES) in that order: name, the classes of "
             "this table\n    behind it in its C3 MRO (computed from the `class` statements), whether it defines "
             "`__init_subclass__` — " + ", ".join(f"{rel}:{ln}" for (_, _, _, rel, ln) in inv["table"]) + " -/")
    L.append("def libClasses : List (String × List Nat × Bool) :=\n  [" +
             ",\n   ".join(f"({_s(n)}, [{', '.join(map(str, tail))}], {_b(h)})" for (n, tail, h, _, _) in inv["table"]) +
             "]\n")
    L.append("end Gen.C18")
    return "\n".join(L) + "\n", gaps, inv


def emit(ctx, repo, lean_dir, libnames):
    """regenerate lean/PyrollModel/Gen/C18.lean; every gap becomes a `ctx.tie_breaks` entry"""
    text, gaps, inv = generate(repo, libnames)
    write_if_changed(os.path.join(lean_dir, "PyrollModel", "Gen", "C18.lean"), text)
    for g in gaps:
        ctx.tie_breaks.append(f"c18_procs: {g}")
    return text, gaps, inv
