"""(T) for C13: read, with `ast`, the code the unit-tree property is about and describe it as PROGRAMS over a small
instruction set in lean/PyrollModel/Gen/C13.lean (namespace Gen.C13, import-free):

* `Unit._SubUnitsList` (pyroll/core/unit/unit.py): every overridden mutator (`__init__`, `append`, `extend`, `__iadd__`,
  `insert`, `pop`, `clear`, `remove`, `copy`, `__setitem__`, `__delitem__`) as a `Meth` = default of the index parameter +
  list of guarded instructions (`materialise`, `getItem`, `forSetParent`, `setParent`, `super<Primitive>`, `setOwner`,
  `newList`, `ret`), in source order; a mutator of the list API that is NOT overridden is emitted as the bare list
  primitive (`defined := false`) and listed in `inheritedMutators`;
* `PassSequence.prepend / append / drop` with the list method they call inlined, `PassSequence.__init__`, `flatten`,
  `units`, `roll_passes`, `transports` (filter class, fresh list, no caching), `__getitem__` (label = first match /
  KeyError, int|slice delegated, TypeError), `__len__`, `__iter__`;
* `Unit.prev / next` (guards, index arithmetic), `prev_of / next_of` (start, test, advance of the `while True` loop);
* pinned only (canonical statement lists, locals renamed in binding order): `Unit.parent` getter / setter,
  `Unit.subunits`, `_SubUnitsList.__deepcopy__`, `HookHost.__deepcopy__`.

Everything is recognised by AST node type (never by source text): comments, docstrings, blank lines and the names of
local variables / parameters do not matter.  A statement outside the accepted subset gives a `Gap` naming method and
statement: the method is emitted as `untranslated` (the refinement theorem of lean/PyrollProps/C13.lean then does not
build) and the caller records a `ctx.tie_breaks` entry.
"""
import ast
import os

from .pyexpr import write_if_changed

UNIT_PY = "pyroll/core/unit/unit.py"
SEQ_PY = "pyroll/core/sequence/sequence.py"
HOOKS_PY = "pyroll/core/hooks.py"

# the methods of `list` that change the list (CPython 3.x); everything else in dir(list) only reads
LIST_MUTATORS = ["__delitem__", "__iadd__", "__imul__", "__init__", "__setitem__", "append", "clear", "extend", "insert",
                 "pop", "remove", "reverse", "sort"]
LIST_READERS = ["__add__", "__contains__", "__eq__", "__ge__", "__getitem__", "__gt__", "__iter__", "__le__", "__len__",
                "__lt__", "__mul__", "__ne__", "__repr__", "__reversed__", "__rmul__", "__sizeof__", "copy", "count",
                "index"]
# list-like API a `PassSequence` could grow (it is a `collections.abc.Sequence`, not a MutableSequence)
SEQ_WATCH = ["__contains__", "__delitem__", "__iadd__", "__reversed__", "__setitem__", "clear", "count", "extend",
             "index", "insert", "pop", "remove", "reverse", "sort"]


class Gap(Exception):
    def __init__(self, method, stmt, why):
        self.method, self.stmt, self.why = method, stmt, why
        super().__init__(f"{method}: statement `{stmt}` is outside the translated subset ({why})")


def _src(n):
    try:
        return ast.unparse(n).split("\n")[0][:120]
    except Exception:      # pragma: no cover
        return type(n).__name__


def _parse(repo, rel):
    path = os.path.join(repo, rel)
    with open(path) as f:
        return ast.parse(f.read(), filename=path)


def _find_class(body, name):
    for ch in body:
        if isinstance(ch, ast.ClassDef) and ch.name == name:
            return ch
    return None


def _decorators(fn):
    return [ast.unparse(d) for d in fn.decorator_list]


def _find_func(cls, name, decorator=None):
    """the LAST plain definition of that name in the class body (typing overloads are skipped)"""
    res = None
    for ch in cls.body:
        if isinstance(ch, ast.FunctionDef) and ch.name == name:
            decs = _decorators(ch)
            if "overload" in decs or "typing.overload" in decs:
                continue
            if decorator is None and any(d.endswith(".setter") for d in decs):
                continue
            if decorator is not None and decorator not in decs:
                continue
            res = ch
    return res


def _body(fn):
    """statements of a function without docstring, bare string expressions and `pass`"""
    out = []
    for st in fn.body:
        if isinstance(st, ast.Expr) and isinstance(st.value, ast.Constant) and isinstance(st.value.value, str):
            continue
        if isinstance(st, ast.Pass):
            continue
        out.append(st)
    return out


def _strip(stmts):
    return [st for st in stmts
            if not (isinstance(st, ast.Expr) and isinstance(st.value, ast.Constant) and isinstance(st.value.value, str))
            and not isinstance(st, ast.Pass)]


def _int_const(n):
    if isinstance(n, ast.Constant) and type(n.value) is int:
        return n.value
    if isinstance(n, ast.UnaryOp) and isinstance(n.op, ast.USub) and isinstance(n.operand, ast.Constant) \
            and type(n.operand.value) is int:
        return -n.operand.value
    return None


def _is_name(n, name):
    return isinstance(n, ast.Name) and n.id == name


def _is_super_call(n):
    """`super().<m>(args)` -> (m, args) or None"""
    if isinstance(n, ast.Call) and isinstance(n.func, ast.Attribute) and isinstance(n.func.value, ast.Call) \
            and _is_name(n.func.value.func, "super") and not n.func.value.args and not n.func.value.keywords \
            and not n.keywords:
        return n.func.attr, n.args
    return None


def _plain_params(fn, method):
    a = fn.args
    if a.vararg or a.kwarg or a.kwonlyargs or a.posonlyargs:
        raise Gap(method, "def " + fn.name + "(" + ast.unparse(a) + ")", "signature with *args / ** / keyword-only")
    return [x.arg for x in a.args], a.defaults


# -------------------------------------------------------------------------------------------------
# list methods -> Meth
# -------------------------------------------------------------------------------------------------
# python name -> (lean name, parameter roles after self, body when inherited from `list`, inherited default)
LIST_METHODS = {
    "__init__": ("init", ["ownerParam", "arg"], [("always", ("untranslated",))], None),
    "append": ("append", ["arg"], [("always", ("superAppend", "arg"))], None),
    "extend": ("extend", ["arg"], [("always", ("superExtend", "arg"))], None),
    "__iadd__": ("iadd", ["arg"], [("always", ("superExtend", "arg")), ("always", ("ret", "self"))], None),
    "insert": ("insert", ["key", "arg"], [("always", ("superInsert", ("ix", "key"), "arg"))], None),
    "pop": ("pop", ["key"], [("always", ("superPop", "cur", ("ix", "key"))), ("always", ("ret", "cur"))], -1),
    "clear": ("clear", [], [("always", ("superClear",))], None),
    "remove": ("remove", ["arg"], [("always", ("superRemove", "arg"))], None),
    "copy": ("copy", [], [], None),
    "__setitem__": ("setitem", ["key", "arg"], [("always", ("superSetItem", "res", ("ix", "key"), "arg"))], None),
    "__delitem__": ("delitem", ["key"], [("always", ("superDelItem", "res", ("ix", "key")))], None),
}
LEAN_ORDER = ["__init__", "append", "extend", "__iadd__", "insert", "pop", "clear", "remove", "copy", "__setitem__",
              "__delitem__"]


class Meth:
    def __init__(self, pyname, defined, key_default, body, lines, gap=None):
        self.pyname, self.defined, self.key_default, self.body, self.lines, self.gap = \
            pyname, defined, key_default, body, lines, gap


def _subst_ix(body, ix):
    """callee body with its index parameter replaced by the caller's index expression"""
    out = []
    for g, ins in body:
        out.append((g, tuple(ix if (isinstance(x, tuple) and x == ("ix", "key")) else x for x in ins)))
    return out


class ListClass:
    """translates the methods of `Unit._SubUnitsList`"""

    def __init__(self, cls, rel):
        self.cls, self.rel = cls, rel
        self.done = {}
        self.busy = set()

    def meth(self, pyname):
        if pyname in self.done:
            return self.done[pyname]
        lean, roles, inherited, inh_default = LIST_METHODS[pyname]
        fn = _find_func(self.cls, pyname)
        if fn is None:
            m = Meth(pyname, False, inh_default, list(inherited), [])
        elif pyname in self.busy:
            raise Gap(pyname, "self." + pyname + "(...)", "recursive call")
        else:
            self.busy.add(pyname)
            try:
                tr = MethTr(self, fn, pyname, roles)
                body = tr.run()
                m = Meth(pyname, True, tr.key_default, body, tr.lines)
            except Gap as g:
                m = Meth(pyname, True, None, [("always", ("untranslated",))], [fn.lineno], gap=g)
            finally:
                self.busy.discard(pyname)
        self.done[pyname] = m
        return m


class MethTr:
    def __init__(self, owner, fn, pyname, roles, label=None):
        self.owner, self.fn, self.pyname, self.roles = owner, fn, label or pyname, roles
        params, defaults = _plain_params(fn, self.pyname)
        if len(params) != len(roles) + 1:
            raise Gap(self.pyname, "def " + fn.name + "(" + ast.unparse(fn.args) + ")",
                      f"expected {len(roles) + 1} parameters")
        self.selfname = params[0]
        self.param = {}                  # role -> parameter name
        for r, p in zip(roles, params[1:]):
            self.param[r] = p
        self.names = {}                  # local / parameter name -> Ref
        if "arg" in self.param:
            self.names[self.param["arg"]] = "arg"
        self.slot_owner = {}             # Ref slot -> local name holding it
        self.key_default = None
        if defaults:
            dpar = params[len(params) - len(defaults):]
            for p, d in zip(dpar, defaults):
                if "key" in self.param and p == self.param["key"]:
                    c = _int_const(d)
                    if c is None:
                        raise Gap(self.pyname, "def " + fn.name + "(" + ast.unparse(fn.args) + ")",
                                  "default of the index parameter is not an int literal")
                    self.key_default = c
                else:
                    raise Gap(self.pyname, "def " + fn.name + "(" + ast.unparse(fn.args) + ")",
                              f"default value for parameter {p}")
        self.out = []
        self.lines = []

    # ---- operands ---------------------------------------------------------------------------
    def gap(self, node, why):
        return Gap(self.pyname, _src(node), why)

    def ref(self, n, node):
        if isinstance(n, ast.Name):
            if n.id == self.selfname:
                return "self"
            if n.id in self.names:
                return self.names[n.id]
        raise self.gap(node, f"operand `{_src(n)}` is not self, the unit/iterable parameter or a bound local")

    def bind(self, name, slot, node):
        """local `name` now holds slot `slot`"""
        if name == self.selfname or name in self.param.values() and self.param.get("arg") != name:
            raise self.gap(node, f"assignment to parameter `{name}`")
        if self.param.get("arg") == name:
            self.names[name] = "arg"
            return "arg"
        other = self.slot_owner.get(slot)
        if other is not None and other != name:
            raise self.gap(node, f"more than one local of the kind `{slot}`")
        self.slot_owner[slot] = name
        self.names[name] = slot
        return slot

    def par(self, n, node):
        if isinstance(n, ast.Constant) and n.value is None:
            return ("par", "none")
        if isinstance(n, ast.Call) and not n.args and not n.keywords and isinstance(n.func, ast.Attribute) \
                and n.func.attr == "_owner" and _is_name(n.func.value, self.selfname):
            return ("par", "owner")
        if "ownerParam" in self.param and _is_name(n, self.param["ownerParam"]):
            return ("par", "ownerParam")
        raise self.gap(node, f"parent value `{_src(n)}` is neither None, self._owner() nor the owner parameter")

    def ix(self, n, node):
        if "key" in self.param and _is_name(n, self.param["key"]):
            return ("ix", "key")
        c = _int_const(n)
        if c is not None:
            return ("ix", c)
        raise self.gap(node, f"index `{_src(n)}` is neither the index parameter nor an int literal")

    def emit(self, guard, ins, node):
        self.out.append((guard, ins))
        self.lines.append(node.lineno)

    # ---- statements -------------------------------------------------------------------------
    def run(self):
        for st in _body(self.fn):
            self.stmt(st, "always")
        return self.out

    def materialised(self, v):
        """`list(x)` / `[*x]` -> x"""
        if isinstance(v, ast.Call) and _is_name(v.func, "list") and len(v.args) == 1 and not v.keywords:
            return v.args[0]
        if isinstance(v, ast.List) and len(v.elts) == 1 and isinstance(v.elts[0], ast.Starred):
            return v.elts[0].value
        return None

    def super_call(self, m, args, dst, guard, node):
        """`super().<m>(args)`; dst = name the result is bound to (or None)"""
        def n_args(k):
            if len(args) != k:
                raise self.gap(node, f"list.{m} called with {len(args)} arguments")
        if m == "__init__":
            n_args(1)
            ins = ("superInit", self.ref(args[0], node))
        elif m == "append":
            n_args(1)
            ins = ("superAppend", self.ref(args[0], node))
        elif m == "extend":
            n_args(1)
            ins = ("superExtend", self.ref(args[0], node))
        elif m == "insert":
            n_args(2)
            ins = ("superInsert", self.ix(args[0], node), self.ref(args[1], node))
        elif m == "pop":
            if len(args) == 0:
                ix = ("ix", -1)
            else:
                n_args(1)
                ix = self.ix(args[0], node)
            slot = self.bind(dst, "cur", node) if dst else "cur"
            self.emit(guard, ("superPop", slot, ix), node)
            return
        elif m == "remove":
            n_args(1)
            ins = ("superRemove", self.ref(args[0], node))
        elif m == "clear":
            n_args(0)
            ins = ("superClear",)
        elif m == "__setitem__":
            n_args(2)
            a = self.ref(args[1], node)
            slot = self.bind(dst, "res", node) if dst else "res"
            ins = ("superSetItem", slot, self.ix(args[0], node), a)
        elif m == "__delitem__":
            n_args(1)
            slot = self.bind(dst, "res", node) if dst else "res"
            ins = ("superDelItem", slot, self.ix(args[0], node))
        else:
            raise self.gap(node, f"list.{m} is not a modelled primitive")
        if dst and m not in ("__setitem__", "__delitem__"):
            raise self.gap(node, f"result of list.{m} bound to a name")
        self.emit(guard, ins, node)

    def inline(self, callee, ix, guard, node, keep_ret=False):
        m = self.owner.meth(callee)
        if m.gap is not None:
            raise self.gap(node, f"calls {callee}, which is outside the subset")
        body = m.body if ix is None else _subst_ix(m.body, ix)
        # the value the callee returns is discarded by an expression statement: its final `ret` must not end the caller
        if any(ins[0] == "ret" for _, ins in body[:-1]) or (body and body[-1][1][0] == "ret" and body[-1][0] != "always"):
            raise self.gap(node, f"{callee} returns before its last statement")
        if body and body[-1][1][0] == "ret" and not keep_ret:
            body = body[:-1]
        for (g, ins) in body:
            if g != "always" and guard != "always":
                raise self.gap(node, "conditional call of a method that branches itself")
            self.out.append((g if guard == "always" else guard, ins))
            self.lines.append(node.lineno)

    def self_call(self, call, guard, node):
        """`self.<m>(param)` with the own parameter handed through unchanged"""
        m = call.func.attr
        if m not in LIST_METHODS or call.keywords:
            raise self.gap(node, f"call of self.{m}")
        roles = LIST_METHODS[m][1]
        if roles != ["arg"] or len(call.args) != 1 or self.ref(call.args[0], node) != "arg":
            raise self.gap(node, f"self.{m} is only inlined when the own unit/iterable parameter is handed through")
        self.inline(m, None, guard, node)

    def guard_of(self, test, node):
        neg = False
        while isinstance(test, ast.UnaryOp) and isinstance(test.op, ast.Not):
            neg, test = not neg, test.operand
        if isinstance(test, ast.Call) and _is_name(test.func, "isinstance") and len(test.args) == 2 \
                and not test.keywords and isinstance(test.args[1], ast.Name):
            x, t = test.args
            if "key" in self.param and _is_name(x, self.param["key"]) and t.id == "slice":
                pos, negv = "keyIsSlice", "keyNotSlice"
            elif t.id == "list" and isinstance(x, ast.Name) and self.names.get(x.id) in ("cur", "loc"):
                r = self.names[x.id]
                pos, negv = ("isList", r), ("notList", r)
            else:
                raise self.gap(node, f"test `{_src(test)}`: only isinstance(<index>, slice) and "
                                     f"isinstance(<local bound from self[...]>, list) are modelled")
            return (negv, pos, x.id) if neg else (pos, negv, x.id)
        raise self.gap(node, f"test `{_src(test)}`")

    def stmt(self, st, guard):
        if isinstance(st, ast.If):
            if guard != "always":
                raise self.gap(st, "nested if")
            g_then, g_else, tested = self.guard_of(st.test, st)
            for branch, g in ((st.body, g_then), (st.orelse, g_else)):
                for s in _strip(branch):
                    for n in ast.walk(s):
                        if isinstance(n, ast.Name) and isinstance(n.ctx, ast.Store) and n.id == tested:
                            raise self.gap(s, "a branch rebinds the name its condition tests")
                    self.stmt(s, g)
            return
        if isinstance(st, ast.For):
            if st.orelse or not isinstance(st.target, ast.Name):
                raise self.gap(st, "for/else or tuple target")
            body = _strip(st.body)
            u = st.target.id
            if len(body) == 1 and isinstance(body[0], ast.Assign) and len(body[0].targets) == 1:
                t = body[0].targets[0]
                if isinstance(t, ast.Attribute) and t.attr == "parent" and _is_name(t.value, u):
                    r = self.ref(st.iter, st)
                    self.emit(guard, ("forSetParent", r, self.par(body[0].value, st)), st)
                    return
            raise self.gap(st, "loop body is not `<loop variable>.parent = …`")
        if isinstance(st, ast.Return):
            v = st.value
            if v is None:
                raise self.gap(st, "bare return")
            sc = _is_super_call(v)
            if sc:
                m, args = sc
                if m == "pop":
                    self.super_call(m, args, None, guard, st)
                    self.emit(guard, ("ret", "cur"), st)
                elif m in ("__setitem__", "__delitem__"):
                    self.super_call(m, args, None, guard, st)
                    self.emit(guard, ("ret", "res"), st)
                else:
                    raise self.gap(st, f"return of list.{m}(…)")
                return
            if isinstance(v, ast.Call) and not v.keywords and len(v.args) == 2 and self.is_own_type(v.func):
                # `type(self)(owner, units)`: a new list object; the body of __init__ runs on it
                p = self.par(v.args[0], st)
                a = self.ref(v.args[1], st)
                self.emit(guard, ("newList", p, a), st)
                self.inline("__init__", None, guard, st)
                self.emit(guard, ("ret", "self"), st)
                return
            if isinstance(v, ast.Name):
                self.emit(guard, ("ret", self.ref(v, st)), st)
                return
            raise self.gap(st, "returned expression")
        if isinstance(st, ast.Expr):
            v = st.value
            sc = _is_super_call(v)
            if sc:
                self.super_call(sc[0], sc[1], None, guard, st)
                return
            if isinstance(v, ast.Call) and isinstance(v.func, ast.Attribute) and _is_name(v.func.value, self.selfname):
                self.self_call(v, guard, st)
                return
            raise self.gap(st, "expression statement")
        if isinstance(st, ast.Assign) and len(st.targets) == 1:
            t, v = st.targets[0], st.value
            if isinstance(t, ast.Attribute) and t.attr == "parent" and isinstance(t.value, ast.Name):
                self.emit(guard, ("setParent", self.ref(t.value, st), self.par(v, st)), st)
                return
            if isinstance(t, ast.Attribute) and t.attr == "_owner" and _is_name(t.value, self.selfname):
                if isinstance(v, ast.Call) and ast.unparse(v.func) in ("weakref.ref", "ref") and len(v.args) == 1 \
                        and not v.keywords:
                    self.emit(guard, ("setOwner", self.par(v.args[0], st)), st)
                    return
                raise self.gap(st, "self._owner is not a weakref.ref(…)")
            if isinstance(t, ast.Name):
                srcv = self.materialised(v)
                if srcv is not None:
                    s = self.ref(srcv, st)
                    d = self.bind(t.id, "loc", st)
                    self.emit(guard, ("materialise", d, s), st)
                    return
                if isinstance(v, ast.Subscript) and _is_name(v.value, self.selfname):
                    ix = self.ix(v.slice, st)
                    d = self.bind(t.id, "cur", st)
                    self.emit(guard, ("getItem", d, ix), st)
                    return
                sc = _is_super_call(v)
                if sc:
                    self.super_call(sc[0], sc[1], t.id, guard, st)
                    return
            raise self.gap(st, "assignment")
        raise self.gap(st, type(st).__name__ + " statement")

    def is_own_type(self, f):
        """`type(self)` / `self.__class__`"""
        if isinstance(f, ast.Call) and _is_name(f.func, "type") and len(f.args) == 1 and not f.keywords \
                and _is_name(f.args[0], self.selfname):
            return True
        return isinstance(f, ast.Attribute) and f.attr == "__class__" and _is_name(f.value, self.selfname)


# -------------------------------------------------------------------------------------------------
# PassSequence: prepend / append / drop (list method inlined), __init__, flatten, read access
# -------------------------------------------------------------------------------------------------
SEQ_METHODS = {"prepend": ("seq_prepend", ["arg"]), "append": ("seq_append", ["arg"]), "drop": ("seq_drop", ["key"])}


def _is_sublist(n, selfname):
    """`self._subunits` / `self.subunits`"""
    return isinstance(n, ast.Attribute) and n.attr in ("_subunits", "subunits") and _is_name(n.value, selfname)


class SeqTr(MethTr):
    """a `PassSequence` method that forwards to ONE method of its unit list"""

    def run(self):
        for st in _body(self.fn):
            self.stmt(st, "always")
        return self.out

    def stmt(self, st, guard):
        call = None
        if isinstance(st, ast.Expr) and isinstance(st.value, ast.Call):
            call = st.value
        elif isinstance(st, ast.Return) and isinstance(st.value, ast.Call):
            call = st.value
        if call is not None and isinstance(call.func, ast.Attribute) and _is_sublist(call.func.value, self.selfname) \
                and not call.keywords and call.func.attr in LIST_METHODS:
            m = call.func.attr
            roles = LIST_METHODS[m][1]
            if len(call.args) != len(roles):
                raise self.gap(st, f"{m} called with {len(call.args)} arguments")
            ix = None
            for r, a in zip(roles, call.args):
                if r == "key":
                    ix = self.ix(a, st)
                elif r == "arg":
                    if self.ref(a, st) != "arg":
                        raise self.gap(st, "the unit parameter is not handed through")
                else:
                    raise self.gap(st, f"call of {m}")
            self.inline(m, ix, guard, st, keep_ret=isinstance(st, ast.Return))
            return
        if isinstance(st, ast.Delete) and len(st.targets) == 1 and isinstance(st.targets[0], ast.Subscript) \
                and _is_sublist(st.targets[0].value, self.selfname):
            self.inline("__delitem__", self.ix(st.targets[0].slice, st), guard, st)
            return
        raise self.gap(st, "not a call of one method of self._subunits / `del self._subunits[i]`")


def seq_method(lc, seq_cls, pyname):
    lean, roles = SEQ_METHODS[pyname]
    label = "PassSequence." + pyname
    fn = _find_func(seq_cls, pyname)
    if fn is None:
        return Meth(label, False, None, [("always", ("untranslated",))], [], gap=Gap(label, "def " + pyname, "not defined"))
    try:
        tr = SeqTr(lc, fn, pyname, roles, label=label)
        body = tr.run()
        return Meth(label, True, tr.key_default, body, tr.lines)
    except Gap as g:
        return Meth(label, True, None, [("always", ("untranslated",))], [fn.lineno], gap=g)


def _is_new_sublist(v, selfname):
    """`self._SubUnitsList(self, X)` -> X"""
    if isinstance(v, ast.Call) and not v.keywords and len(v.args) == 2 and isinstance(v.func, ast.Attribute) \
            and v.func.attr == "_SubUnitsList" and _is_name(v.args[0], selfname) \
            and (_is_name(v.func.value, selfname) or _is_name(v.func.value, "Unit")):
        return v.args[1]
    return None


def seq_init(seq_cls):
    """PassSequence.__init__ -> list of SInstr texts + lines"""
    label = "PassSequence.__init__"
    fn = _find_func(seq_cls, "__init__")
    if fn is None:
        raise Gap(label, "def __init__", "not defined")
    a = fn.args
    if a.vararg or a.kwonlyargs or a.posonlyargs or len(a.args) < 2:
        raise Gap(label, "def __init__(" + ast.unparse(a) + ")", "signature")
    selfname, units = a.args[0].arg, a.args[1].arg
    kw = a.kwarg.arg if a.kwarg else None
    out, lines = [], []
    for st in _body(fn):
        if isinstance(st, ast.Expr) and isinstance(st.value, ast.Call):
            c = st.value
            sc = isinstance(c.func, ast.Attribute) and isinstance(c.func.value, ast.Call) \
                and _is_name(c.func.value.func, "super") and c.func.attr == "__init__"
            if sc and not c.args and all(k.arg == "label" for k in c.keywords):
                out.append(".superInit")
                lines.append(st.lineno)
                continue
            if kw and isinstance(c.func, ast.Attribute) and c.func.attr == "update" and len(c.args) == 1 \
                    and _is_name(c.args[0], kw) and ast.unparse(c.func.value) == selfname + ".__dict__":
                out.append(".dictUpdate")
                lines.append(st.lineno)
                continue
        if isinstance(st, ast.Assign) and len(st.targets) == 1:
            t = st.targets[0]
            if isinstance(t, ast.Attribute) and t.attr == "_subunits" and _is_name(t.value, selfname):
                x = _is_new_sublist(st.value, selfname)
                if x is not None and _is_name(x, units):
                    out.append(".bindNew .arg")
                    lines.append(st.lineno)
                    continue
        raise Gap(label, _src(st), "not super().__init__(label=…), self.__dict__.update(kwargs) or "
                                   "self._subunits = self._SubUnitsList(self, units)")
    return out, lines


def flatten(seq_cls):
    """PassSequence.flatten -> dict(snapshot, cls, then, else, rebuild, lines)"""
    label = "PassSequence.flatten"
    fn = _find_func(seq_cls, "flatten")
    if fn is None:
        raise Gap(label, "def flatten", "not defined")
    params, _ = _plain_params(fn, label)
    if len(params) != 1:
        raise Gap(label, "def flatten(" + ast.unparse(fn.args) + ")", "signature")
    selfname = params[0]
    body = _body(fn)
    if len(body) != 3:
        raise Gap(label, _src(body[0]) if body else "def flatten", "expected: accumulator, loop, rebuild")
    s0, s1, s2 = body
    if not (isinstance(s0, ast.Assign) and len(s0.targets) == 1 and isinstance(s0.targets[0], ast.Name)
            and isinstance(s0.value, ast.List) and not s0.value.elts):
        raise Gap(label, _src(s0), "accumulator is not `<name> = []`")
    acc = s0.targets[0].id
    if not (isinstance(s1, ast.For) and isinstance(s1.target, ast.Name) and not s1.orelse):
        raise Gap(label, _src(s1), "loop")
    item = s1.target.id
    it = s1.iter
    if isinstance(it, ast.Call) and _is_name(it.func, "list") and len(it.args) == 1 and not it.keywords \
            and (_is_name(it.args[0], selfname) or _is_sublist(it.args[0], selfname)):
        snapshot = True
    elif _is_name(it, selfname) or _is_sublist(it, selfname):
        snapshot = False
    else:
        raise Gap(label, _src(s1), "loop does not iterate the units of self")
    lb = _strip(s1.body)
    if not (len(lb) == 1 and isinstance(lb[0], ast.If)):
        raise Gap(label, _src(lb[0]) if lb else _src(s1), "loop body is not one if/else")
    iff = lb[0]
    t = iff.test
    if not (isinstance(t, ast.Call) and _is_name(t.func, "isinstance") and len(t.args) == 2 and _is_name(t.args[0], item)
            and isinstance(t.args[1], ast.Name)):
        raise Gap(label, _src(iff), "test is not isinstance(<item>, <class>)")
    cls_name = t.args[1].id

    def branch(stmts):
        res = []
        for st in _strip(stmts):
            if isinstance(st, ast.Expr) and isinstance(st.value, ast.Call) and not st.value.keywords \
                    and isinstance(st.value.func, ast.Attribute):
                c = st.value
                recv, m = c.func.value, c.func.attr
                if _is_name(recv, acc) and m == "extend" and len(c.args) == 1 and isinstance(c.args[0], ast.Attribute) \
                        and _is_name(c.args[0].value, item) and c.args[0].attr in ("units", "subunits", "_subunits"):
                    res.append(".accExtendUnits")
                    continue
                if _is_name(recv, acc) and m == "append" and len(c.args) == 1 and _is_name(c.args[0], item):
                    res.append(".accAppend")
                    continue
                if m == "clear" and not c.args and isinstance(recv, ast.Attribute) and _is_name(recv.value, item) \
                        and recv.attr in ("subunits", "_subunits"):
                    res.append(".itemClear")
                    continue
            if isinstance(st, ast.Assign) and len(st.targets) == 1 and isinstance(st.targets[0], ast.Attribute) \
                    and st.targets[0].attr == "parent" and _is_name(st.targets[0].value, item) \
                    and isinstance(st.value, ast.Constant) and st.value.value is None:
                res.append(".itemSetParent .none")
                continue
            raise Gap(label, _src(st), "branch statement")
        return res
    then_b, else_b = branch(iff.body), branch(iff.orelse)
    rebuild = False
    if isinstance(s2, ast.Assign) and len(s2.targets) == 1 and isinstance(s2.targets[0], ast.Attribute) \
            and s2.targets[0].attr == "_subunits" and _is_name(s2.targets[0].value, selfname):
        x = _is_new_sublist(s2.value, selfname)
        if x is not None and _is_name(x, acc):
            rebuild = True
    if not rebuild:
        raise Gap(label, _src(s2), "the new list is not installed as self._subunits = self._SubUnitsList(self, <acc>)")
    return dict(snapshot=snapshot, cls=cls_name, then=then_b, els=else_b, rebuild=rebuild,
                lines=[s0.lineno, s1.lineno, iff.lineno, s2.lineno])


def _single_return(fn, label):
    body = _body(fn)
    if len(body) != 1 or not isinstance(body[0], ast.Return) or body[0].value is None:
        raise Gap(label, _src(body[0]) if body else "def " + fn.name,
                  "the body is not one return statement (e.g. cached / built up in steps)")
    return body[0]


def query(seq_cls, name):
    """`units` / `roll_passes` / `transports` -> (source, cls or None, fresh, line)"""
    label = "PassSequence." + name
    fn = _find_func(seq_cls, name, decorator="property")
    if fn is None:
        raise Gap(label, "def " + name, "property not defined")
    if _decorators(fn) != ["property"]:
        raise Gap(label, "@" + " @".join(_decorators(fn)), "decorators other than @property (cached?)")
    selfname = fn.args.args[0].arg
    ret = _single_return(fn, label)
    v = ret.value
    inner, fresh = v, False
    if isinstance(v, ast.Call) and _is_name(v.func, "list") and len(v.args) == 1 and not v.keywords:
        inner, fresh = v.args[0], True
    elif isinstance(v, ast.ListComp):
        fresh = True
    elif isinstance(v, ast.List) and len(v.elts) == 1 and isinstance(v.elts[0], ast.Starred):
        inner, fresh = v.elts[0].value, True
    if _is_sublist(inner, selfname):
        return inner.attr, None, fresh, ret.lineno
    if isinstance(inner, (ast.GeneratorExp, ast.ListComp)) and len(inner.generators) == 1:
        g = inner.generators[0]
        if isinstance(g.target, ast.Name) and _is_name(inner.elt, g.target.id) and _is_sublist(g.iter, selfname) \
                and not g.is_async and len(g.ifs) == 1:
            t = g.ifs[0]
            if isinstance(t, ast.Call) and _is_name(t.func, "isinstance") and len(t.args) == 2 and not t.keywords \
                    and _is_name(t.args[0], g.target.id) and isinstance(t.args[1], ast.Name):
                return g.iter.attr, t.args[1].id, fresh, ret.lineno
    raise Gap(label, _src(ret), "not list(<u for u in self._subunits if isinstance(u, C)>) / list(self._subunits)")


def getitem(seq_cls):
    """PassSequence.__getitem__ -> list of branch texts + lines"""
    label = "PassSequence.__getitem__"
    fn = _find_func(seq_cls, "__getitem__")
    if fn is None:
        raise Gap(label, "def __getitem__", "not defined")
    params, _ = _plain_params(fn, label)
    if len(params) != 2:
        raise Gap(label, "def __getitem__(" + ast.unparse(fn.args) + ")", "signature")
    selfname, key = params

    def types_of(t):
        """isinstance(key, T) / isinstance(key, (T, ..)) / a or b -> type names"""
        if isinstance(t, ast.BoolOp) and isinstance(t.op, ast.Or):
            res = []
            for v in t.values:
                r = types_of(v)
                if r is None:
                    return None
                res += r
            return res
        if isinstance(t, ast.Call) and _is_name(t.func, "isinstance") and len(t.args) == 2 and _is_name(t.args[0], key):
            c = t.args[1]
            if isinstance(c, ast.Name):
                return [c.id]
            if isinstance(c, ast.Tuple) and all(isinstance(e, ast.Name) for e in c.elts):
                return [e.id for e in c.elts]
        return None

    out, lines = [], []
    for st in _body(fn):
        if isinstance(st, ast.If) and not st.orelse:
            ts = types_of(st.test)
            body = _strip(st.body)
            if ts == ["str"] and len(body) == 1 and isinstance(body[0], ast.Try):
                tr = body[0]
                tb = _strip(tr.body)
                ok = len(tb) == 1 and isinstance(tb[0], ast.Return) and not tr.orelse and not tr.finalbody \
                    and len(tr.handlers) == 1
                if ok:
                    v = tb[0].value
                    ok = isinstance(v, ast.Call) and _is_name(v.func, "next") and len(v.args) == 1 and not v.keywords \
                        and isinstance(v.args[0], ast.GeneratorExp) and len(v.args[0].generators) == 1
                if ok:
                    ge = v.args[0]
                    g = ge.generators[0]
                    ok = isinstance(g.target, ast.Name) and _is_name(ge.elt, g.target.id) \
                        and _is_sublist(g.iter, selfname) and len(g.ifs) == 1
                if ok:
                    c = g.ifs[0]
                    ok = isinstance(c, ast.Compare) and len(c.ops) == 1 and isinstance(c.ops[0], ast.Eq) \
                        and {ast.unparse(c.left), ast.unparse(c.comparators[0])} == {g.target.id + ".label", key}
                if ok:
                    h = tr.handlers[0]
                    hb = _strip(h.body)
                    ok = isinstance(h.type, ast.Name) and h.type.id == "StopIteration" and len(hb) == 1 \
                        and isinstance(hb[0], ast.Raise) and isinstance(hb[0].exc, ast.Call) \
                        and isinstance(hb[0].exc.func, ast.Name)
                if ok:
                    out.append(f'.label true "{hb[0].exc.func.id}"')
                    lines.append(st.lineno)
                    continue
                raise Gap(label, _src(tr), "label lookup is not `next(u for u in self._subunits if u.label == key)` "
                                           "with StopIteration turned into an exception")
            if ts is not None and ts != ["str"] and len(body) == 1 and isinstance(body[0], ast.Return):
                v = body[0].value
                deleg = (isinstance(v, ast.Call) and isinstance(v.func, ast.Attribute) and v.func.attr == "__getitem__"
                         and _is_sublist(v.func.value, selfname) and len(v.args) == 1 and _is_name(v.args[0], key)
                         and not v.keywords) or \
                        (isinstance(v, ast.Subscript) and _is_sublist(v.value, selfname) and _is_name(v.slice, key))
                if deleg:
                    out.append(".delegate [" + ", ".join(f'"{t}"' for t in ts) + "]")
                    lines.append(st.lineno)
                    continue
            raise Gap(label, _src(st), "branch")
        if isinstance(st, ast.Raise) and isinstance(st.exc, ast.Call) and isinstance(st.exc.func, ast.Name):
            out.append(f'.raise "{st.exc.func.id}"')
            lines.append(st.lineno)
            continue
        raise Gap(label, _src(st), "statement")
    return out, lines


def delegate(seq_cls, name, builtin):
    """`return self._subunits.__len__()` / `return len(self._subunits)` -> ("_subunits", "__len__")"""
    label = "PassSequence." + name
    fn = _find_func(seq_cls, name)
    if fn is None:
        raise Gap(label, "def " + name, "not defined")
    selfname = fn.args.args[0].arg
    ret = _single_return(fn, label)
    v = ret.value
    if isinstance(v, ast.Call) and not v.keywords:
        if isinstance(v.func, ast.Attribute) and v.func.attr == name and _is_sublist(v.func.value, selfname) and not v.args:
            return v.func.value.attr, name, ret.lineno
        if _is_name(v.func, builtin) and len(v.args) == 1 and _is_sublist(v.args[0], selfname):
            return v.args[0].attr, name, ret.lineno
    raise Gap(label, _src(ret), "not delegated to self._subunits")


# -------------------------------------------------------------------------------------------------
# Unit.prev / next / prev_of / next_of
# -------------------------------------------------------------------------------------------------
def _is_parent_list(n, selfname):
    """`self.parent.subunits` / `self.parent._subunits`"""
    return isinstance(n, ast.Attribute) and n.attr in ("subunits", "_subunits") and isinstance(n.value, ast.Attribute) \
        and n.value.attr == "parent" and _is_name(n.value.value, selfname)


def nav_prop(unit_cls, name):
    """`prev` / `next` -> list of NInstr texts + lines"""
    label = "Unit." + name
    fn = _find_func(unit_cls, name, decorator="property")
    if fn is None:
        raise Gap(label, "def " + name, "property not defined")
    selfname = fn.args.args[0].arg
    ivar = [None]

    def iexp(n, st):
        if ivar[0] is not None and _is_name(n, ivar[0]):
            return ".i 0"
        c = _int_const(n)
        if c is not None:
            return f".lit ({c})"
        if isinstance(n, ast.Call) and _is_name(n.func, "len") and len(n.args) == 1 and not n.keywords \
                and _is_parent_list(n.args[0], selfname):
            return ".len 0"
        if isinstance(n, ast.BinOp) and isinstance(n.op, (ast.Add, ast.Sub)):
            c = _int_const(n.right)
            base = iexp(n.left, st)
            if c is not None and not base.startswith(".lit"):
                kind, off = base.split(" ", 1)
                off = int(off.strip("()"))
                off = off + c if isinstance(n.op, ast.Add) else off - c
                return f"{kind} ({off})" if off < 0 else f"{kind} {off}"
        raise Gap(label, _src(st), f"index expression `{_src(n)}`")

    def exc_of(r, st):
        if isinstance(r, ast.Raise) and r.cause is None and isinstance(r.exc, ast.Call) and isinstance(r.exc.func, ast.Name):
            return r.exc.func.id
        if isinstance(r, ast.Raise) and r.cause is None and isinstance(r.exc, ast.Name):
            return r.exc.id
        raise Gap(label, _src(st), "branch is not one raise statement")

    out, lines = [], []
    for st in _body(fn):
        lines.append(st.lineno)
        if isinstance(st, ast.If) and not st.orelse and len(_strip(st.body)) == 1:
            t = st.test
            exc = exc_of(_strip(st.body)[0], st)
            if isinstance(t, ast.Compare) and len(t.ops) == 1 and isinstance(t.ops[0], ast.Is) \
                    and ast.unparse(t.left) == selfname + ".parent" and isinstance(t.comparators[0], ast.Constant) \
                    and t.comparators[0].value is None:
                out.append(f'.raiseIfNoParent "{exc}"')
                continue
            if isinstance(t, ast.Compare) and len(t.ops) == 1 and isinstance(t.ops[0], ast.Eq):
                out.append(f'.raiseIfEq ({iexp(t.left, st)}) ({iexp(t.comparators[0], st)}) "{exc}"')
                continue
        if isinstance(st, ast.Assign) and len(st.targets) == 1 and isinstance(st.targets[0], ast.Name):
            v = st.value
            if isinstance(v, ast.Call) and isinstance(v.func, ast.Attribute) and v.func.attr == "index" \
                    and _is_parent_list(v.func.value, selfname) and len(v.args) == 1 and _is_name(v.args[0], selfname) \
                    and not v.keywords and ivar[0] in (None, st.targets[0].id):
                ivar[0] = st.targets[0].id
                out.append(".bindIndex")
                continue
        if isinstance(st, ast.Return) and isinstance(st.value, ast.Subscript) and _is_parent_list(st.value.value, selfname):
            out.append(f".retAt ({iexp(st.value.slice, st)})")
            continue
        raise Gap(label, _src(st), "statement")
    return out, lines


def nav_of(unit_cls, name):
    """`prev_of` / `next_of` -> (start, test, advance, lines)"""
    label = "Unit." + name
    fn = _find_func(unit_cls, name)
    if fn is None:
        raise Gap(label, "def " + name, "not defined")
    params, _ = _plain_params(fn, label)
    if len(params) != 2:
        raise Gap(label, "def " + name + "(" + ast.unparse(fn.args) + ")", "signature")
    selfname, tpar = params
    body = _body(fn)
    if len(body) != 2:
        raise Gap(label, _src(body[0]) if body else "def " + name, "expected: start assignment, `while True` loop")
    s0, s1 = body
    if not (isinstance(s0, ast.Assign) and len(s0.targets) == 1 and isinstance(s0.targets[0], ast.Name)):
        raise Gap(label, _src(s0), "start assignment")
    cur = s0.targets[0].id
    if _is_name(s0.value, selfname):
        start = "self"
    elif isinstance(s0.value, ast.Attribute) and _is_name(s0.value.value, selfname):
        start = s0.value.attr
    else:
        raise Gap(label, _src(s0), "start is not self.<property>")
    if not (isinstance(s1, ast.While) and isinstance(s1.test, ast.Constant) and s1.test.value is True and not s1.orelse):
        raise Gap(label, _src(s1), "not a `while True` loop")
    lb = _strip(s1.body)
    if len(lb) != 2:
        raise Gap(label, _src(s1), "loop body is not: test-and-return, advance")
    i0, a0 = lb
    ok = isinstance(i0, ast.If) and not i0.orelse and len(_strip(i0.body)) == 1 \
        and isinstance(_strip(i0.body)[0], ast.Return) and _is_name(_strip(i0.body)[0].value, cur)
    if ok:
        t = i0.test
        ok = isinstance(t, ast.Call) and _is_name(t.func, "isinstance") and len(t.args) == 2 and not t.keywords \
            and _is_name(t.args[0], cur) and _is_name(t.args[1], tpar)
    if not ok:
        raise Gap(label, _src(i0), "not `if isinstance(<current>, <type parameter>): return <current>`")
    if not (isinstance(a0, ast.Assign) and len(a0.targets) == 1 and _is_name(a0.targets[0], cur)
            and isinstance(a0.value, ast.Attribute) and _is_name(a0.value.value, cur)):
        raise Gap(label, _src(a0), "advance is not `<current> = <current>.<property>`")
    return start, "isinstance", a0.value.attr, [s0.lineno, s1.lineno, i0.lineno, a0.lineno]


# -------------------------------------------------------------------------------------------------
# pinned methods: canonical statement lines (docstrings dropped, locals renamed in binding order)
# -------------------------------------------------------------------------------------------------
class _Rename(ast.NodeTransformer):
    def __init__(self, mapping):
        self.mapping = mapping

    def visit_Name(self, n):
        if n.id in self.mapping:
            return ast.copy_location(ast.Name(id=self.mapping[n.id], ctx=n.ctx), n)
        return n


class _DropDoc(ast.NodeTransformer):
    def generic_visit(self, node):
        super().generic_visit(node)
        for field in ("body", "orelse", "finalbody"):
            b = getattr(node, field, None)
            if isinstance(b, list) and b and isinstance(b[0], ast.stmt):
                nb = [s for s in b if not (isinstance(s, ast.Expr) and isinstance(s.value, ast.Constant)
                                           and isinstance(s.value.value, str))]
                if not nb and field == "body":
                    nb = [ast.Pass()]
                setattr(node, field, nb)
        return node


def canonical(fn):
    """the body of `fn` as unparsed lines; local variables are renamed v0, v1, … in the order they are first bound"""
    import copy as _copy
    fn = _DropDoc().visit(_copy.deepcopy(fn))
    params = {a.arg for a in fn.args.args + fn.args.kwonlyargs + fn.args.posonlyargs}
    if fn.args.vararg:
        params.add(fn.args.vararg.arg)
    if fn.args.kwarg:
        params.add(fn.args.kwarg.arg)
    order = []

    class _Stores(ast.NodeVisitor):
        def visit_Name(self, n):
            if isinstance(n.ctx, ast.Store) and n.id not in params and n.id not in order:
                order.append(n.id)
    _Stores().visit(fn)
    mapping = {n: f"v{i}" for i, n in enumerate(order)}
    lines = []
    for st in fn.body:
        st = _Rename(mapping).visit(st)
        ast.fix_missing_locations(st)
        lines += ast.unparse(st).split("\n")
    return lines


def pinned(cls, name, label, decorator=None):
    fn = _find_func(cls, name, decorator=decorator)
    if fn is None:
        raise Gap(label, "def " + name, "not defined")
    sig = "(" + ", ".join(a.arg for a in fn.args.args) + ")"
    return [sig] + canonical(fn), fn.lineno


def inventory(list_cls):
    """(bases, overridden list API, inherited mutators, other methods) of `_SubUnitsList`"""
    bases = [ast.unparse(b) for b in list_cls.bases]
    defined = [ch.name for ch in list_cls.body if isinstance(ch, ast.FunctionDef)]
    api = set(dir(list))
    overridden = sorted(n for n in set(defined) if n in api)
    inherited = sorted(n for n in LIST_MUTATORS if n not in defined)
    other = sorted(n for n in set(defined) if n not in api)
    return bases, overridden, inherited, other


# -------------------------------------------------------------------------------------------------
# emission
# -------------------------------------------------------------------------------------------------
HEADER = '''/- GENERATED by driver/translate/c13_listops.py from pyroll/core/unit/unit.py, pyroll/core/sequence/sequence.py and
   pyroll/core/hooks.py.  Do not edit: rewritten by every `./check C13`.
   Import-free.  The instruction set below is fixed text; the programs after it are what the translator read.
   Meaning of the instructions: lean/PyrollModel/TreeProg.lean;  refinement theorems: lean/PyrollProps/C13.lean. -/

namespace Gen.C13

/-! ## instruction set -/

/-- what a statement refers to: the list itself, the unit / iterable parameter, a local bound by `x = list(…)`,
    a local bound by `x = self[i]` / `x = super().pop(i)`, a local bound to the (None) result of a list primitive -/
inductive Ref where
  | self | arg | loc | cur | res
  deriving DecidableEq, Repr

/-- the value stored as parent: `self._owner()`, the `owner` parameter of `__init__`, `None` -/
inductive Par where
  | owner | ownerParam | none
  deriving DecidableEq, Repr

/-- index expression handed to a list primitive: the method's own index parameter, or an int literal -/
inductive Ix where
  | key | const (c : Int)
  deriving DecidableEq, Repr

/-- `if isinstance(i, slice)` / `if isinstance(x, list)` and their `else` branches, flattened into guards -/
inductive Guard where
  | always | keyIsSlice | keyNotSlice | isList (r : Ref) | notList (r : Ref)
  deriving DecidableEq, Repr

inductive Instr where
  /-- `dst = list(src)` / `dst = [*src]`: ONE iteration of `src` -/
  | materialise (dst src : Ref)
  /-- `dst = self[ix]` -/
  | getItem (dst : Ref) (ix : Ix)
  /-- `for u in r: u.parent = p` -/
  | forSetParent (r : Ref) (p : Par)
  /-- `r.parent = p` (`r` a single unit) -/
  | setParent (r : Ref) (p : Par)
  /-- `super().__init__(a)` -/
  | superInit (a : Ref)
  /-- `super().append(a)` -/
  | superAppend (a : Ref)
  /-- `super().extend(a)` -/
  | superExtend (a : Ref)
  /-- `super().insert(ix, a)` -/
  | superInsert (ix : Ix) (a : Ref)
  /-- `dst = super().pop(ix)` -/
  | superPop (dst : Ref) (ix : Ix)
  /-- `super().remove(a)` -/
  | superRemove (a : Ref)
  /-- `super().clear()` -/
  | superClear
  /-- `dst = super().__setitem__(ix, a)` -/
  | superSetItem (dst : Ref) (ix : Ix) (a : Ref)
  /-- `dst = super().__delitem__(ix)` -/
  | superDelItem (dst : Ref) (ix : Ix)
  /-- `self._owner = weakref.ref(p)` -/
  | setOwner (p : Par)
  /-- `type(self)(p, a)`: from here on `self` is a NEW list object; the instructions of `__init__` follow -/
  | newList (p : Par) (a : Ref)
  /-- `return r` -/
  | ret (r : Ref)
  /-- a statement outside the translated subset -/
  | untranslated
  deriving DecidableEq, Repr

/-- one method: overridden in the class? (false: the bare `list` primitive), default of the index parameter, body -/
structure Meth where
  defined : Bool
  keyDefault : Option Int
  body : List (Guard × Instr)
  deriving DecidableEq, Repr

/-- `PassSequence.__init__` -/
inductive SInstr where
  /-- `super().__init__(label=label)` -/
  | superInit
  /-- `self.__dict__.update(kwargs)` -/
  | dictUpdate
  /-- `self._subunits = self._SubUnitsList(self, a)` -/
  | bindNew (a : Ref)
  deriving DecidableEq, Repr

/-- branch statements of the loop of `PassSequence.flatten` -/
inductive FInstr where
  /-- `new.extend(item.units)` -/
  | accExtendUnits
  /-- `item.subunits.clear()` -/
  | itemClear
  /-- `item.parent = p` -/
  | itemSetParent (p : Par)
  /-- `new.append(item)` -/
  | accAppend
  deriving DecidableEq, Repr

/-- `new = []; for item in list(self): if isinstance(item, cls): thenB else: elseB; self._subunits = self._SubUnitsList(self, new)` -/
structure Flatten where
  snapshot : Bool
  cls : String
  thenB : List FInstr
  elseB : List FInstr
  rebuild : Bool
  deriving DecidableEq, Repr

/-- a read-only view: `list(u for u in self.<source> if isinstance(u, cls))`; `fresh`: a new list on every call -/
structure Query where
  source : String
  cls : Option String
  fresh : Bool
  deriving DecidableEq, Repr

/-- branches of `PassSequence.__getitem__` -/
inductive GBranch where
  /-- `isinstance(key, str)`: first (`true`) listed unit carrying the label; otherwise the named exception -/
  | label (first : Bool) (missing : String)
  /-- `isinstance(key, T) or …`: `self._subunits.__getitem__(key)` -/
  | delegate (types : List String)
  | raise (exc : String)
  deriving DecidableEq, Repr

/-- index arithmetic of `prev` / `next`: `i + off`, `len(self.parent.subunits) + off`, a literal -/
inductive IExp where
  | i (off : Int) | len (off : Int) | lit (c : Int)
  deriving DecidableEq, Repr

inductive NInstr where
  /-- `if self.parent is None: raise exc` -/
  | raiseIfNoParent (exc : String)
  /-- `i = self.parent.subunits.index(self)` -/
  | bindIndex
  /-- `if a == b: raise exc` -/
  | raiseIfEq (a b : IExp) (exc : String)
  /-- `return self.parent.subunits[e]` -/
  | retAt (e : IExp)
  deriving DecidableEq, Repr

/-- `cur = self.<start>; while True: if <test>(cur, unit_type): return cur; cur = cur.<advance>` -/
structure NavOf where
  start : String
  test : String
  advance : String
  deriving DecidableEq, Repr

/-! ## what the translator read -/
'''


def _s(x):
    return '"' + x.replace("\\", "\\\\").replace('"', '\\"') + '"'


def _slist(xs, indent="   "):
    if not xs:
        return "[]"
    return "[" + (",\n" + indent).join(_s(x) for x in xs) + "]"


def _int(c):
    return f"({c})" if c < 0 else str(c)


def _operand(x):
    if isinstance(x, tuple):
        kind, v = x
        if kind == "ix":
            return ".key" if v == "key" else f"(.const {_int(v)})"
        if kind == "par":
            return "." + v
    return "." + x


def _guard(g):
    if isinstance(g, tuple):
        return f".{g[0]} .{g[1]}"
    return "." + g


def _instr(ins):
    return "." + " ".join([ins[0]] + [_operand(x) for x in ins[1:]])


def _lines_ref(rel, lines):
    if not lines:
        return rel
    seen = []
    for ln in lines:
        if ln not in seen:
            seen.append(ln)
    return ", ".join(f"{rel}:{ln}" for ln in seen)


def _meth_def(lean, m, rel, what):
    doc = f"/-- `{what}` — " + (_lines_ref(rel, m.lines) if m.defined else f"NOT overridden ({rel}): the inherited `list` method")
    if m.gap is not None:
        doc += f"; UNTRANSLATED: {str(m.gap).replace('-/', '- /')}"
    doc += " -/"
    kd = "none" if m.key_default is None else f"some {_int(m.key_default)}"
    body = ",\n     ".join(f"({_guard(g)}, {_instr(i)})" for g, i in m.body)
    return (f"{doc}\ndef {lean} : Meth :=\n  {{ defined := {str(m.defined).lower()}, keyDefault := {kd},\n"
            f"    body :=\n    [{body}] }}\n")


def generate(repo):
    """-> (lean text, list of Gap)"""
    gaps = []
    unit_tree = _parse(repo, UNIT_PY)
    unit = _find_class(unit_tree.body, "Unit")
    if unit is None:
        raise Gap("Unit", "class Unit", "not found in " + UNIT_PY)
    lst = _find_class(unit.body, "_SubUnitsList")
    if lst is None:
        raise Gap("Unit._SubUnitsList", "class _SubUnitsList", "not found in " + UNIT_PY)
    seq = _find_class(_parse(repo, SEQ_PY).body, "PassSequence")
    if seq is None:
        raise Gap("PassSequence", "class PassSequence", "not found in " + SEQ_PY)
    host = _find_class(_parse(repo, HOOKS_PY).body, "HookHost")
    if host is None:
        raise Gap("HookHost", "class HookHost", "not found in " + HOOKS_PY)

    L = [HEADER]
    # ---- inventory ----------------------------------------------------------------------------
    bases, overridden, inherited, other = inventory(lst)
    for n in overridden:
        if n not in LIST_METHODS:
            gaps.append(Gap("Unit._SubUnitsList." + n, "def " + n, "overrides a method of list that the model takes from list"))
    unknown = sorted(n for n in dir(list) if n not in LIST_MUTATORS and n not in LIST_READERS
                     and not (n.startswith("__") and n in dir(object)) and n not in ("__class_getitem__",))
    if unknown:
        gaps.append(Gap("list", ", ".join(unknown), "methods of the running python's list unknown to the translator"))
    L.append(f"/-- base classes of `Unit._SubUnitsList` ({UNIT_PY}:{lst.lineno}) -/")
    L.append(f"def listBases : List String := {_slist(bases)}\n")
    L.append("/-- methods of the `list` API which `_SubUnitsList` overrides -/")
    L.append(f"def overriddenListApi : List String :=\n  {_slist(overridden)}\n")
    L.append("/-- MUTATING methods of the `list` API which `_SubUnitsList` does NOT override (they change the list without "
             "touching any parent) -/")
    L.append(f"def inheritedMutators : List String :=\n  {_slist(inherited)}\n")
    L.append(f"-- other methods of `_SubUnitsList` (not pinned): {', '.join(other) or 'none'}\n")
    seq_defined = [ch.name for ch in seq.body if isinstance(ch, ast.FunctionDef)]
    L.append(f"/-- list-like methods defined by `PassSequence` itself beyond prepend / append / drop / flatten and the read access "
             f"({SEQ_PY}:{seq.lineno}) -/")
    L.append(f"def seqListApi : List String := {_slist(sorted(set(n for n in seq_defined if n in SEQ_WATCH)))}\n")

    # ---- list methods -------------------------------------------------------------------------
    lc = ListClass(lst, UNIT_PY)
    for py in LEAN_ORDER:
        m = lc.meth(py)
        if m.gap is not None:
            gaps.append(m.gap)
        L.append(_meth_def(LIST_METHODS[py][0], m, UNIT_PY, "_SubUnitsList." + py))
    for py in ("prepend", "append", "drop"):
        m = seq_method(lc, seq, py)
        if m.gap is not None:
            gaps.append(m.gap)
        L.append(_meth_def(SEQ_METHODS[py][0], m, SEQ_PY, "PassSequence." + py + " (list method inlined)"))

    # ---- PassSequence.__init__ / flatten --------------------------------------------------------
    try:
        si, lines = seq_init(seq)
        L.append(f"/-- `PassSequence.__init__` — {_lines_ref(SEQ_PY, lines)} -/")
        L.append("def seq_init : List SInstr := [" + ", ".join(si) + "]\n")
    except Gap as g:
        gaps.append(g)
        L.append(f"/-- `PassSequence.__init__` — UNTRANSLATED: {str(g).replace('-/', '- /')} -/")
        L.append("def seq_init : List SInstr := []\n")
    try:
        fl = flatten(seq)
        L.append(f"/-- `PassSequence.flatten` — {_lines_ref(SEQ_PY, fl['lines'])} -/")
        L.append("def flatten : Flatten :=\n  { snapshot := %s, cls := %s,\n    thenB := [%s],\n    elseB := [%s],\n    rebuild := %s }\n"
                 % (str(fl["snapshot"]).lower(), _s(fl["cls"]), ", ".join(fl["then"]), ", ".join(fl["els"]),
                    str(fl["rebuild"]).lower()))
    except Gap as g:
        gaps.append(g)
        L.append(f"/-- `PassSequence.flatten` — UNTRANSLATED: {str(g).replace('-/', '- /')} -/")
        L.append('def flatten : Flatten := { snapshot := false, cls := "", thenB := [], elseB := [], rebuild := false }\n')

    # ---- read access ------------------------------------------------------------------------------
    for q in ("units", "roll_passes", "transports"):
        try:
            source, cls_name, fresh, line = query(seq, q)
            L.append(f"/-- `PassSequence.{q}` — {SEQ_PY}:{line} -/")
            L.append(f"def {q} : Query := {{ source := {_s(source)}, cls := "
                     f"{'none' if cls_name is None else 'some ' + _s(cls_name)}, fresh := {str(fresh).lower()} }}\n")
        except Gap as g:
            gaps.append(g)
            L.append(f"/-- `PassSequence.{q}` — UNTRANSLATED: {str(g).replace('-/', '- /')} -/")
            L.append(f'def {q} : Query := {{ source := "", cls := none, fresh := false }}\n')
    try:
        gb, lines = getitem(seq)
        L.append(f"/-- `PassSequence.__getitem__` — {_lines_ref(SEQ_PY, lines)} -/")
        L.append("def getitem : List GBranch := [" + ", ".join(gb) + "]\n")
    except Gap as g:
        gaps.append(g)
        L.append(f"/-- `PassSequence.__getitem__` — UNTRANSLATED: {str(g).replace('-/', '- /')} -/")
        L.append("def getitem : List GBranch := []\n")
    for name, builtin, lean in (("__len__", "len", "len"), ("__iter__", "iter", "iter")):
        try:
            a, b, line = delegate(seq, name, builtin)
            L.append(f"/-- `PassSequence.{name}` — {SEQ_PY}:{line} -/")
            L.append(f"def {lean} : String × String := ({_s(a)}, {_s(b)})\n")
        except Gap as g:
            gaps.append(g)
            L.append(f"/-- `PassSequence.{name}` — UNTRANSLATED: {str(g).replace('-/', '- /')} -/")
            L.append(f'def {lean} : String × String := ("", "")\n')

    # ---- navigation ---------------------------------------------------------------------------------
    for name in ("prev", "next"):
        try:
            ni, lines = nav_prop(unit, name)
            L.append(f"/-- `Unit.{name}` — {_lines_ref(UNIT_PY, lines)} -/")
            L.append(f"def {name} : List NInstr :=\n  [" + ",\n   ".join(ni) + "]\n")
        except Gap as g:
            gaps.append(g)
            L.append(f"/-- `Unit.{name}` — UNTRANSLATED: {str(g).replace('-/', '- /')} -/")
            L.append(f"def {name} : List NInstr := []\n")
    for name in ("prev_of", "next_of"):
        try:
            start, test, adv, lines = nav_of(unit, name)
            L.append(f"/-- `Unit.{name}` — {_lines_ref(UNIT_PY, lines)} -/")
            L.append(f"def {name} : NavOf := {{ start := {_s(start)}, test := {_s(test)}, advance := {_s(adv)} }}\n")
        except Gap as g:
            gaps.append(g)
            L.append(f"/-- `Unit.{name}` — UNTRANSLATED: {str(g).replace('-/', '- /')} -/")
            L.append(f'def {name} : NavOf := {{ start := "", test := "", advance := "" }}\n')

    # ---- pinned ---------------------------------------------------------------------------------------
    for lean, cls_, name, dec, rel, label in (
            ("parentGet", unit, "parent", "property", UNIT_PY, "Unit.parent (getter)"),
            ("parentSet", unit, "parent", "parent.setter", UNIT_PY, "Unit.parent (setter)"),
            ("subunitsGet", unit, "subunits", "property", UNIT_PY, "Unit.subunits"),
            ("listDeepcopy", lst, "__deepcopy__", None, UNIT_PY, "_SubUnitsList.__deepcopy__"),
            ("hostDeepcopy", host, "__deepcopy__", None, HOOKS_PY, "HookHost.__deepcopy__")):
        try:
            lines, line = pinned(cls_, name, label, decorator=dec)
            L.append(f"/-- `{label}` — {rel}:{line}; parameters, then the statements (docstrings dropped, locals renamed "
                     f"v0, v1, … in binding order) -/")
            L.append(f"def {lean} : List String :=\n  {_slist(lines)}\n")
        except Gap as g:
            gaps.append(g)
            L.append(f"/-- `{label}` — UNTRANSLATED: {str(g).replace('-/', '- /')} -/")
            L.append(f"def {lean} : List String := []\n")
    L.append("end Gen.C13")
    return "\n".join(L) + "\n", gaps


def emit(ctx, repo, lean_dir):
    """regenerate lean/PyrollModel/Gen/C13.lean; every gap becomes a `ctx.tie_breaks` entry"""
    text, gaps = generate(repo)
    write_if_changed(os.path.join(lean_dir, "PyrollModel", "Gen", "C13.lean"), text)
    for g in gaps:
        ctx.tie_breaks.append(f"c13_listops: {g}")
    return text, gaps
