"""(T) for C11 - dimensional homogeneity: every closed-form expression read out of /repo's anchored files, together
with a DECLARED length dimension, emitted as lean/PyrollModel/Gen/C11*.lean (Gamma, Hooks, Geom, Closed, Sites + the
aggregating C11.lean).

What is extracted (each becomes one `Item` = one Lean `Expr` + one kernel-evaluated `Expr.dim` certificate):

  hook       every `return <formula>` alternative of every hook implementation of the anchored hookimpls files (and of the
             remaining hookimpls files, counted separately); the declared dimension is the one of the HOOK it implements
  sum        `return sum([u.x for u in self.units])`: hook and summand must have the same declared dimension
  chain      the junction chain z0..z12 / y0..y12 / angles of `GenericElongationGroove.__init__` (driver/translate/groove.py)
  contour    the `_r*_contour_line(z)` / `_flank_contour_line(z)` functions
  resolve    the four closed forms of the 'fourth of four' resolution
  residual / map / closed / bracket / start
             the residuals handed to scipy's root finders, the fixed-point map, the closed forms returned, the brackets
             and start values (driver/translate/c04_solvers.py, imported read-only)
  plumb      keyword arguments handed by the solver-backed groove constructors to `GenericElongationGroove.__init__`
  decision   every numeric comparison `a < b` (as the term `a - b`, which must be homogeneous of SOME degree for the decision to
             be scale invariant) and every `np.isclose(a, b)` (as `|a-b| - (atol + rtol*|b|)`) found in the anchored files
  arg        every argument of a geometry call with a declared signature (`buffer(<length>)`, `translate(yoff=<length>)`,
             `local_depth(<length>)`, ...)
  attr       `self._<name> = <formula>` in the constructors of ATTR_FILES (SplineGroove: width, usable_width, depth):
             declared dimension of <name>
             counts (`sum(<truth value> for ...)`, `len(x)`) are variables `#count(...)` / `#len(...)` of dimension 0; slices
             with count bounds and boolean masks select elements of an array (the array's dimension)
  structure  (no Lean term) module-level numeric constants of every scanned file must have a declared dimension;
             module-level state, `global`/`nonlocal`, and decorators other than hook registrations / PLAIN_DECORATORS
             on any function of the scanned files are reported (the translated body would not be what a call executes) -
             unless the decorator's DEFINITION, read from the tree, is a pass-through wrapper (`passthrough_wrapper`:
             checks that can only raise, then `return func(*args, **kwargs)`; no state; every comparison of the wrapper a
             certified `decision` item)

`Γ` (the variable typing) is generated from the declared table `DIMS` below: the dimension of a variable is the dimension
declared for the LAST component of its attribute path (so `roll_pass.in_profile.width`, `cs.width` and the hook `width`
all have the one dimension declared for `width`), unless a longer suffix is listed in `PATH_DIMS`.

Items whose certificate does not come out as declared go to the table `inhomogeneous` (with their source location);
everything else to `formulas` / `decisions`.  Nothing in this file decides what is ACCEPTABLE: that is the pinned list in
driver/props/c11.py and the theorem `C11.inhomogeneous_accepted` of lean/PyrollProps/C11.lean.
"""
import ast
import os
import re

from . import pyexpr
from . import groove as groove_tr
from .pyexpr import Untranslatable
from ..core import LEAN_DIR, REPO

CORE = os.path.join("pyroll", "core")

# (short key used in Lean names, path relative to pyroll/core)
ANCHORED_HOOK_FILES = [
    ("profile", "profile/hookimpls.py"),
    ("roll", "roll/hookimpls.py"),
    ("srp", "roll_pass/hookimpls/symmetric_roll_pass.py"),
    ("trp", "roll_pass/hookimpls/two_roll_pass.py"),
    ("thrp", "roll_pass/hookimpls/three_roll_pass.py"),
    ("rproll", "roll_pass/hookimpls/roll.py"),
    ("rpprofile", "roll_pass/hookimpls/profile.py"),
    ("brp", "roll_pass/hookimpls/base_roll_pass.py"),
    ("du", "roll_pass/hookimpls/deformation_unit.py"),
    ("unit", "unit/hookimpls.py"),
]
EXTRA_HOOK_FILES = [
    ("seq", "sequence/hookimpls.py"),
    ("rot", "rotator/hookimpls.py"),
    ("disk", "disk_elements/hookimpls.py"),
    ("rpdisk", "roll_pass/hookimpls/disk_element.py"),
    ("transport", "transport/hookimpls/transport.py"),
    ("pipe", "transport/hookimpls/cooling_pipe.py"),
]
# files scanned for decisions (comparisons / np.isclose) and geometry-call arguments, besides the hookimpls files
SITE_FILES = [
    ("groove", "grooves/generic_elongation.py"),
    ("solvers", "grooves/generic_elongation_solvers.py"),
    ("profilecls", "profile/profile.py"),
    ("helpers", "roll_pass/hookimpls/helpers.py"),
    ("unitcls", "unit/unit.py"),
    ("seqcls", "sequence/sequence.py"),
    ("spline", "grooves/spline.py"),      # the one groove class that is not built on the junction chain
]
# files whose `self._<name> = <formula>` assignments are translated (kind `attr`: declared dimension of <name>)
ATTR_FILES = ("grooves/spline.py",)
# decorators that do not change what a call of the decorated function executes (hook registrations are recognised by
# pyexpr._decorator_info); anything else wraps the translated body in code the model does not contain
PLAIN_DECORATORS = ("property", "classmethod", "staticmethod", "overload", "abstractmethod", "abc.abstractmethod",
                    "cached_property", "functools.cached_property")

# ---------------------------------------------------------------------------------------------------------------------
# THE DECLARED DIMENSION TABLE: exponent of the length unit.  "Scaling every length input by k, with stresses, times,
# rotational frequencies, temperatures and material data (density, heat capacity, conductivity, ...) held fixed,
# multiplies the quantity by k^d."
# ---------------------------------------------------------------------------------------------------------------------
_L1 = """
height width length x y z gap depth usable_width ground_width even_ground_width tip_width target_width
entry_point exit_point contact_length nominal_radius nominal_diameter working_radius min_radius max_radius radius
diameter inner_radius equivalent_height equivalent_width equivalent_radius inscribed_circle_diameter neutral_point
bounds perimeter location abs_draught abs_spread abs_elongation center contour_points surface_x surface_y surface_z
r1 r2 r3 r4 indent pad tip_depth flank_width flank_height flank_length side diagonal corner_radius scale_thickness
contact_width contact_depth xoff yoff
""".split()
_L2 = """
area contact_area surface_area free_surface_area target_cross_section_area cross_section_area
coolant_flow_cross_section
""".split()
_L3 = "volume".split()
_L0 = """
duration t rotational_frequency temperature surface_temperature core_temperature environment_temperature
coolant_temperature strain strain_rate draught spread elongation log_draught log_spread log_elongation rel_draught
rel_spread rel_elongation filling_ratio cross_section_filling_ratio filling_error cross_section_error
target_filling_ratio target_cross_section_filling_ratio elongation_efficiency neutral_angle entry_angle exit_angle
longitudinal_angle flank_angle alpha alpha1 alpha2 alpha3 alpha4 beta gamma pad_angle tip_angle rotation orientation
flow_stress density specific_heat_capacity thermal_conductivity thermal_diffusivity heat_penetration_number
hydrostatic_stress equivalent_stress longitudinal_stress altitudinal_stress latitudinal_stress normal_stress
front_tension back_tension deformation_activation_energy zener_holomon_parameter contact_duration idle_duration
iteration_precision max_iteration_count disk_element_count forward_slip_ratio deformation_resistance contact_pressure
contact_friction elastic_modulus poissons_ratio yield_strength rel_pad filling angle
longitudinal_strain altitudinal_strain latitudinal_strain coefficient_of_thermal_expansion peclet_number
""".split()

DIMS = {}
DIMS.update({n: 1 for n in _L1})
DIMS.update({n: 2 for n in _L2})
DIMS.update({n: 3 for n in _L3})
DIMS.update({n: 0 for n in _L0})
DIMS.update({
    # --- the non-obvious entries --------------------------------------------------------------------------------------
    "velocity": 1, "working_velocity": 1, "surface_velocity": 1, "coolant_velocity": 1,   # length / time, times fixed
    "roll_force": 2,             # stress * area, stresses fixed
    "roll_torque": 3,            # force * lever arm
    "power": 3, "roll_power": 3,  # torque * frequency, frequencies fixed
    "volume_flux": 3,            # area * velocity
    "coolant_volume_flux": 3,
    "mass_flux": 3,              # volume flux * density; the density is a MATERIAL input held fixed (not a length input)
    "mass_per_meter": 2,         # area * density (density fixed); the name says metres, the formula is unit free
    "energy_consumption": 0,     # power / mass flux
    "groove_factor": 1,          # centroid height of the groove cross-section: a length
    "grain_size": 1,             # a length input (metres are assumed by astm_grain_size_number, see `inhomogeneous`)
    "astm_grain_size_number": 0,  # a number; its formula is unit-bound by design (0.0254 m per inch) -> inhomogeneous
    "local_depth()": 1, "local_width()": 1, "local_height()": 1,   # results of the chord/depth queries: lengths
    # solver unknowns (driver/translate/c04_solvers.py): the unknowns of root_scalar/root are ANGLES, the unknown of the
    # fixed-point map of solve_r124 is the radius r2 (renamed `_len0` here)
    "_x0": 0, "_x1": 0, "_x2": 0, "root": 0, "root0": 0, "root1": 0, "root2": 0, "_len0": 1, "fp": 1,
    # what Unit.solve compares: one component of the root-hook result vector; the test is component-wise and relative,
    # so any dimension does (1 is a representative; theorem `convergence_test_scale_free` is stated for every d)
    "current_results": 1, "_old_results": 1,
    # the velocity loops of PassSequence.solve_velocities_*
    "prior_velocities": 1, "current_velocities": 1, "final_speed": 1, "initial_speed": 1,
    "final_cross_section_area": 2,
    # `value >= 0` in GenericElongationGroove.__init__: the generator variable ranges over the groove arguments (lengths
    # and angles alike); it is only compared with the literal 0, which is invariant for every dimension
    "value": 1,
    "MIN_ANGLE": 0, "MAX_ANGLE": 0,   # module constants of the solver file (their definitions are the `bracket` items)
    "padded_contact_angle": 0,   # Roll.surface_x: an angle (local of the function)
    "contact_angles": 0,
    "values": 1,                 # solve_r124: residual values on the angle raster (a length residual), sign tests only
    # EquivalentRibbedGroove
    "base_body_height": 1, "nominal_outer_diameter": 1, "rib_distance": 1, "rib_width": 1, "rib_angle": 0,
    # configuration constants are pure numbers
    "Config.DEFAULT_ITERATION_PRECISION": 0, "Config.DEFAULT_MAX_ITERATION_COUNT": 0, "Config.ROLL_PASS_AUTO_ROTATION": 0,
    "Config.UNIVERSAL_GAS_CONSTANT": 0,   # J/(mol K) with the activation energy in J/mol: the quotient is a number
    "Config.PROFILE_CONTOUR_REFINEMENT": 0, "Config.GROOVE_RADIUS_POINT_COUNT": 0,
    "Config.ROLL_SURFACE_DISCRETIZATION_COUNT": 0, "Config.GROOVE_PADDING": 0,
})
# longer suffixes that override the leaf rule (none is needed at present: every leaf name has one meaning in the core)
PATH_DIMS = {}

_CHAIN_RE = [(re.compile(r"^[zy]\d+$"), 1), (re.compile(r"^l\d+$"), 1), (re.compile(r"^alpha\d$"), 0),
             (re.compile(r"^(beta|gamma)$"), 0), (re.compile(r"^\w+_contour_line\(\)$"), 1)]

# signatures of geometry / query calls: callee leaf name -> {argument position or keyword: dimension}
CALL_SIGS = {
    "buffer": {0: 1, "distance": 1},
    "segmentize": {0: 1, "max_segment_length": 1},
    "translate": {"xoff": 1, "yoff": 1},
    "rotate": {"angle": 0},
    "clip_by_rect": {1: 1, 2: 1, 3: 1, 4: 1},
    "out_cross_section": {1: 1}, "out_cross_section3": {1: 1},
    "rectangle": {0: 1, 1: 1},
    "local_depth": {0: 1}, "local_width": {0: 1}, "local_height": {0: 1},
}
# method calls whose RESULT is used inside hook formulas: translated to the variable `<path>.<method>()`
QUERY_CALLS = ("local_depth", "local_width", "local_height")

# dimension of the unknown of each numeric oracle and of the keys the solvers return
SOLVER_KEY_DIMS = {"width": 1, "depth": 1, "r2": 1, "alpha": 0, "flank_angle": 0, "alpha2": 0, "alpha3": 0, "alpha4": 0,
                   "ground_width": 1, "usable_width": 1, "even_ground_width": 1}
# keyword arguments of GenericElongationGroove.__init__
GROOVE_KW_DIMS = {"r1": 1, "r2": 1, "r3": 1, "r4": 1, "flank_angle": 0, "usable_width": 1, "ground_width": 1, "depth": 1,
                  "alpha3": 0, "alpha4": 0, "indent": 1, "even_ground_width": 1, "pad": 1, "rel_pad": 0, "pad_angle": 0}


# variables standing for counts: `sum(<boolean> for ...)` -> "#count(...)", `len(x)` -> "#len(...)" (dimension 0)
COUNT_PREFIX = "#"


def leaf_of(path):
    leaf = path.rsplit(".", 1)[-1]
    return re.sub(r"\[[^\]]*\]$", "", leaf)


def var_dim(path):
    """declared dimension of a variable (attribute path), or None"""
    if path.startswith(COUNT_PREFIX):
        return 0                # a count (`sum` of booleans, `len(...)`): a pure number whatever is counted
    if path in DIMS:
        return DIMS[path]
    parts = path.split(".")
    for i in range(len(parts)):
        suf = ".".join(parts[i:])
        if suf in PATH_DIMS:
            return PATH_DIMS[suf]
    leaf = leaf_of(path)
    if leaf in DIMS:
        return DIMS[leaf]
    for rx, d in _CHAIN_RE:
        if rx.match(leaf):
            return d
    return None


# ---------------------------------------------------------------------------------------------------------------------
# python mirror of `Expr.dim` (lean/PyrollModel/Expr.lean) - used only to decide WHICH certificate to emit; the Lean kernel
# re-evaluates every one of them
# ---------------------------------------------------------------------------------------------------------------------
BAD, ZERO = ("bad",), ("zero",)


def _add(a, b):
    if a == ZERO:
        return b
    if b == ZERO:
        return a
    if a[0] == "is" and b[0] == "is":
        return a if a[1] == b[1] else BAD
    return BAD


def _mul(a, b):
    if a == BAD or b == BAD:
        return BAD
    if a == ZERO or b == ZERO:
        return ZERO
    return ("is", a[1] + b[1])


def _div(a, b):
    if a == BAD or b == BAD or b == ZERO:
        return BAD
    if a == ZERO:
        return ZERO
    return ("is", a[1] - b[1])


def dim_of(e, gamma, refs=None):
    k = e[0]
    if k == "var":
        d = gamma(e[1])
        return BAD if d is None else ("is", d)
    if k == "ref":
        return (refs or {}).get(e[1], BAD)
    if k == "nat":
        return ZERO if e[1] == 0 else ("is", 0)
    if k in ("dec", "pi"):
        return ("is", 0)
    if k in ("add", "sub"):
        return _add(dim_of(e[1], gamma, refs), dim_of(e[2], gamma, refs))
    if k == "mul":
        return _mul(dim_of(e[1], gamma, refs), dim_of(e[2], gamma, refs))
    if k == "div":
        return _div(dim_of(e[1], gamma, refs), dim_of(e[2], gamma, refs))
    if k in ("neg", "abs"):
        return dim_of(e[1], gamma, refs)
    if k == "pow":
        a = dim_of(e[1], gamma, refs)
        if a == BAD:
            return BAD
        if a == ZERO:
            return ("is", 0) if e[2] == 0 else ZERO
        return ("is", a[1] * e[2])
    if k == "sqrt":
        a = dim_of(e[1], gamma, refs)
        if a[0] == "is":
            return ("is", a[1] // 2) if a[1] % 2 == 0 else BAD
        return a
    a = dim_of(e[1], gamma, refs)       # sin cos tan asin acos atan log exp
    return ("is", 0) if a == ("is", 0) else BAD


def lean_dim(d):
    if d == BAD:
        return ".bad"
    if d == ZERO:
        return ".zero"
    return f".is ({d[1]})" if d[1] < 0 else f".is {d[1]}"


# ---------------------------------------------------------------------------------------------------------------------
class Item:
    def __init__(self, key, lean, kind, src, expr, want, anchored=True, note=""):
        self.key = key          # stable identifier (no line numbers)
        self.lean = lean        # Lean definition name
        self.kind = kind
        self.src = src          # "pyroll/core/...:<line>"
        self.expr = expr        # tuple form
        self.want = want        # declared dimension, or None = any (decisions)
        self.anchored = anchored
        self.note = note
        self.got = None
        self.undeclared = []
        self.impl = None        # HookImpl (kind hook/sum), for the correspondence
        self.alt = None

    @property
    def ok(self):
        if self.got == BAD:
            return False
        if self.want is None or self.got == ZERO:
            return True
        return self.got == ("is", self.want)

    @property
    def d(self):
        """the dimension recorded in the Lean table"""
        if self.want is not None:
            return self.want
        return self.got[1] if self.got[0] == "is" else 0


def _ident(s):
    return re.sub(r"[^A-Za-z0-9_]", "_", s)


# ---------------------------------------------------------------------------------------------------------------------
# hook implementations (extended subset: log2/log10, np.array([...]) vectors, `x[:, i]`, `.reshape(...)`, query calls)
# ---------------------------------------------------------------------------------------------------------------------
class _HookTr(pyexpr.ExprTranslator):
    def tr(self, n):
        if isinstance(n, ast.Call):
            f = n.func
            if isinstance(f, ast.Attribute) and isinstance(f.value, ast.Name) and f.value.id in ("np", "numpy", "math") \
                    and f.attr in ("log2", "log10") and len(n.args) == 1:
                return ("div", ("log", self.tr(n.args[0])), ("log", ("nat", 2 if f.attr == "log2" else 10)))
            if isinstance(f, ast.Attribute) and f.attr == "reshape":
                return self.tr(f.value)                      # a change of array shape: value- and dimension-preserving
            if isinstance(f, ast.Attribute) and f.attr in QUERY_CALLS and len(n.args) == 1 and not n.keywords:
                base = self.tr(f.value)
                if base[0] == "var":
                    self.tr(n.args[0])                       # the argument must be a formula (checked as an `arg` item)
                    return ("var", base[1] + "." + f.attr + "()")
        if isinstance(n, ast.Subscript) and isinstance(n.slice, ast.Tuple) and len(n.slice.elts) == 2 \
                and isinstance(n.slice.elts[0], ast.Slice) and n.slice.elts[0].lower is None \
                and n.slice.elts[0].upper is None and n.slice.elts[0].step is None \
                and isinstance(n.slice.elts[1], ast.Constant) and isinstance(n.slice.elts[1].value, int):
            base = self.tr(n.value)
            if base[0] == "var":
                return ("var", base[1] + f"[:,{n.slice.elts[1].value}]")
        return super().tr(n)


GEOMETRY_CALLS = ("clip_by_rect", "out_cross_section", "out_cross_section3", "rectangle", "rotate", "translate",
                  "difference", "Polygon", "LineString", "intersection", "buffer")


def _is_geometry_call(n):
    if not isinstance(n, ast.Call):
        return False
    p = pyexpr.attr_path(n.func)
    return bool(p) and p[-1] in GEOMETRY_CALLS


def _vector(n):
    """np.array([a, b, ...]) -> [a, b, ...] (ast nodes) or None"""
    if isinstance(n, ast.Call) and pyexpr.attr_path(n.func) in (["np", "array"], ["numpy", "array"]) and len(n.args) == 1 \
            and isinstance(n.args[0], (ast.List, ast.Tuple)) and not n.keywords:
        return list(n.args[0].elts)
    return None


def _extract_function(fn, impl):
    """like pyexpr.extract_function, over the extended subset; alternative kinds: expr | vec | sumOver | none | opaque:<src>"""
    self_name = fn.args.args[0].arg if fn.args.args else "self"
    impl.wants_cycle = any(a.arg == "cycle" for a in fn.args.args)

    def opaque(guard, node, why):
        impl.gap = impl.gap or why
        impl.alts.append((guard, None, "opaque:" + ast.unparse(node)[:200]))
        return True

    def bind(name, value, locals_):
        locals_ = dict(locals_)
        try:
            locals_[name] = _HookTr(self_name, locals_).tr(value)
        except Untranslatable:
            if _is_geometry_call(value):
                # a shapely object held in a local: later reads (`usable_contour.bounds[3]`) are variables rooted at the
                # local's name; the arguments of the call are checked by the `arg` scan
                locals_[name] = ("var", "<" + name + ">")
                impl.geom_locals = True
            else:
                raise
        return locals_

    def block(stmts, guard, locals_):
        for idx, st in enumerate(stmts):
            if isinstance(st, ast.Expr) and isinstance(st.value, ast.Constant) and isinstance(st.value.value, str):
                continue
            if isinstance(st, (ast.Import, ast.ImportFrom)):
                continue
            if isinstance(st, ast.Return):
                v = st.value
                if v is None or (isinstance(v, ast.Constant) and v.value is None):
                    impl.alts.append((guard, None, "none"))
                    return True
                so = pyexpr._sum_over(v, self_name)
                if so is not None:
                    impl.alts.append((guard, so, "sumOver"))
                    return True
                try:
                    vec = _vector(v)
                    if vec is not None:
                        impl.alts.append((guard, [_HookTr(self_name, locals_).tr(x) for x in vec], "vec"))
                    else:
                        impl.alts.append((guard, _HookTr(self_name, locals_).tr(v), "expr"))
                except Untranslatable as ex:
                    return opaque(guard, v, str(ex))
                return True
            tgt = None
            if isinstance(st, ast.Assign) and len(st.targets) == 1 and isinstance(st.targets[0], ast.Name):
                tgt = st.targets[0].id
            elif isinstance(st, ast.AnnAssign) and isinstance(st.target, ast.Name) and st.value is not None:
                tgt = st.target.id
            if tgt is not None:
                if isinstance(st.value, ast.IfExp):
                    # `v = a if c else b`: the rest of the body once under `c` with v = a, once under `not c` with v = b
                    g = pyexpr.tr_guard(st.value.test, self_name, locals_)
                    for gg, val in ((g, st.value.body), (("not", g), st.value.orelse)):
                        g_and = gg if guard == ("tt",) else ("and", guard, gg)
                        try:
                            block(stmts[idx + 1:], g_and, bind(tgt, val, locals_))
                        except Untranslatable as ex:
                            opaque(g_and, st, f"assignment {tgt}: {ex}")
                    return True
                try:
                    locals_ = bind(tgt, st.value, locals_)
                    continue
                except Untranslatable as ex:
                    return opaque(guard, st, f"assignment {tgt}: {ex}")
            if isinstance(st, ast.If) and len(st.body) == 1 and isinstance(st.body[0], ast.Raise) and not st.orelse:
                continue            # a rejection test; its comparison is one of the scanned `decision` items
            if isinstance(st, ast.If):
                g = pyexpr.tr_guard(st.test, self_name, locals_)
                g_and = g if guard == ("tt",) else ("and", guard, g)
                ret_then = block(st.body, g_and, locals_)
                ng = ("not", g)
                ng_and = ng if guard == ("tt",) else ("and", guard, ng)
                if st.orelse:
                    ret_else = block(st.orelse, ng_and, locals_)
                    if ret_then and ret_else:
                        return True
                    return opaque(guard, st, "if/else that does not return on both branches")
                if ret_then:
                    guard = ng_and
                    continue
                return opaque(guard, st, "if without return")
            return opaque(guard, st, f"statement {type(st).__name__}")
        impl.alts.append((guard, None, "none"))
        return True

    # `block` on an `if` body that falls through appends a "none" alternative and reports True; python semantics of a
    # body falling off its end inside an `if` is to continue after the `if` - the hook implementations of the core only
    # use `if g: return e` / `if g: ... return e else: return e`, anything else is reported opaque above.
    block(fn.body, ("tt",), {})


def extract_hook_file(rel, repo=None):
    path = os.path.join(repo or REPO, CORE, rel)
    src = open(path).read()
    tree = ast.parse(src)
    out = []
    for node in tree.body:
        if not isinstance(node, ast.FunctionDef):
            continue
        for dec in node.decorator_list:
            info = pyexpr._decorator_info(dec)
            if info is None:
                continue
            impl = pyexpr.HookImpl()
            impl.module = rel
            impl.host, impl.hook, impl.tier, impl.wrapper = info
            impl.fn = node.name
            impl.lineno = node.lineno
            impl.node = node
            _extract_function(node, impl)
            out.append(impl)
    return out


def hook_items(repo=None):
    """-> (items, opaque alternatives [(key, src, reason, anchored, hook)], impls {lean base name: HookImpl},
    hooks without a numeric value [(key, src, hook, anchored)])"""
    items, opaques, impls, nonnumeric = [], [], {}, []
    for anchored, files in ((True, ANCHORED_HOOK_FILES), (False, EXTRA_HOOK_FILES)):
        for fkey, rel in files:
            for impl in extract_hook_file(rel, repo):
                base = f"{fkey}_{_ident(impl.fn)}"
                impls[base] = impl
                want = var_dim(impl.hook)
                src = f"pyroll/core/{rel}:{impl.lineno}"
                if want is None:
                    # a hook whose value is not a number (polygon, line set, classifier set, callable)
                    nonnumeric.append((f"{rel}:{impl.fn}", src, f"{impl.host}.{impl.hook}", anchored))
                    continue
                for k, (g, e, kind) in enumerate(impl.alts):
                    key = f"{rel}:{impl.fn}#alt{k}"
                    if kind == "expr":
                        it = Item(key, f"{base}_a{k}", "hook", src, e, want, anchored, f"{impl.host}.{impl.hook}")
                        it.impl, it.alt = impl, k
                        items.append(it)
                    elif kind == "vec":
                        for j, c in enumerate(e):
                            it = Item(f"{key}[{j}]", f"{base}_a{k}_c{j}", "hook", src, c, want, anchored,
                                      f"{impl.host}.{impl.hook}[{j}]")
                            it.impl, it.alt, it.comp = impl, k, j
                            items.append(it)
                    elif kind == "sumOver":
                        # sum of `u.<attr>` over a collection: homogeneous of the summand's degree
                        it = Item(key, f"{base}_a{k}", "sum", src, ("var", f"{e[0]}[].{e[1]}"), want, anchored,
                                  f"{impl.host}.{impl.hook} = sum over {e[0]} of {e[1]}")
                        it.impl, it.alt = impl, k
                        items.append(it)
                    elif kind.startswith("opaque:"):
                        opaques.append((key, src, impl.gap or "outside the subset", anchored, f"{impl.host}.{impl.hook}"))
    return items, opaques, impls, nonnumeric


# ---------------------------------------------------------------------------------------------------------------------
# groove chain, contour functions, resolution
# ---------------------------------------------------------------------------------------------------------------------
def _reref(e, prefix):
    if e[0] == "ref":
        return ("ref", prefix + e[1])
    return tuple(_reref(x, prefix) if isinstance(x, tuple) else x for x in e)


def groove_items(repo=None):
    items, gaps = [], []
    rel = "grooves/generic_elongation.py"
    src = f"pyroll/core/{rel}"
    chain, cgaps = groove_tr.extract_chain(repo)
    gaps += [f"groove chain entry outside the subset: {g}" for g in cgaps]
    for name, e in chain:
        want = var_dim(name)
        if want is None:
            gaps.append(f"groove chain entry `{name}` has no declared dimension")
            continue
        items.append(Item(f"{rel}:__init__:{name}", "g_" + name, "chain", src, _reref(e, "g_"), want))
    names = [n for n, _ in chain]
    for fname, e in sorted(groove_tr.extract_contour_functions(repo, chain_names=names).items()):
        items.append(Item(f"{rel}:_{fname}", "g_fn_" + fname, "contour", src, _reref(e, "g_"), 1))
    res = groove_tr.extract_resolution(repo)
    for k in ("usable_width", "ground_width", "flank_angle", "depth"):
        if k not in res:
            gaps.append(f"four-way resolution branch for {k} not found")
            continue
        items.append(Item(f"{rel}:__init__:resolve_{k}", "g_resolve_" + k, "resolve", src, res[k], GROOVE_KW_DIMS[k]))
    return items, gaps, chain


# ---------------------------------------------------------------------------------------------------------------------
# solvers (via driver/translate/c04_solvers.py, read-only)
# ---------------------------------------------------------------------------------------------------------------------
def _rename(e, table):
    if e[0] == "var":
        return ("var", table.get(e[1], e[1]))
    return tuple(_rename(x, table) if isinstance(x, tuple) else x for x in e)


def _start_alternatives(text, params):
    """`a if a > b else b` -> ([(suffix, expr)], [(lhs, rhs)] decisions); plain expression -> one alternative"""
    node = ast.parse(text, mode="eval").body
    tr = pyexpr.ExprTranslator("self", {}, set(params))
    if isinstance(node, ast.IfExp) and isinstance(node.test, ast.Compare) and len(node.test.ops) == 1:
        return ([("a", tr.tr(node.body)), ("b", tr.tr(node.orelse))],
                [(tr.tr(node.test.left), tr.tr(node.test.comparators[0]))])
    return [("", tr.tr(node))], []


def solver_items(repo=None):
    from . import c04_solvers
    items, gaps, opaque_brackets = [], [], []
    rel = "grooves/generic_elongation_solvers.py"
    src = f"pyroll/core/{rel}"
    solvers = c04_solvers.extract_solvers(repo)
    seen = {}
    for sname, info in solvers.items():
        gaps += [f"solver: {g}" for g in info["gaps"]]
        for pname, oc in info["canonical"].items():
            if oc.kind != "return":
                continue
            for oi, o in enumerate(oc.oracles):
                tag = "" if oi == 0 else f"o{oi + 1}_"
                fixed = o["kind"] == "fixed_point"
                ren = {"_x0": "_len0"} if fixed else {}
                udim = 1 if fixed else 0
                for suf, g, vec in c04_solvers._cases(o["residual"]):
                    for i, e in enumerate(vec):
                        nm = f"{pname}_{tag}{'map' if fixed else 'res'}{i}{suf}"
                        # a length residual (m = 1); the fixed-point map returns a length as well
                        items.append(Item(f"{rel}:{sname}:{nm}", "s_" + nm, "map" if fixed else "residual", src,
                                          _rename(e, ren), 1, note=o["kind"]))
                    if g is not None and g[0] != "not":
                        items.append(Item(f"{rel}:{sname}:{pname}_{tag}branch", f"s_{pname}_{tag}branch", "decision", src,
                                          ("sub", g[1], g[2]), None, note="branch of the residual"))
                extra = o.get("bracket") or o.get("start")
                what = "bracket" if "bracket" in o else "start"
                for bi, b in enumerate(extra):
                    nm = f"{pname}_{tag}{what}{bi}"
                    if b[0] != "text":
                        items.append(Item(f"{rel}:{sname}:{nm}", "s_" + nm, what, src, b, udim, note=o["kind"]))
                        continue
                    try:
                        alts, decs = _start_alternatives(b[1], info["params"])
                    except (Untranslatable, SyntaxError):
                        opaque_brackets.append((f"{sname}:{nm}", b[1]))
                        continue
                    for suf, e in alts:
                        items.append(Item(f"{rel}:{sname}:{nm}{suf}", "s_" + nm + suf, what, src, e, udim, note=o["kind"]))
                    for di, (l, r) in enumerate(decs):
                        items.append(Item(f"{rel}:{sname}:{nm}_test{di}", f"s_{nm}_test{di}", "decision", src,
                                          ("sub", l, r), None, note="choice of the start value"))
            for k, e in oc.value.items():
                if k not in SOLVER_KEY_DIMS:
                    gaps.append(f"solver {sname} returns `{k}` which has no declared dimension")
                    continue
                nm = f"{pname}_{k}"
                items.append(Item(f"{rel}:{sname}:{nm}", "s_" + nm, "closed", src, e, SOLVER_KEY_DIMS[k]))
    # structurally identical items (the flank-mode variants share many closed forms) are kept: one certificate each
    # constructor plumbing: distinct (class, keyword, expression) triples
    classes = c04_solvers.extract_classes(solvers, repo)
    for cname, info in classes.items():
        gaps += [f"constructor: {g}" for g in info["gaps"]]
        n = 0
        for pstr, oc in info["patterns"].items():
            if oc.kind != "return":
                continue
            for k, e in oc.value.items():
                sig = (cname, k, repr(e))
                if sig in seen:
                    continue
                seen[sig] = True
                if k not in GROOVE_KW_DIMS:
                    continue        # classifiers etc. never reach here (only numeric keywords are translated)
                n += 1
                items.append(Item(f"pyroll/core/grooves/{info['file']}:{cname}.__init__:{k}#{n}", f"p_{cname}_{k}_{n}", "plumb",
                                  f"pyroll/core/grooves/{info['file']}", e, GROOVE_KW_DIMS[k]))
    return items, gaps, opaque_brackets


# ---------------------------------------------------------------------------------------------------------------------
# decisions and geometry-call arguments (scan of whole files)
# ---------------------------------------------------------------------------------------------------------------------
class _SiteTr(pyexpr.ExprTranslator):
    """permissive: every attribute path / bare name is a variable (`self.`/`cls.` stripped), locals substituted"""

    def tr(self, n):
        if isinstance(n, ast.Call):
            f = n.func
            if isinstance(f, ast.Name) and f.id == "len" and len(n.args) == 1 and not n.keywords:
                return ("var", _count_name("len", n.args[0]))        # a number of elements: dimensionless
            if isinstance(f, ast.Name) and f.id == "sum" and len(n.args) == 1 and not n.keywords \
                    and isinstance(n.args[0], (ast.GeneratorExp, ast.ListComp)) and _is_boolean(n.args[0].elt):
                return ("var", _count_name("count", n.args[0]))      # `sum(<test> for ...)`: how many tests hold
            p = pyexpr.attr_path(f)
            if p and p[-1] in ("all", "any", "asarray", "array", "diff") and p[0] in ("np", "numpy") and len(n.args) == 1:
                return self.tr(n.args[0])                    # element-wise tests: np.all(a < b)
            if p and p[-1] in ("max", "min", "amax", "amin") and p[0] in ("np", "numpy") and len(n.args) == 1 \
                    and not n.keywords:
                return self.tr(n.args[0])                    # an element of the array: the array's dimension
            if p and p[-1] == "ptp" and p[0] in ("np", "numpy") and len(n.args) == 1 \
                    and all(k.arg == "axis" for k in n.keywords):
                return self.tr(n.args[0])                    # a difference of two elements: the array's dimension
            if p and p[-1] in ("ones_like", "zeros_like"):
                raise Untranslatable("array constructor")
            if p and len(n.args) == 1 and not n.keywords and (p[-1].lstrip("_") in QUERY_CALLS
                                                             or p[-1].endswith("_contour_line")):
                self.tr(n.args[0])
                return ("var", p[-1].lstrip("_") + "()")      # result of a chord / depth / contour query: a length
        if isinstance(n, ast.Subscript) and isinstance(n.slice, ast.Constant) and isinstance(n.slice.value, str):
            return ("var", n.slice.value)                    # `sol["flank_angle"]`: the entry named by the key
        if isinstance(n, ast.Subscript) and pyexpr.attr_path(n) is None and _is_index(n.slice):
            # `a[0, 1]`, `a[-1, 0]`, `a[:, 1]`, `a[len(a) // 2:]`: one component / one column / a part of an array - the
            # dimension of the array (which part is read is not visible to the typing: the coordinates of one array share
            # their dimension; slice bounds must be counts)
            return self.tr(n.value)
        if isinstance(n, ast.Subscript) and isinstance(n.slice, ast.Compare) and len(n.slice.ops) == 1 \
                and isinstance(n.slice.ops[0], _NUM_OPS):
            # `y[z <= self.z3]`: the elements selected by a boolean mask - elements of the array; the comparison that
            # makes the mask is a `decision` item of its own
            return self.tr(n.value)
        p = pyexpr.attr_path(n)
        if p is not None and not (p[0] in ("np", "numpy", "math")):
            if len(p) == 1 and p[0] in self.locals:
                return self.locals[p[0]]
            if p[0] in self.locals and self.locals[p[0]][0] == "var":
                return ("var", self.locals[p[0]][1] + "." + ".".join(p[1:]))
            if p[0] in ("self", "cls") and len(p) > 1:
                p = p[1:]
            if p[0] in ("True", "False", "None"):
                raise Untranslatable("constant name")
            if p[0] == "Config":
                return ("var", ".".join(p))
            return ("var", ".".join(x.lstrip("_") if i == len(p) - 1 and x != "_old_results" else x
                                    for i, x in enumerate(p)))
        return super().tr(n)


def _is_index(sl):
    """constant integer (also negative), a slice whose bounds are counts (`:`, `n // 2:`), or a tuple of those"""
    if isinstance(sl, ast.Tuple):
        return bool(sl.elts) and all(_is_index(x) for x in sl.elts)
    if isinstance(sl, ast.Slice):
        return all(b is None or _is_count(b) for b in (sl.lower, sl.upper, sl.step))
    if isinstance(sl, ast.UnaryOp) and isinstance(sl.op, ast.USub):
        sl = sl.operand
    return isinstance(sl, ast.Constant) and isinstance(sl.value, int) and not isinstance(sl.value, bool)


def _is_count(n):
    """an index expression made of integer literals and `len(...)` with + - * // (no quantity enters)"""
    if isinstance(n, ast.Constant):
        return isinstance(n.value, int) and not isinstance(n.value, bool)
    if isinstance(n, ast.UnaryOp) and isinstance(n.op, (ast.USub, ast.UAdd)):
        return _is_count(n.operand)
    if isinstance(n, ast.BinOp) and isinstance(n.op, (ast.Add, ast.Sub, ast.Mult, ast.FloorDiv)):
        return _is_count(n.left) and _is_count(n.right)
    return isinstance(n, ast.Call) and isinstance(n.func, ast.Name) and n.func.id == "len" and len(n.args) == 1 \
        and not n.keywords


def _is_boolean(n):
    """an expression whose value is a truth value: comparison / membership / identity test, isinstance, and / or / not"""
    if isinstance(n, ast.Compare):
        return True
    if isinstance(n, ast.BoolOp):
        return all(_is_boolean(v) for v in n.values)
    if isinstance(n, ast.UnaryOp) and isinstance(n.op, ast.Not):
        return True
    return isinstance(n, ast.Call) and isinstance(n.func, ast.Name) and n.func.id in ("isinstance", "bool", "callable")


def _count_name(what, node):
    """name of the variable a count is translated to (no blanks, no `=`: it crosses the line protocol of the driver)"""
    return f"{COUNT_PREFIX}{what}({re.sub(r'[^A-Za-z0-9_.,()<>!+*/-]+', '_', ast.unparse(node))})"


def _isclose_term(a, b, rtol, atol):
    return ("sub", ("abs", ("sub", a, b)), ("add", atol, ("mul", rtol, ("abs", b))))


def _functions(tree):
    """(qualified name, FunctionDef) for every function, methods and nested functions included"""
    out = []

    def walk(body, prefix):
        for n in body:
            if isinstance(n, (ast.FunctionDef,)):
                out.append((prefix + n.name, n))
                walk(n.body, prefix + n.name + ".")
            elif isinstance(n, ast.ClassDef):
                walk(n.body, prefix + n.name + ".")
            elif isinstance(n, (ast.If, ast.Try, ast.For, ast.While, ast.With)):
                for fld in ("body", "orelse", "finalbody"):
                    walk(getattr(n, fld, []) or [], prefix)
                for h in getattr(n, "handlers", []) or []:
                    walk(h.body, prefix)
    walk(tree.body, "")
    return out


def _own_nodes(fn):
    """nodes of a function body in source order, without descending into nested function/class definitions"""
    stack = [n for n in reversed(fn.body) if not isinstance(n, (ast.FunctionDef, ast.AsyncFunctionDef, ast.ClassDef))]
    while stack:
        n = stack.pop()
        yield n
        kids = [c for c in ast.iter_child_nodes(n) if not isinstance(c, (ast.FunctionDef, ast.ClassDef, ast.Lambda))]
        stack.extend(reversed(kids))


_NUM_OPS = (ast.Lt, ast.LtE, ast.Gt, ast.GtE, ast.Eq, ast.NotEq)


def site_items(files, repo=None):
    """-> (items, skipped [(key, src, reason)])"""
    items, skipped = [], []
    for fkey, rel, anchored in files:
        path = os.path.join(repo or REPO, CORE, rel)
        tree = ast.parse(open(path).read())
        # module-level numeric constants WITHOUT a declared dimension are read as the number they are (`atol=TOLERANCE`
        # is the literal tolerance); declared ones (MIN_ANGLE) stay variables of their declared dimension
        mconsts = {name: e for (_, name, e, _, d) in structure_items([rel], repo)[0] if d is None}
        for qual, fn in _functions(tree):
            locals_ = dict(mconsts)
            ords = {}
            tr = _SiteTr("self", {}, ())
            tr.locals = locals_             # shared: assignments met later in the body are seen by later translations

            def new(kind, callee=""):
                k = kind + (":" + callee if callee else "")
                ords[k] = ords.get(k, 0) + 1
                return f"{rel}:{qual}:{k}#{ords[k]}", f"d_{fkey}_{_ident(qual)}_{_ident(k)}_{ords[k]}"

            for n in _own_nodes(fn):
                src = f"pyroll/core/{rel}:{getattr(n, 'lineno', fn.lineno)}"
                if rel in ATTR_FILES and isinstance(n, ast.Assign) and len(n.targets) == 1 \
                        and isinstance(n.targets[0], ast.Attribute) and isinstance(n.targets[0].value, ast.Name) \
                        and n.targets[0].value.id == "self" and var_dim(n.targets[0].attr.lstrip("_")) is not None:
                    name = n.targets[0].attr.lstrip("_")
                    key, lean = new("attr", name)
                    try:
                        e = tr.tr(n.value)
                    except Untranslatable as ex:
                        skipped.append((key, src, f"assignment `{ast.unparse(n)[:80]}`: {ex}"))
                        continue
                    items.append(Item(key, lean, "attr", src, e, var_dim(name), anchored, ast.unparse(n)[:100]))
                    continue
                if rel in ATTR_FILES and isinstance(n, ast.AugAssign) and isinstance(n.op, (ast.Add, ast.Sub)):
                    # `a[:, 0] -= <shift>`: the shift must have the dimension of what it is subtracted from
                    key, lean = new("attr", "shift")
                    try:
                        tgt_e, e = tr.tr(n.target), tr.tr(n.value)
                    except Untranslatable as ex:
                        skipped.append((key, src, f"assignment `{ast.unparse(n)[:80]}`: {ex}"))
                        continue
                    want = dim_of(tgt_e, var_dim)
                    if want[0] != "is":
                        skipped.append((key, src, f"assignment `{ast.unparse(n)[:80]}`: target without a declared dimension"))
                        continue
                    items.append(Item(key, lean, "attr", src, e, want[1], anchored, ast.unparse(n)[:100]))
                    continue
                if isinstance(n, ast.Assign) and len(n.targets) == 1 and isinstance(n.targets[0], ast.Name):
                    try:
                        if isinstance(n.value, ast.IfExp):
                            raise Untranslatable("conditional")
                        locals_[n.targets[0].id] = tr.tr(n.value)
                    except Untranslatable:
                        locals_.pop(n.targets[0].id, None)
                    continue
                if isinstance(n, ast.Compare) and any(isinstance(o, _NUM_OPS) for o in n.ops):
                    # `a < b`; a chain `a < b <= c` is the conjunction of its adjacent pairs (one item each)
                    operands = [n.left] + list(n.comparators)
                    for (l, o, r) in zip(operands, n.ops, operands[1:]):
                        if not isinstance(o, _NUM_OPS):
                            continue
                        key, lean = new("cmp")
                        try:
                            a, b = tr.tr(l), tr.tr(r)
                        except Untranslatable as ex:
                            skipped.append((key, src, f"comparison `{ast.unparse(n)[:80]}`: {ex}"))
                            continue
                        items.append(Item(key, lean, "decision", src, ("sub", a, b), None, anchored, ast.unparse(n)[:100]))
                    continue
                if isinstance(n, ast.Call):
                    p = pyexpr.attr_path(n.func)
                    callee = p[-1] if p else (n.func.attr if isinstance(n.func, ast.Attribute) else None)
                    if p and p[0] in ("np", "numpy") and callee == "isclose" and len(n.args) >= 2:
                        key, lean = new("isclose")
                        kw = {k.arg: k.value for k in n.keywords}
                        try:
                            a, b = tr.tr(n.args[0]), tr.tr(n.args[1])
                            rtol = tr.tr(kw["rtol"]) if "rtol" in kw else ("dec", 1, 5)      # numpy defaults
                            atol = tr.tr(kw["atol"]) if "atol" in kw else ("dec", 1, 8)
                        except Untranslatable as ex:
                            skipped.append((key, src, f"`{ast.unparse(n)[:80]}`: {ex}"))
                            continue
                        items.append(Item(key, lean, "isclose", src, _isclose_term(a, b, rtol, atol), None, anchored,
                                          ast.unparse(n)[:100]))
                        continue
                    if p and p[0] in ("np", "numpy") and callee == "linspace" and len(n.args) >= 2:
                        # the two end points of a raster must be of one dimension (then every raster point scales alike)
                        key, lean = new("linspace")
                        try:
                            a, b = tr.tr(n.args[0]), tr.tr(n.args[1])
                        except Untranslatable as ex:
                            skipped.append((key, src, f"`{ast.unparse(n)[:80]}`: {ex}"))
                            continue
                        items.append(Item(key, lean, "decision", src, ("sub", a, b), None, anchored, ast.unparse(n)[:100]))
                        continue
                    if callee in CALL_SIGS and not (p and p[0] in ("np", "numpy")):
                        sig = CALL_SIGS[callee]
                        args = [(i, a) for i, a in enumerate(n.args)] + [(k.arg, k.value) for k in n.keywords]
                        for pos, a in args:
                            if pos not in sig:
                                continue
                            ip = pyexpr.attr_path(a.operand if isinstance(a, ast.UnaryOp) else a)
                            if ip == ["math", "inf"] or ip == ["np", "inf"]:
                                continue                     # +-inf is scale invariant
                            key, lean = new("arg", callee)
                            try:
                                e = tr.tr(a)
                            except Untranslatable as ex:
                                skipped.append((key, src, f"argument {pos} of `{ast.unparse(n)[:60]}`: {ex}"))
                                continue
                            items.append(Item(key, lean, "arg", src, e, sig[pos], anchored,
                                              f"argument {pos} of {callee}(): {ast.unparse(a)[:60]}"))
    return items, skipped


def _groove_class_files(repo=None):
    """every python file under pyroll/core/grooves (the solver-backed constructors live in sub-packages)"""
    root = os.path.join(repo or REPO, CORE, "grooves")
    out = []
    for dp, _, fs in sorted(os.walk(root)):
        for f in sorted(fs):
            if f.endswith(".py") and f != "__init__.py":
                out.append(os.path.relpath(os.path.join(dp, f), os.path.join(repo or REPO, CORE)).replace(os.sep, "/"))
    return out


# ---------------------------------------------------------------------------------------------------------------------
# decorators: is the decorated function still what a call executes?
# ---------------------------------------------------------------------------------------------------------------------
# A decorator that is neither a hook registration nor one of PLAIN_DECORATORS is READ (its definition must live in the
# scanned tree) and accepted only when the function it returns is a pass-through wrapper:
#     def wrapper(*args, **kwargs): <checks that can only raise>; return func(*args, **kwargs)
# i.e. the wrapped function is called exactly once on every path that does not raise, with the very arguments of the call,
# its result is returned as it is, and the wrapper keeps nothing between calls.  The statements of the wrapper are
# whitelisted by AST node type (below); its numeric comparisons are ordinary `decision` items of the site scan and must
# all be certified homogeneous (checked in `collect`).  Everything else - a memo, rounded / quantised / re-ordered
# arguments, a post-processed result, state in the closure or in the module - is reported with the reason.
_WRAPPER_BUILTINS = ("isinstance", "sum", "len", "any", "all", "abs", "min", "max", "bool", "callable")   # pure
_WRAPPER_PREDICATES = ("isfinite", "isnan", "isinf", "isscalar", "isreal", "ndim")      # np.<f>(x) / math.<f>(x): pure tests
_WRAPPER_METHODS = ("items", "keys", "values", "get")                                   # read access to a mapping
_WRAPPER_FORBIDDEN = (ast.Global, ast.Nonlocal, ast.AugAssign, ast.Delete, ast.Try, ast.While, ast.With, ast.AsyncWith,
                      ast.AsyncFor, ast.Yield, ast.YieldFrom, ast.Await, ast.Lambda, ast.NamedExpr, ast.Import,
                      ast.ImportFrom, ast.FunctionDef, ast.AsyncFunctionDef, ast.ClassDef, ast.AnnAssign)


def _literal(n):
    """a constant, or a tuple / list of constants (what may be bound in a decorator's closure without being state)"""
    if isinstance(n, ast.Constant):
        return True
    return isinstance(n, (ast.Tuple, ast.List)) and all(isinstance(x, ast.Constant) for x in n.elts)


def _target_names(t):
    if isinstance(t, ast.Name):
        return [t.id]
    if isinstance(t, (ast.Tuple, ast.List)):
        out = []
        for x in t.elts:
            sub = _target_names(x)
            if sub is None:
                return None
            out += sub
        return out
    return None


def _docstring_free(body):
    return [st for st in body if not (isinstance(st, ast.Expr) and isinstance(st.value, ast.Constant)
                                      and isinstance(st.value.value, str))]


def resolve_decorator(rel, dec, repo=None):
    """-> (file of the definition relative to pyroll/core, FunctionDef, is a factory call) or a reason (str)"""
    factory = isinstance(dec, ast.Call)
    name = dec.func if factory else dec
    if not isinstance(name, ast.Name):
        return f"`{ast.unparse(name)}` is not a plain name: its definition is not looked up"
    root = os.path.join(repo or REPO, CORE)
    tree = ast.parse(open(os.path.join(root, rel)).read())
    for n in tree.body:
        if isinstance(n, ast.FunctionDef) and n.name == name.id:
            return rel, n, factory
    for n in tree.body:
        if not isinstance(n, ast.ImportFrom):
            continue
        for a in n.names:
            if (a.asname or a.name) != name.id:
                continue
            if n.level:
                base = os.path.dirname(rel)
                for _ in range(n.level - 1):
                    base = os.path.dirname(base)
                mod = os.path.join(base, *(n.module.split(".") if n.module else []))
            elif n.module and n.module.startswith("pyroll.core"):
                mod = os.path.join(*n.module.split(".")[2:]) if n.module != "pyroll.core" else ""
            else:
                return f"`{name.id}` is imported from `{n.module}`, outside the tree the translator reads"
            for cand in (mod + ".py", os.path.join(mod, "__init__.py")):
                path = os.path.join(root, cand)
                if os.path.isfile(path):
                    for d in ast.parse(open(path).read()).body:
                        if isinstance(d, ast.FunctionDef) and d.name == a.name:
                            return cand.replace(os.sep, "/"), d, factory
            return f"no definition of `{a.name}` found in `{n.module or '.'}`"
    return f"no definition of `{name.id}` found in {rel}"


def passthrough_wrapper(defn, dec, factory, module_tree):
    """Does the decorator defined by `defn` (applied as `dec`) return a pass-through wrapper?
    -> (qualified name of the wrapper relative to its module, FunctionDef of the wrapper, [reasons why not])"""
    why = []
    qual = defn.name
    closure = set()                 # names bound outside the wrapper that it may read (all immutable)
    outer = defn
    if factory:
        # def factory(<literal-default parameters>): def decorator(func): ...; return decorator
        a = defn.args
        if a.vararg or a.kwarg:
            why.append("the decorator factory takes *args / **kwargs")
        for d in list(a.defaults) + [d for d in a.kw_defaults if d is not None]:
            if not _literal(d):
                why.append(f"default `{ast.unparse(d)[:40]}` of the decorator factory is not a literal (shared state)")
        for x in list(dec.args) + [k.value for k in dec.keywords]:
            if not _literal(x):
                why.append(f"decorator argument `{ast.unparse(x)[:40]}` is not a literal")
        closure |= {x.arg for x in a.posonlyargs + a.args + a.kwonlyargs}
        body = _docstring_free(defn.body)
        if not (len(body) == 2 and isinstance(body[0], ast.FunctionDef) and isinstance(body[1], ast.Return)
                and isinstance(body[1].value, ast.Name) and body[1].value.id == body[0].name
                and not body[0].decorator_list):
            return qual, None, why + ["the decorator factory does more than define and return one decorator"]
        outer = body[0]
        qual += "." + outer.name
    a = outer.args
    if not (len(a.args) == 1 and not (a.posonlyargs or a.kwonlyargs or a.vararg or a.kwarg or a.defaults)):
        return qual, None, why + ["the decorator does not take exactly the decorated function"]
    func = a.args[0].arg
    body = _docstring_free(outer.body)
    wrappers = [st for st in body if isinstance(st, ast.FunctionDef)]
    if not (len(wrappers) == 1 and isinstance(body[-1], ast.Return) and isinstance(body[-1].value, ast.Name)
            and body[-1].value.id == wrappers[0].name):
        return qual, None, why + ["the decorator does not return one wrapper function defined in its body"]
    w = wrappers[0]
    qual += "." + w.name
    for st in body[:-1]:
        if st is w:
            continue
        # the only thing the closure may hold besides the function: its (immutable) signature
        if isinstance(st, ast.Assign) and len(st.targets) == 1 and isinstance(st.targets[0], ast.Name) \
                and ast.dump(st.value) == ast.dump(ast.parse(f"inspect.signature({func})", mode="eval").body):
            closure.add(st.targets[0].id)
            continue
        why.append(f"the decorator keeps `{ast.unparse(st)[:60]}` in its closure (state shared by all calls)")
    for d in w.decorator_list:
        if ast.unparse(d) not in (f"wraps({func})", f"functools.wraps({func})"):
            why.append(f"the wrapper is itself decorated with `@{ast.unparse(d)[:40]}`")
    wa = w.args
    if not (wa.vararg and wa.kwarg and not (wa.posonlyargs or wa.args or wa.kwonlyargs or wa.defaults or wa.kw_defaults)):
        return qual, w, why + ["the wrapper's parameters are not exactly (*args, **kwargs)"]
    va, kw = wa.vararg.arg, wa.kwarg.arg
    wbody = _docstring_free(w.body)
    passcall = ast.dump(ast.parse(f"{func}(*{va}, **{kw})", mode="eval").body)
    if not (wbody and isinstance(wbody[-1], ast.Return) and wbody[-1].value is not None
            and ast.dump(wbody[-1].value) == passcall):
        why.append(f"the wrapper does not end with `return {func}(*{va}, **{kw})` (arguments or result are not passed "
                   f"through unchanged)")
    checks = wbody[:-1] if wbody else []
    imported = set()
    constants = set()
    for n in module_tree.body:
        if isinstance(n, (ast.Import, ast.ImportFrom)):
            imported |= {(x.asname or x.name).split(".")[0] for x in n.names}
        if isinstance(n, ast.Assign) and len(n.targets) == 1 and isinstance(n.targets[0], ast.Name) \
                and isinstance(n.value, (ast.Constant, ast.BinOp, ast.UnaryOp)):
            constants.add(n.targets[0].id)      # module-level numbers: the site scan reads them as the number they are
    locals_ = set()
    raising = set()                 # nodes inside `raise ...`: the path ends there
    for st in checks:
        for n in ast.walk(st):
            if isinstance(n, ast.Raise):
                raising |= {id(x) for x in ast.walk(n)}
    for st in checks:
        for n in ast.walk(st):
            if isinstance(n, _WRAPPER_FORBIDDEN) or isinstance(n, ast.Return):
                why.append(f"the wrapper contains `{ast.unparse(n)[:50]}` ({type(n).__name__})")
            tgts = []
            if isinstance(n, ast.Assign):
                tgts = n.targets
            elif isinstance(n, (ast.For, ast.comprehension)):
                tgts = [n.target]
            for t in tgts:
                names = _target_names(t)
                if names is None:
                    why.append(f"the wrapper assigns to `{ast.unparse(t)[:40]}` (not a local name)")
                elif any(x in (va, kw, func) or x in closure for x in names):
                    why.append(f"the wrapper rebinds `{ast.unparse(t)[:40]}`")
                else:
                    locals_ |= set(names)
    for st in checks:
        for n in ast.walk(st):
            if id(n) in raising:
                continue
            if isinstance(n, ast.Call):
                f = n.func
                starred = [x for x in n.args if isinstance(x, ast.Starred)] + [k for k in n.keywords if k.arg is None]
                bind = isinstance(f, ast.Attribute) and f.attr in ("bind", "bind_partial") \
                    and isinstance(f.value, ast.Name) and f.value.id in closure
                if bind and ast.dump(n) == ast.dump(ast.parse(f"{f.value.id}.{f.attr}(*{va}, **{kw})", mode="eval").body):
                    continue
                ok = (isinstance(f, ast.Name) and f.id in _WRAPPER_BUILTINS) \
                    or (isinstance(f, ast.Attribute) and f.attr in _WRAPPER_METHODS) \
                    or (isinstance(f, ast.Attribute) and isinstance(f.value, ast.Name)
                        and f.value.id in ("np", "numpy", "math") and f.attr in _WRAPPER_PREDICATES)
                if not ok or starred:
                    why.append(f"the wrapper calls `{ast.unparse(n)[:50]}`")
            elif isinstance(n, ast.Name) and isinstance(n.ctx, ast.Load):
                if n.id in (va, kw):
                    continue        # checked below: only as *args / **kwargs of the two accepted calls
                if not (n.id in locals_ or n.id in closure or n.id in imported or n.id in constants
                        or n.id in _WRAPPER_BUILTINS or n.id in ("True", "False", "None")):
                    why.append(f"the wrapper reads `{n.id}`, which is neither a local, a parameter of the decorator, an "
                               f"import nor a module-level number")
    # *args / **kwargs are never looked into, changed or handed to anything but signature.bind and the function itself
    uses = sum(1 for n in ast.walk(w) if isinstance(n, ast.Name) and n.id in (va, kw))
    allowed = 0
    for n in ast.walk(w):
        if isinstance(n, ast.Call) and ast.dump(n) == passcall:
            allowed += 2
        elif isinstance(n, ast.Call) and isinstance(n.func, ast.Attribute) and n.func.attr in ("bind", "bind_partial") \
                and isinstance(n.func.value, ast.Name) and n.func.value.id in closure \
                and ast.dump(n) == ast.dump(ast.parse(f"{n.func.value.id}.{n.func.attr}(*{va}, **{kw})", mode="eval").body):
            allowed += 2
    if uses != allowed:
        why.append(f"the wrapper uses `{va}` / `{kw}` other than as `*{va}, **{kw}` of the wrapped call")
    calls = sum(1 for n in ast.walk(outer) if isinstance(n, ast.Call) and isinstance(n.func, ast.Name) and n.func.id == func)
    if calls != 1:
        why.append(f"the wrapped function is called {calls} times in the decorator")
    return qual, w, why


def wrapper_comparisons(rel, qual, w):
    """keys the site scan gives to the numeric comparisons of the wrapper (same order and numbering as `site_items`)"""
    keys, k = [], 0
    for n in _own_nodes(w):
        if isinstance(n, ast.Compare):
            for o in n.ops:
                if isinstance(o, _NUM_OPS):
                    k += 1
                    keys.append(f"{rel}:{qual}:cmp#{k}")
    return keys


def structure_items(rels, repo=None, decorators=None):
    """-> (constants [(rel, name, value tuple, src, declared dimension | None)], findings [(key, src, text)]).
    What the translation silently assumes about the files it reads: a call of a translated function executes the
    translated body (no wrapping decorator), functions keep nothing between calls (no module-level containers, no
    `global` / `nonlocal`), and every module-level number is a declared quantity."""
    consts, findings = [], []
    decorators = [] if decorators is None else decorators      # out: (rel, function, decorator node, src, text)
    for rel in rels:
        path = os.path.join(repo or REPO, CORE, rel)
        tree = ast.parse(open(path).read())
        known = {}
        for n in tree.body:
            src = f"pyroll/core/{rel}:{getattr(n, 'lineno', 0)}"
            if isinstance(n, (ast.Import, ast.ImportFrom, ast.FunctionDef, ast.ClassDef)):
                continue
            if isinstance(n, ast.Expr) and isinstance(n.value, ast.Constant) and isinstance(n.value.value, str):
                continue
            if isinstance(n, ast.If) and "TYPE_CHECKING" in ast.unparse(n.test):
                continue
            tgt, val = None, None
            if isinstance(n, ast.Assign) and len(n.targets) == 1 and isinstance(n.targets[0], ast.Name):
                tgt, val = n.targets[0].id, n.value
            elif isinstance(n, ast.AnnAssign) and isinstance(n.target, ast.Name) and n.value is not None:
                tgt, val = n.target.id, n.value
            if tgt == "__all__":
                continue
            if tgt is not None:
                try:
                    e = pyexpr.ExprTranslator("self", dict(known), ()).tr(val)
                    if pyexpr.expr_vars(e):
                        raise Untranslatable("not a closed constant")
                except Untranslatable:
                    e = None
                if e is not None:
                    known[tgt] = e
                    consts.append((rel, tgt, e, src, var_dim(tgt)))
                    if var_dim(tgt) is None:
                        findings.append((f"{rel}:const:{tgt}", src,
                                         f"module-level numeric constant `{ast.unparse(n)[:80]}` has no declared dimension "
                                         f"(a tolerance / resolution in fixed units?)"))
                    continue
                if isinstance(val, ast.Constant) and isinstance(val.value, (str, bool, type(None))):
                    continue
                if isinstance(val, (ast.Tuple,)) and all(isinstance(x, ast.Constant) for x in val.elts):
                    continue
            findings.append((f"{rel}:module-state:{tgt or type(n).__name__}", src,
                             f"module-level statement `{ast.unparse(n)[:80]}`: state outside the functions the translation reads"))
        for qual, fn in _functions(tree):
            src = f"pyroll/core/{rel}:{fn.lineno}"
            for dec in fn.decorator_list:
                if pyexpr._decorator_info(dec) is not None:
                    continue
                txt = ast.unparse(dec)
                if txt in PLAIN_DECORATORS or txt.endswith(".setter") or txt.endswith(".getter") or txt.endswith(".deleter") \
                        or txt.startswith("wraps(") or txt.startswith("functools.wraps("):
                    continue
                decorators.append((rel, qual, dec, src, txt))
            for n in _own_nodes(fn):
                if isinstance(n, (ast.Global, ast.Nonlocal)):
                    findings.append((f"{rel}:{qual}:{type(n).__name__.lower()}", src,
                                     f"`{qual}` declares `{ast.unparse(n)}`: it keeps state between calls"))
    return consts, findings


# ---------------------------------------------------------------------------------------------------------------------
def collect(repo=None):
    """everything, with `got` computed.  -> dict"""
    h_items, h_opaque, impls, nonnumeric = hook_items(repo)
    g_items, g_gaps, chain = groove_items(repo)
    s_items, s_gaps, opaque_brackets = solver_items(repo)
    files = [(k, r, True) for k, r in ANCHORED_HOOK_FILES] + [(k, r, True) for k, r in SITE_FILES] \
        + [(k, r, False) for k, r in EXTRA_HOOK_FILES]
    # the constructors of the groove classes (range checks on angles, tests on solver results)
    scanned = {r for _, r, _ in files}
    files += [("gc_" + _ident(os.path.basename(r)[:-3]), r, False) for r in _groove_class_files(repo) if r not in scanned]
    d_items, d_skipped = site_items(files, repo)
    items = h_items + g_items + s_items + d_items
    refs = {}
    undeclared = []
    kept = []
    for it in items:
        vs = sorted(set(pyexpr.expr_vars(it.expr)))
        it.undeclared = [v for v in vs if var_dim(v) is None]
        it.got = dim_of(it.expr, var_dim, refs)
        if it.kind in ("chain", "contour", "resolve"):
            refs[it.lean] = it.got
        if it.undeclared and it.kind in ("decision", "isclose", "arg", "attr"):
            undeclared.append(it)          # cannot be typed: reported, not emitted
            continue
        kept.append(it)
    names = {}
    for it in kept:
        if it.lean in names:
            raise Untranslatable(f"duplicate Lean name {it.lean}")
        names[it.lean] = it
    rels = sorted({r for _, r, _ in files})
    decorators = []
    consts, structure = structure_items(rels, repo, decorators)
    certified = {it.key for it in kept if it.ok}
    accepted_decorators = []
    for (rel, qual, dec, src, txt) in decorators:
        why, where = [], None
        res = resolve_decorator(rel, dec, repo)
        if isinstance(res, str):
            why.append(res)
        else:
            drel, defn, factory = res
            if drel not in rels:
                why.append(f"its definition is in {drel}, a file whose decisions are not scanned")
            else:
                dtree = ast.parse(open(os.path.join(repo or REPO, CORE, drel)).read())
                wqual, w, why = passthrough_wrapper(defn, dec, factory, dtree)
                where = f"{drel}:{wqual}"
                if w is not None:
                    for key in wrapper_comparisons(drel, wqual, w):
                        if key not in certified:
                            why.append(f"its comparison {key} is not translated and certified homogeneous")
        if why:
            structure.append((f"{rel}:{qual}:decorator:{txt[:40]}", src,
                              f"`{qual}` is wrapped by the decorator `@{txt[:60]}`: a call does not execute the translated "
                              f"body alone (" + "; ".join(dict.fromkeys(why)) + ")"))
        else:
            accepted_decorators.append({"function": f"{rel}:{qual}", "decorator": txt[:120], "wrapper": where,
                                        "why": "pass-through wrapper: checks that can only raise, then "
                                               "`return func(*args, **kwargs)`; every comparison certified"})
    # every other file of the core: only the module-level numbers (a tolerance in fixed units can sit anywhere)
    others = []
    for dp, _, fs in sorted(os.walk(os.path.join(repo or REPO, CORE))):
        for f in sorted(fs):
            r = os.path.relpath(os.path.join(dp, f), os.path.join(repo or REPO, CORE)).replace(os.sep, "/")
            if f.endswith(".py") and r not in rels:
                others.append(r)
    c2, s2 = structure_items(others, repo)
    consts += c2
    structure += [x for x in s2 if ":const:" in x[0]]
    return {"items": kept, "hook_opaque": h_opaque, "nonnumeric_hooks": nonnumeric, "impls": impls, "gaps": g_gaps + s_gaps, "chain": chain,
            "opaque_brackets": opaque_brackets, "skipped": d_skipped, "undeclared": undeclared,
            "constants": consts, "structure": structure, "decorators_accepted": accepted_decorators}


def gamma_entries(items):
    vs = set()
    for it in items:
        vs.update(pyexpr.expr_vars(it.expr))
    return sorted((v, var_dim(v)) for v in vs if var_dim(v) is not None)


def str_code(s):
    """mirror of `Dims.strCode` (lean/PyrollModel/Dims.lean)"""
    h = 1
    for b in s.encode("utf-8"):
        h = h * 256 + b
    return h


# generated modules: (suffix, item kinds, [(table name, kinds)])
MODULES = [
    ("Hooks", ("hook", "sum"), [("hookFormulas", ("hook", "sum"))]),
    ("Geom", ("chain", "contour", "resolve", "residual", "map", "bracket", "start"),
     [("junctions", ("chain",)), ("contourFns", ("contour", "resolve")), ("residuals", ("residual",)),
      ("fixedPointMaps", ("map",)), ("brackets", ("bracket",)), ("starts", ("start",))]),
    ("Closed", ("closed", "plumb"), [("closedForms", ("closed",)), ("plumbing", ("plumb",))]),
    ("Sites", ("decision", "isclose", "arg", "attr"), [("decisions", ("decision", "isclose")), ("geomArgs", ("arg",)),
                                                      ("attrAssignments", ("attr",))]),
]
HEADER = ("/- GENERATED by driver/translate/c11_dims.py from /repo's working tree on every run - do not edit.\n"
          "   One `Expr` per closed-form expression of the anchored files and one kernel-evaluated certificate `<name>_dim`\n"
          "   per expression, relative to the declared variable typing `Γ` of Gen/C11Gamma.lean.\n"
          "   Prefixes: (file key)_ hook implementations; g_ groove junction chain; s_ solver residuals / closed forms /\n"
          "   brackets / start values; p_ constructor plumbing; d_ decisions (comparison `a ? b` as the term `a - b`,\n"
          "   `np.isclose(a, b)` as `|a-b| - (atol + rtol |b|)`) and geometry-call arguments. -/")


def emit(ctx, data, pid="C11"):
    """writes Gen/C11Gamma.lean (Γ), Gen/C11Hooks.lean, Gen/C11Geom.lean, Gen/C11Closed.lean, Gen/C11Sites.lean (definitions + certificates,
    built in parallel) and Gen/C11.lean (the tables `inhomogeneous`, `table`, `opaqueBrackets`)"""
    items = data["items"]
    gen = os.path.join(LEAN_DIR, "PyrollModel", "Gen")
    rewritten = {}

    def write(name, lines):
        text = "\n".join(lines) + "\n"
        rewritten[name] = pyexpr.write_if_changed(os.path.join(gen, name + ".lean"), text)

    ge = gamma_entries(items)
    write(f"{pid}Gamma", [
        "import PyrollModel.Dims",
        "/- GENERATED by driver/translate/c11_dims.py (the declared table is `DIMS` there) - do not edit. -/",
        f"namespace Gen.{pid}", "open Dims", "",
        "/-- declared length dimension of every variable (attribute path) that occurs in the generated terms -/",
        "def gammaTable : List (String × Int) := [",
        ",\n".join(f"  ({pyexpr.lean_str(v)}, {d})" for v, d in ge) + "]",
        "/-- the same table keyed by `Dims.strCode` of the name -/",
        "def gammaCodes : List (Nat × Int) := [",
        ",\n".join(f"  ({str_code(v)}, {d})" for v, d in ge) + "]",
        "theorem gammaCodes_eq : gammaCodes = gammaTable.map (fun p => (strCode p.1, p.2)) := by decide +kernel",
        "def Γ : String → Option Int := gammaOf gammaCodes", "",
        f"end Gen.{pid}"])

    def entry(it):
        return (f"  ⟨{pyexpr.lean_str(it.lean)}, {pyexpr.lean_str(it.key)}, {pyexpr.lean_str(it.src)}, {it.lean}, "
                f"{it.d}, {'Or.inr' if it.got == ZERO else 'Or.inl'} {it.lean}_dim⟩")

    for suffix, kinds, tables in MODULES:
        mine = [it for it in items if it.kind in kinds]
        L = [f"import PyrollModel.Gen.{pid}Gamma", HEADER, f"namespace Gen.{pid}", "open Dims", ""]
        for it in mine:
            L.append(f"/-- {it.kind}: {it.src} {it.key}" + (f" ({it.note})" if it.note else "") + " -/")
            L.append(f"def {it.lean} : Expr := {pyexpr.lean_expr(it.expr)}")
            L.append(f"theorem {it.lean}_dim : Expr.dim Γ {it.lean} = {lean_dim(it.got)} := by decide +kernel")
        L.append("")
        for tname, tkinds in tables:
            sel = [it for it in mine if it.kind in tkinds and it.ok]
            L.append(f"def {tname} : List (Entry Γ) := [")
            L.append(",\n".join(entry(it) for it in sel) + "]")
            L.append("")
        bad = [it for it in mine if not it.ok]
        L.append("/-- terms of this module whose dimension certificate is NOT the declared one -/")
        L.append(f"def bad{suffix} : List (BadEntry Γ) := [")
        L.append(",\n".join(
            f"  ⟨{pyexpr.lean_str(it.lean)}, {pyexpr.lean_str(it.key)}, {pyexpr.lean_str(it.src)}, {it.lean}, {it.d}, "
            f"by unfold Cert; rw [{it.lean}_dim]; decide⟩" for it in bad) + "]")
        L.append(f"def table{suffix} : List (String × Expr) := [" + ", ".join(f"(\"{it.lean}\", {it.lean})" for it in mine) + "]")
        L.append("")
        L.append(f"end Gen.{pid}")
        write(f"{pid}{suffix}", L)

    write(pid, [
        *[f"import PyrollModel.Gen.{pid}{suffix}" for suffix, _, _ in MODULES],
        "/- GENERATED by driver/translate/c11_dims.py - do not edit. -/",
        f"namespace Gen.{pid}", "open Dims", "",
        "/-- everything whose dimension certificate is NOT the declared one: absolute tolerances, unit-bound formulas -/",
        "def inhomogeneous : List (BadEntry Γ) := " + " ++ ".join(f"bad{suffix}" for suffix, _, _ in MODULES), "",
        "/-- textual brackets / start values of the numeric oracles that are not closed-form expressions -/",
        "def opaqueBrackets : List (String × String) := [" + ", ".join(
            f"({pyexpr.lean_str(a)}, {pyexpr.lean_str(b)})" for a, b in data["opaque_brackets"]) + "]", "",
        "/-- every definition by name (for the Float evaluation driver) -/",
        "def table : List (String × Expr) := " + " ++ ".join(f"table{suffix}" for suffix, _, _ in MODULES), "",
        f"end Gen.{pid}"])
    ctx.notes.setdefault("generated", {})[f"Gen/{pid}*.lean"] = {
        "defs": len(items), "variables": len(ge), "rewritten": sorted(k for k, v in rewritten.items() if v)}
