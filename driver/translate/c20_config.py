"""(T) for C20: read `pyroll/core/config.py` with `ast` and describe, as DATA, the decisions the property depends on:

* the `if` branches of `ConfigValue.parse` in source order: for each the DISPATCH CLASS `self.type` is tested against (bool,
  Path, str, int, Enum, Mapping, Iterable; the custom parser), the KIND of test (`self.type is T` = identity,
  `issubclass(self.type, T)` = subclass, `isinstance(self.default, T)` = instance) and what the branch returns (`s`, `T(s)`,
  `self.type(s)`, or the standard body of the class); the normalisation chain and literals of the bool tests, the
  `try/except` chain of the enum branch, the separators and `strip` calls of the mapping / iterable branches;
* the assignments of `ConfigValue.__init__` and `__set_name__` (which attribute gets which parameter, `type(default)`, the
  module-path fallback of the prefix);
* the slot attribute (`"_" + self.name`) read by `__get__`, written by `__set__`, removed by `__delete__`;
* what `ConfigMeta.to_dict` collects and whether `update` returns it;
* the order of the sources in `ConfigValue.__get__` and that each is guarded by `is not None`;
* the format of `ConfigValue.env_var`;
* whether the unknown-name branch of `ConfigMeta.update` contains a `raise`;
* that `__set__` / `__delete__` write / remove the same underscore slot `__get__` reads;
* the name test of the `config` decorator (which attributes of the decorated class become `ConfigValue` descriptors:
  the conjuncts `n.isupper()`, `not n.startswith("_")`), what it carries over from an attribute that already is a
  `ConfigValue(...)`, and that the selected names go to a metaclass deriving from `ConfigMeta` with the decorator's prefix.

The data is written to `lean/PyrollModel/Gen/C20.lean`; the hand-written model `PyrollModel/Config.lean` is an interpreter
of that data and the theorems of `PyrollProps/C20.lean` are proved about the interpreter applied to the generated data, so
a reordered branch / dropped `raise` / dropped `.strip()` changes the generated file and the theorem that no longer follows
stops building.  Only whitelisted AST shapes are accepted; anything else raises `Gap` (-> broken tie, generated file kept).
"""
import ast
import os

STR_OPS = ("lower", "upper", "strip")


class Gap(Exception):
    pass


def _src(node):
    try:
        return ast.unparse(node)
    except Exception:  # pragma: no cover
        return ast.dump(node)


def _is_self_attr(node, attr):
    return isinstance(node, ast.Attribute) and isinstance(node.value, ast.Name) and node.value.id == "self" \
        and node.attr == attr


def _chain(node, base):
    """`base.op1().op2()` -> ["op1", "op2"] (application order); None if not of that shape"""
    ops = []
    while True:
        if isinstance(node, ast.Name) and node.id == base:
            return list(reversed(ops))
        if isinstance(node, ast.Call) and not node.args and not node.keywords and isinstance(node.func, ast.Attribute) \
                and node.func.attr in STR_OPS:
            ops.append(node.func.attr)
            node = node.func.value
            continue
        return None


def _split(node, base):
    """`<chain on base>.split("<c>")` -> (ops, c)"""
    if isinstance(node, ast.Call) and isinstance(node.func, ast.Attribute) and node.func.attr == "split" \
            and len(node.args) == 1 and not node.keywords and isinstance(node.args[0], ast.Constant) \
            and isinstance(node.args[0].value, str) and len(node.args[0].value) == 1:
        ops = _chain(node.func.value, base)
        if ops is not None:
            return ops, node.args[0].value
    raise Gap(f"not a split of {base}: {_src(node)}")


def _exc_name(node):
    """`raise X(...)` / `raise X` -> "X" """
    if isinstance(node, ast.Raise) and node.exc is not None:
        e = node.exc
        if isinstance(e, ast.Call):
            e = e.func
        if isinstance(e, ast.Name):
            return e.id
    return None


DISPATCH = {"bool": "bool", "Path": "path", "str": "str", "int": "int", "Enum": "enum", "Mapping": "mapping",
            "Iterable": "iterable"}


def _class_name(c):
    return c.attr if isinstance(c, ast.Attribute) else c.id if isinstance(c, ast.Name) else None


def _branch_of_test(test):
    """-> (dispatch class, kind of test)"""
    if _is_self_attr(test, "parser"):
        return "custom", "truthy"
    if isinstance(test, ast.Compare) and len(test.ops) == 1 and isinstance(test.ops[0], ast.IsNot) \
            and _is_self_attr(test.left, "parser") and isinstance(test.comparators[0], ast.Constant) \
            and test.comparators[0].value is None:
        return "custom", "truthy"
    if isinstance(test, ast.Compare) and len(test.ops) == 1 and isinstance(test.ops[0], (ast.Is, ast.Eq)) \
            and _is_self_attr(test.left, "type"):
        n = _class_name(test.comparators[0])
        if n in DISPATCH:
            return DISPATCH[n], "identity"
    if isinstance(test, ast.Call) and isinstance(test.func, ast.Name) and len(test.args) == 2 and not test.keywords:
        n = _class_name(test.args[1])
        if test.func.id == "issubclass" and _is_self_attr(test.args[0], "type") and n in DISPATCH:
            return DISPATCH[n], "subclass"
        if test.func.id == "isinstance" and _is_self_attr(test.args[0], "default") and n in DISPATCH:
            return DISPATCH[n], "instance"
    raise Gap(f"parse: unknown branch test `{_src(test)}`")


CTOR_NAME = {"path": "Path", "str": "str", "int": "int"}


def _plain_body(body, cls):
    """the body of a path / str / int branch: `return s` | `return T(s)` | `return self.type(s)`"""
    r = _single_return(body, cls + " branch")
    if isinstance(r, ast.Name) and r.id == "s":
        if cls != "str":
            raise Gap(f"{cls} branch: returns the text itself")
        return "text"
    if isinstance(r, ast.Call) and len(r.args) == 1 and not r.keywords and isinstance(r.args[0], ast.Name) \
            and r.args[0].id == "s":
        if isinstance(r.func, ast.Name) and r.func.id == CTOR_NAME[cls]:
            return "named"
        if _is_self_attr(r.func, "type"):
            return "selfType"
    raise Gap(f"{cls} branch: `{_src(r)}`")


def _single_return(body, what):
    if len(body) == 1 and isinstance(body[0], ast.Return) and body[0].value is not None:
        return body[0].value
    raise Gap(f"{what}: expected a single `return <expr>`, got `{'; '.join(_src(b) for b in body)}`")


def _type_call(node, what):
    """`self.type(<arg>)` -> arg"""
    if isinstance(node, ast.Call) and _is_self_attr(node.func, "type") and len(node.args) == 1 and not node.keywords:
        return node.args[0]
    raise Gap(f"{what}: expected `self.type(<arg>)`, got `{_src(node)}`")


def _bool_branch(body):
    """if <chain(s)> == "lit": return True / elif …: return False / raise ValueError"""
    tests = []
    else_err = None

    def walk(stmts):
        nonlocal else_err
        for st in stmts:
            if isinstance(st, ast.If):
                t = st.test
                if not (isinstance(t, ast.Compare) and len(t.ops) == 1 and isinstance(t.ops[0], ast.Eq)
                        and isinstance(t.comparators[0], ast.Constant) and isinstance(t.comparators[0].value, str)):
                    raise Gap(f"bool branch: unknown test `{_src(t)}`")
                ops = _chain(t.left, "s")
                if ops is None:
                    raise Gap(f"bool branch: unknown normalisation `{_src(t.left)}`")
                r = _single_return(st.body, "bool branch")
                if not (isinstance(r, ast.Constant) and isinstance(r.value, bool)):
                    raise Gap(f"bool branch: returns `{_src(r)}`")
                tests.append((ops, t.comparators[0].value, r.value))
                walk(st.orelse)
            elif isinstance(st, ast.Raise):
                else_err = _exc_name(st)
                if else_err is None:
                    raise Gap(f"bool branch: `{_src(st)}`")
            else:
                raise Gap(f"bool branch: unknown statement `{_src(st)}`")
    walk(body)
    if else_err is None:
        raise Gap("bool branch: falls through without `raise` (unparseable text would not raise)")
    return tests, else_err


def _enum_attempt(expr):
    """`self.type(int(s))` -> ("byNumber",) ; `self.type[<chain(s)>]` -> ("byName", ops)"""
    if isinstance(expr, ast.Call) and _is_self_attr(expr.func, "type"):
        a = _type_call(expr, "enum branch")
        if isinstance(a, ast.Call) and isinstance(a.func, ast.Name) and a.func.id == "int" and len(a.args) == 1 \
                and isinstance(a.args[0], ast.Name) and a.args[0].id == "s":
            return ("byNumber",)
    if isinstance(expr, ast.Subscript) and _is_self_attr(expr.value, "type"):
        ops = _chain(expr.slice, "s")
        if ops is not None:
            return ("byName", ops)
    raise Gap(f"enum branch: unknown lookup `{_src(expr)}`")


def _enum_branch(body):
    """try: return A  except E1: (return B | try: …)   -> [A, B, …] ; each handler must catch what the attempt raises"""
    attempts = []
    while True:
        if len(body) == 1 and isinstance(body[0], ast.Return):
            attempts.append(_enum_attempt(body[0].value))
            return attempts
        if len(body) == 1 and isinstance(body[0], ast.Try) and len(body[0].handlers) == 1 and not body[0].orelse \
                and not body[0].finalbody:
            tr = body[0]
            att = _enum_attempt(_single_return(tr.body, "enum branch"))
            h = tr.handlers[0]
            caught = h.type.id if isinstance(h.type, ast.Name) else None
            need = "ValueError" if att[0] == "byNumber" else "KeyError"
            if caught != need:
                raise Gap(f"enum branch: attempt `{_src(tr.body[0])}` raises {need} but the handler catches {caught}")
            attempts.append(att)
            body = h.body
            continue
        raise Gap(f"enum branch: unknown shape `{'; '.join(_src(b) for b in body)}`")


def _iterable_branch(body):
    """return self.type(<chain(p)> for p in s.split(","))"""
    g = _type_call(_single_return(body, "iterable branch"), "iterable branch")
    if not (isinstance(g, ast.GeneratorExp) and len(g.generators) == 1 and not g.generators[0].ifs
            and isinstance(g.generators[0].target, ast.Name)):
        raise Gap(f"iterable branch: `{_src(g)}`")
    var = g.generators[0].target.id
    pre, sep = _split(g.generators[0].iter, "s")
    if pre:
        raise Gap("iterable branch: text normalised before split")
    ops = _chain(g.elt, var)
    if ops is None:
        raise Gap(f"iterable branch: item expression `{_src(g.elt)}`")
    return sep, ops


def _mapping_branch(body):
    """return self.type((<chain(p2)> for p2 in <chain(p)>.split("=")) for p in s.split(","))"""
    g = _type_call(_single_return(body, "mapping branch"), "mapping branch")
    if not (isinstance(g, ast.GeneratorExp) and len(g.generators) == 1 and not g.generators[0].ifs
            and isinstance(g.generators[0].target, ast.Name)):
        raise Gap(f"mapping branch: `{_src(g)}`")
    var = g.generators[0].target.id
    pre, sep = _split(g.generators[0].iter, "s")
    if pre:
        raise Gap("mapping branch: text normalised before split")
    inner = g.elt
    if not (isinstance(inner, ast.GeneratorExp) and len(inner.generators) == 1 and not inner.generators[0].ifs
            and isinstance(inner.generators[0].target, ast.Name)):
        raise Gap(f"mapping branch: pair expression `{_src(inner)}`")
    var2 = inner.generators[0].target.id
    pair_ops, kvsep = _split(inner.generators[0].iter, var)
    part_ops = _chain(inner.elt, var2)
    if part_ops is None:
        raise Gap(f"mapping branch: part expression `{_src(inner.elt)}`")
    return sep, kvsep, pair_ops, part_ops


def _methods(cls):
    return {n.name: n for n in cls.body if isinstance(n, ast.FunctionDef)}


def _strip_doc(body):
    if body and isinstance(body[0], ast.Expr) and isinstance(body[0].value, ast.Constant) \
            and isinstance(body[0].value.value, str):
        return body[1:]
    return body


def _slot_expr(node):
    """`"<prefix>" + self.name` -> prefix (a non-empty text) | None"""
    if isinstance(node, ast.BinOp) and isinstance(node.op, ast.Add) and isinstance(node.left, ast.Constant) \
            and isinstance(node.left.value, str) and node.left.value and _is_self_attr(node.right, "name"):
        return node.left.value
    return None


def _not_none_guard(st, var):
    return isinstance(st, ast.If) and not st.orelse and isinstance(st.test, ast.Compare) and len(st.test.ops) == 1 \
        and isinstance(st.test.ops[0], ast.IsNot) and isinstance(st.test.left, ast.Name) and st.test.left.id == var \
        and isinstance(st.test.comparators[0], ast.Constant) and st.test.comparators[0].value is None


def _get(fn):
    """-> (order of the sources, slot prefix read)"""
    body = _strip_doc(fn.body)
    inst = fn.args.args[1].arg
    order = []
    slot = None
    i = 0
    # leading `if instance is None: return self` (class-level access returns the descriptor) is not a source
    if body and isinstance(body[0], ast.If) and isinstance(body[0].test, ast.Compare) \
            and isinstance(body[0].test.ops[0], ast.Is) and isinstance(body[0].test.left, ast.Name) \
            and body[0].test.left.id == inst and isinstance(body[0].body[0], ast.Return) \
            and isinstance(body[0].body[0].value, ast.Name) and body[0].body[0].value.id == "self" and not body[0].orelse:
        i = 1
    while i < len(body):
        st = body[i]
        if isinstance(st, ast.Return):
            if _is_self_attr(st.value, "default"):
                order.append("default")
                if i != len(body) - 1:
                    raise Gap("__get__: statements after `return self.default`")
                if "explicit" in order and slot is None:
                    raise Gap("__get__: slot of the explicit value not recognised")
                return order, slot or "_"
            raise Gap(f"__get__: `{_src(st)}`")
        if isinstance(st, ast.Assign) and len(st.targets) == 1 and isinstance(st.targets[0], ast.Name) \
                and isinstance(st.value, ast.Call) and i + 1 < len(body):
            var = st.targets[0].id
            call = st.value
            guard = body[i + 1]
            if not _not_none_guard(guard, var):
                raise Gap(f"__get__: the source `{_src(st)}` is not guarded by `if {var} is not None:` but by "
                          f"`{_src(guard).splitlines()[0]}` (falsy values would not be honoured)")
            ret = _single_return(guard.body, "__get__")
            if isinstance(call.func, ast.Name) and call.func.id == "getattr" and len(call.args) == 3 \
                    and isinstance(call.args[0], ast.Name) and call.args[0].id == inst \
                    and _slot_expr(call.args[1]) is not None \
                    and isinstance(call.args[2], ast.Constant) and call.args[2].value is None:
                if not (isinstance(ret, ast.Name) and ret.id == var):
                    raise Gap(f"__get__: explicit value returned as `{_src(ret)}`")
                order.append("explicit")
                slot = _slot_expr(call.args[1])
            elif isinstance(call.func, ast.Attribute) and call.func.attr == "getenv" \
                    and isinstance(call.func.value, ast.Name) and call.func.value.id == "os" and len(call.args) in (1, 2) \
                    and _is_self_attr(call.args[0], "env_var") \
                    and (len(call.args) == 1 or (isinstance(call.args[1], ast.Constant) and call.args[1].value is None)):
                if not (isinstance(ret, ast.Call) and _is_self_attr(ret.func, "parse") and len(ret.args) == 1
                        and isinstance(ret.args[0], ast.Name) and ret.args[0].id == var):
                    raise Gap(f"__get__: environment text returned as `{_src(ret)}`")
                order.append("env")
            else:
                raise Gap(f"__get__: unknown source `{_src(st)}`")
            i += 2
            continue
        raise Gap(f"__get__: unknown statement `{_src(st)}`")
    raise Gap("__get__: falls off the end without `return self.default`")


def _env_var(fn):
    body = _strip_doc(fn.body)
    if len(body) != 2:
        raise Gap("env_var: expected `if self._env_var: return self._env_var` + `return f\"…\"`")
    g, r = body
    if not (isinstance(g, ast.If) and _is_self_attr(g.test, "_env_var") and not g.orelse
            and _is_self_attr(_single_return(g.body, "env_var"), "_env_var")):
        raise Gap(f"env_var: override guard `{_src(g)}`")
    if not (isinstance(r, ast.Return) and isinstance(r.value, ast.JoinedStr) and len(r.value.values) == 3):
        raise Gap(f"env_var: `{_src(r)}`")
    a, sep, b = r.value.values
    if not (isinstance(a, ast.FormattedValue) and _is_self_attr(a.value, "_env_var_prefix")
            and isinstance(sep, ast.Constant) and isinstance(sep.value, str) and isinstance(b, ast.FormattedValue)):
        raise Gap(f"env_var: `{_src(r)}`")
    node = b.value
    ops = []
    while isinstance(node, ast.Call) and not node.args and isinstance(node.func, ast.Attribute) \
            and node.func.attr in STR_OPS:
        ops.append(node.func.attr)
        node = node.func.value
    if not _is_self_attr(node, "name"):
        raise Gap(f"env_var: name part `{_src(b.value)}`")
    return sep.value, list(reversed(ops))


def _update(fn):
    """for n, v in d.items(): cv = type(cls).__dict__.get(n, None); if isinstance(cv, ConfigValue): setattr(cls, n, v)
    else: <raise X(...) | X(...)>  [return cls.to_dict()]   -> (raises, error class, returns to_dict())"""
    body = _strip_doc(fn.body)
    loops = [s for s in body if isinstance(s, ast.For)]
    if len(loops) != 1:
        raise Gap("update: expected one for loop")
    loop = loops[0]
    cls = fn.args.args[0].arg
    rest = [s for s in body if s is not loop]
    returns = False
    if rest:
        r = rest[0]
        if not (len(rest) == 1 and body[-1] is r and isinstance(r, ast.Return) and isinstance(r.value, ast.Call)
                and not r.value.args and not r.value.keywords and _is_attr_of(r.value.func, cls, "to_dict")):
            raise Gap(f"update: unknown statement `{_src(r)}` (expected `return {cls}.to_dict()`)")
        returns = True
    if not (isinstance(loop.target, ast.Tuple) and len(loop.target.elts) == 2 and not loop.orelse):
        raise Gap("update: loop target")
    n, v = (e.id for e in loop.target.elts)
    if len(loop.body) != 2 or not isinstance(loop.body[0], ast.Assign) or not isinstance(loop.body[1], ast.If):
        raise Gap(f"update: loop body `{'; '.join(_src(b) for b in loop.body)}`")
    cond = loop.body[1]
    t = cond.test
    if not (isinstance(t, ast.Call) and isinstance(t.func, ast.Name) and t.func.id == "isinstance"
            and isinstance(t.args[1], ast.Name) and t.args[1].id == "ConfigValue"):
        raise Gap(f"update: test `{_src(t)}`")
    if not (len(cond.body) == 1 and isinstance(cond.body[0], ast.Expr) and isinstance(cond.body[0].value, ast.Call)
            and isinstance(cond.body[0].value.func, ast.Name) and cond.body[0].value.func.id == "setattr"
            and [getattr(a, "id", None) for a in cond.body[0].value.args] == [cls, n, v]):
        raise Gap(f"update: known-name branch `{'; '.join(_src(b) for b in cond.body)}`")
    if len(cond.orelse) != 1:
        raise Gap(f"update: unknown-name branch `{'; '.join(_src(b) for b in cond.orelse)}`")
    o = cond.orelse[0]
    if isinstance(o, ast.Raise):
        name = _exc_name(o)
        if name is None:
            raise Gap(f"update: `{_src(o)}`")
        return True, name, returns
    if isinstance(o, ast.Expr) and isinstance(o.value, ast.Call) and isinstance(o.value.func, ast.Name):
        return False, o.value.func.id, returns       # exception object constructed, never raised
    raise Gap(f"update: unknown-name branch `{_src(o)}`")


def _to_dict(fn):
    """return {n: v for n, v in type(cls).__dict__.items() if isinstance(v, ConfigValue)}  -> what is stored under a name"""
    body = _strip_doc(fn.body)
    cls = fn.args.args[0].arg
    r = _single_return(body, "to_dict")
    ok = isinstance(r, ast.DictComp) and len(r.generators) == 1 and isinstance(r.generators[0].target, ast.Tuple) \
        and len(r.generators[0].target.elts) == 2 and all(isinstance(e, ast.Name) for e in r.generators[0].target.elts)
    if not ok:
        raise Gap(f"to_dict: `{_src(r)}`")
    g = r.generators[0]
    n, v = (e.id for e in g.target.elts)
    it = g.iter
    ok = isinstance(it, ast.Call) and not it.args and isinstance(it.func, ast.Attribute) and it.func.attr == "items" \
        and isinstance(it.func.value, ast.Attribute) and it.func.value.attr == "__dict__" \
        and isinstance(it.func.value.value, ast.Call) and _is_name(it.func.value.value.func, "type") \
        and len(it.func.value.value.args) == 1 and _is_name(it.func.value.value.args[0], cls)
    if not ok:
        raise Gap(f"to_dict: iterates over `{_src(it)}` (expected `type({cls}).__dict__.items()`)")
    if not (len(g.ifs) == 1 and isinstance(g.ifs[0], ast.Call) and _is_name(g.ifs[0].func, "isinstance")
            and len(g.ifs[0].args) == 2 and _is_name(g.ifs[0].args[0], v) and _is_name(g.ifs[0].args[1], "ConfigValue")):
        raise Gap(f"to_dict: filter `{'; '.join(_src(i) for i in g.ifs)}` (expected `isinstance({v}, ConfigValue)`)")
    if not _is_name(r.key, n):
        raise Gap(f"to_dict: key `{_src(r.key)}`")
    if _is_name(r.value, v):
        return "descriptor"
    raise Gap(f"to_dict: value `{_src(r.value)}`")


INIT_ATTRS = {"default": "default", "type": "type", "parser": "parser", "_env_var": "envVar", "_env_var_prefix": "envPrefix",
              "owner": "owner", "name": "name"}


def _self_store(st, what):
    """`self.<attr> = <expr>` -> (attr, expr)"""
    if isinstance(st, ast.Assign) and len(st.targets) == 1 and isinstance(st.targets[0], ast.Attribute) \
            and _is_name(st.targets[0].value, "self") and st.targets[0].attr in INIT_ATTRS:
        return INIT_ATTRS[st.targets[0].attr], st.value
    raise Gap(f"{what}: unknown statement `{_src(st)}`")


def _init(fn):
    """self.default = default; self.type = type(default); self.parser = parser; self._env_var = env_var;
    self._env_var_prefix = env_var_prefix   -> [(attribute, source)]"""
    a = fn.args
    params = [x.arg for x in a.args[1:]] + [x.arg for x in a.kwonlyargs]
    if a.args[0].arg != "self" or sorted(params) != sorted(["default", "env_var", "env_var_prefix", "parser"]) or a.vararg \
            or a.kwarg:
        raise Gap(f"__init__: parameters {params}")
    src_of = {"default": "argDefault", "parser": "argParser", "env_var": "argEnvVar", "env_var_prefix": "argEnvPrefix"}
    typed = {"argDefault": "default", "argParser": "parser", "argEnvVar": "envVar", "argEnvPrefix": "envPrefix"}
    stores = []
    for st in _strip_doc(fn.body):
        attr, e = _self_store(st, "__init__")
        if isinstance(e, ast.Name) and e.id in src_of:
            src = src_of[e.id]
            if typed[src] != attr:
                raise Gap(f"__init__: `{_src(st)}` stores the parameter {e.id} as {attr}")
        elif isinstance(e, ast.Call) and _is_name(e.func, "type") and len(e.args) == 1 and not e.keywords \
                and _is_name(e.args[0], "default") and attr == "type":
            src = "typeOfDefault"
        else:
            raise Gap(f"__init__: `{_src(st)}`")
        if attr in [x for x, _ in stores]:
            raise Gap(f"__init__: {attr} assigned twice")
        stores.append((attr, src))
    return stores


def _set_name(fn):
    """self.owner = owner; self.name = name; if not self._env_var_prefix: self._env_var_prefix = <chain>(self.owner.__module__)
    -> ([(attribute, source)], fallback present, normalisation chain)"""
    params = [x.arg for x in fn.args.args]
    if params != ["self", "owner", "name"]:
        raise Gap(f"__set_name__: parameters {params}")
    stores, fallback, norm = [], False, []
    for st in _strip_doc(fn.body):
        if isinstance(st, ast.If):
            t = st.test
            if not (isinstance(t, ast.UnaryOp) and isinstance(t.op, ast.Not) and _is_self_attr(t.operand, "_env_var_prefix")
                    and not st.orelse and len(st.body) == 1) or fallback:
                raise Gap(f"__set_name__: `{_src(st).splitlines()[0]}`")
            attr, e = _self_store(st.body[0], "__set_name__")
            if attr != "envPrefix":
                raise Gap(f"__set_name__: `{_src(st.body[0])}`")
            ops = []
            while isinstance(e, ast.Call) and isinstance(e.func, ast.Attribute):
                m = e.func.attr
                if m in STR_OPS and not e.args and not e.keywords:
                    ops.append(("op", m))
                elif m == "replace" and len(e.args) == 2 and not e.keywords \
                        and all(isinstance(x, ast.Constant) and isinstance(x.value, str) and len(x.value) == 1 for x in e.args):
                    ops.append(("replace", e.args[0].value, e.args[1].value))
                else:
                    raise Gap(f"__set_name__: prefix fallback `{_src(st.body[0])}`")
                e = e.func.value
            if not (isinstance(e, ast.Attribute) and e.attr == "__module__" and _is_self_attr(e.value, "owner")):
                raise Gap(f"__set_name__: prefix fallback is not derived from self.owner.__module__: `{_src(st.body[0])}`")
            fallback, norm = True, list(reversed(ops))
            continue
        attr, e = _self_store(st, "__set_name__")
        if attr == "owner" and _is_name(e, "owner"):
            stores.append(("owner", "argOwner"))
        elif attr == "name" and _is_name(e, "name"):
            stores.append(("name", "argName"))
        else:
            raise Gap(f"__set_name__: `{_src(st)}`")
    if fallback and ("owner", "argOwner") not in stores:
        raise Gap("__set_name__: the prefix fallback reads self.owner, which is not assigned")
    return stores, fallback, norm


def _set_delete(ms):
    """-> (slot prefix written by __set__, slot prefix removed by __delete__)"""
    out = []
    for name, fname, nargs in (("__set__", "setattr", 3), ("__delete__", "delattr", 2)):
        fn = ms.get(name)
        if fn is None:
            raise Gap(f"ConfigValue.{name} missing")
        body = _strip_doc(fn.body)
        ok = len(body) == 1 and isinstance(body[0], ast.Expr) and isinstance(body[0].value, ast.Call) \
            and isinstance(body[0].value.func, ast.Name) and body[0].value.func.id == fname \
            and len(body[0].value.args) == nargs and isinstance(body[0].value.args[0], ast.Name) \
            and body[0].value.args[0].id == fn.args.args[1].arg and _slot_expr(body[0].value.args[1]) is not None
        if ok and nargs == 3:
            ok = isinstance(body[0].value.args[2], ast.Name) and body[0].value.args[2].id == fn.args.args[2].arg
        if not ok:
            raise Gap(f"{name}: expected `{fname}(instance, \"_\" + self.name…)`, got `{'; '.join(_src(b) for b in body)}`")
        out.append(_slot_expr(body[0].value.args[1]))
    return out


def _is_name(node, ident):
    return isinstance(node, ast.Name) and node.id == ident


def _name_test(t, n):
    """one conjunct of the decorator's test on the attribute name `n`"""
    if isinstance(t, ast.Call) and not t.args and not t.keywords and isinstance(t.func, ast.Attribute) \
            and t.func.attr == "isupper" and _is_name(t.func.value, n):
        return ("isUpper",)
    if isinstance(t, ast.UnaryOp) and isinstance(t.op, ast.Not):
        c = t.operand
        if isinstance(c, ast.Call) and len(c.args) == 1 and not c.keywords and isinstance(c.func, ast.Attribute) \
                and c.func.attr == "startswith" and _is_name(c.func.value, n) and isinstance(c.args[0], ast.Constant) \
                and isinstance(c.args[0].value, str) and c.args[0].value:
            return ("notStartsWith", c.args[0].value)
    raise Gap(f"config decorator: unknown test on the attribute name `{_src(t)}` (expected `{n}.isupper()` / "
              f"`not {n}.startswith(\"…\")`)")


def _cv_call(st, target_dict, n, what):
    """`<target_dict>[n] = ConfigValue(k=…, …)` -> {keyword: value node}"""
    if not (isinstance(st, ast.Assign) and len(st.targets) == 1 and isinstance(st.targets[0], ast.Subscript)
            and _is_name(st.targets[0].value, target_dict) and _is_name(st.targets[0].slice, n)
            and isinstance(st.value, ast.Call) and _is_name(st.value.func, "ConfigValue") and not st.value.args
            and all(k.arg for k in st.value.keywords)):
        raise Gap(f"config decorator: {what}: expected `{target_dict}[{n}] = ConfigValue(default=…, …)`, got `{_src(st)}`")
    return {k.arg: k.value for k in st.value.keywords}


def _is_attr_of(node, base, attr):
    return isinstance(node, ast.Attribute) and node.attr == attr and _is_name(node.value, base)


def _decorator(fn):
    """def config(prefix): def dec(cls): meta_dict = {}; cls_dict = dict(cls.__dict__)
         for n, v in cls.__dict__.items():
             if <name tests>: del cls_dict[n]; if not isinstance(v, ConfigValue): meta_dict[n] = ConfigValue(default=v,
             env_var_prefix=prefix) else: meta_dict[n] = ConfigValue(default=v.default, env_var_prefix=prefix, env_var=v._env_var,
             parser=v.parser)
         meta = type(…, (ConfigMeta,), meta_dict); cls = meta(cls.__name__, cls.__bases__, cls_dict); return cls
       return dec
    -> (name tests, fields kept from a wrapped ConfigValue)"""
    if len(fn.args.args) != 1:
        raise Gap("config decorator: expected one parameter (the prefix)")
    prefix = fn.args.args[0].arg
    body = _strip_doc(fn.body)
    if not (len(body) == 2 and isinstance(body[0], ast.FunctionDef) and isinstance(body[1], ast.Return)
            and _is_name(body[1].value, body[0].name) and len(body[0].args.args) == 1 and not body[0].decorator_list):
        raise Gap("config decorator: expected `def dec(cls): …` + `return dec`")
    dec = body[0]
    cls = dec.args.args[0].arg
    dbody = _strip_doc(dec.body)
    loops = [i for i, s in enumerate(dbody) if isinstance(s, ast.For)]
    if len(loops) != 1:
        raise Gap("config decorator: expected one loop over the class attributes")
    pre, loop, post = dbody[:loops[0]], dbody[loops[0]], dbody[loops[0] + 1:]
    # before the loop: `meta_dict = {}` and `cls_dict = dict(cls.__dict__)` (any order)
    meta_dict = cls_dict = None
    for st in pre:
        if isinstance(st, ast.Assign) and len(st.targets) == 1 and isinstance(st.targets[0], ast.Name):
            if isinstance(st.value, ast.Dict) and not st.value.keys:
                meta_dict = st.targets[0].id
                continue
            if isinstance(st.value, ast.Call) and _is_name(st.value.func, "dict") and len(st.value.args) == 1 \
                    and not st.value.keywords and _is_attr_of(st.value.args[0], cls, "__dict__"):
                cls_dict = st.targets[0].id
                continue
        raise Gap(f"config decorator: unknown statement `{_src(st)}`")
    if meta_dict is None or cls_dict is None:
        raise Gap("config decorator: `meta_dict = {}` / `cls_dict = dict(cls.__dict__)` not found")
    # the loop
    it = loop.iter
    if not (isinstance(loop.target, ast.Tuple) and len(loop.target.elts) == 2
            and all(isinstance(e, ast.Name) for e in loop.target.elts) and not loop.orelse
            and isinstance(it, ast.Call) and not it.args and isinstance(it.func, ast.Attribute) and it.func.attr == "items"
            and _is_attr_of(it.func.value, cls, "__dict__")):
        raise Gap(f"config decorator: expected `for n, v in {cls}.__dict__.items():`, got `{_src(loop).splitlines()[0]}`")
    n, v = (e.id for e in loop.target.elts)
    if not (len(loop.body) == 1 and isinstance(loop.body[0], ast.If) and not loop.body[0].orelse):
        raise Gap("config decorator: expected a single `if <name test>:` in the loop")
    sel = loop.body[0]
    conj = sel.test.values if isinstance(sel.test, ast.BoolOp) and isinstance(sel.test.op, ast.And) else [sel.test]
    tests = [_name_test(t, n) for t in conj]
    sb = sel.body
    if not (len(sb) == 2 and isinstance(sb[0], ast.Delete) and len(sb[0].targets) == 1
            and isinstance(sb[0].targets[0], ast.Subscript) and _is_name(sb[0].targets[0].value, cls_dict)
            and _is_name(sb[0].targets[0].slice, n) and isinstance(sb[1], ast.If) and len(sb[1].body) == 1
            and len(sb[1].orelse) == 1):
        raise Gap(f"config decorator: expected `del {cls_dict}[{n}]` + `if [not] isinstance({v}, ConfigValue): … else: …`")
    t = sb[1].test
    negated = isinstance(t, ast.UnaryOp) and isinstance(t.op, ast.Not)
    if negated:
        t = t.operand
    if not (isinstance(t, ast.Call) and _is_name(t.func, "isinstance") and len(t.args) == 2 and _is_name(t.args[0], v)
            and _is_name(t.args[1], "ConfigValue")):
        raise Gap(f"config decorator: unknown test `{_src(sb[1].test)}`")
    plain_st, wrapped_st = (sb[1].body[0], sb[1].orelse[0]) if negated else (sb[1].orelse[0], sb[1].body[0])
    kw = _cv_call(plain_st, meta_dict, n, "plain attribute")
    if not (set(kw) == {"default", "env_var_prefix"} and _is_name(kw["default"], v)
            and _is_name(kw["env_var_prefix"], prefix)):
        raise Gap(f"config decorator: plain attribute: expected `ConfigValue(default={v}, env_var_prefix={prefix})`, got "
                  f"`{_src(plain_st.value)}`")
    kw = _cv_call(wrapped_st, meta_dict, n, "ConfigValue attribute")
    if not ("default" in kw and _is_attr_of(kw["default"], v, "default") and "env_var_prefix" in kw
            and _is_name(kw["env_var_prefix"], prefix)):
        raise Gap(f"config decorator: ConfigValue attribute: default / prefix not carried over in `{_src(wrapped_st.value)}`")
    keeps = []
    for k, node in kw.items():
        if k in ("default", "env_var_prefix"):
            continue
        if k == "env_var" and _is_attr_of(node, v, "_env_var"):
            keeps.append("envVar")
        elif k == "parser" and _is_attr_of(node, v, "parser"):
            keeps.append("parser")
        else:
            raise Gap(f"config decorator: ConfigValue attribute: unknown keyword `{k}={_src(node)}`")
    # after the loop: the metaclass gets the selected names, the class the rest
    if not (len(post) == 3 and isinstance(post[0], ast.Assign) and isinstance(post[1], ast.Assign)
            and isinstance(post[2], ast.Return)):
        raise Gap("config decorator: expected `meta = type(…)`, `cls = meta(…)`, `return cls` after the loop")
    mt, ct, rt = post
    ok = len(mt.targets) == 1 and isinstance(mt.targets[0], ast.Name) and isinstance(mt.value, ast.Call) \
        and _is_name(mt.value.func, "type") and len(mt.value.args) == 3 and not mt.value.keywords \
        and isinstance(mt.value.args[1], ast.Tuple) and len(mt.value.args[1].elts) == 1 \
        and _is_name(mt.value.args[1].elts[0], "ConfigMeta") and _is_name(mt.value.args[2], meta_dict)
    if not ok:
        raise Gap(f"config decorator: metaclass creation `{_src(mt)}`")
    meta = mt.targets[0].id
    ok = len(ct.targets) == 1 and isinstance(ct.targets[0], ast.Name) and isinstance(ct.value, ast.Call) \
        and _is_name(ct.value.func, meta) and len(ct.value.args) == 3 and not ct.value.keywords \
        and _is_attr_of(ct.value.args[0], cls, "__name__") and _is_attr_of(ct.value.args[1], cls, "__bases__") \
        and _is_name(ct.value.args[2], cls_dict) and _is_name(rt.value, ct.targets[0].id)
    if not ok:
        raise Gap(f"config decorator: class creation `{_src(ct)}; {_src(rt)}`")
    return tests, keeps


def extract(path):
    tree = ast.parse(open(path).read())
    classes = {n.name: n for n in tree.body if isinstance(n, ast.ClassDef)}
    for c in ("ConfigValue", "ConfigMeta"):
        if c not in classes:
            raise Gap(f"class {c} not found in {path}")
    ms = _methods(classes["ConfigValue"])
    for m in ("parse", "__get__", "env_var"):
        if m not in ms:
            raise Gap(f"ConfigValue.{m} not found")
    data = {}
    # ---- parse -------------------------------------------------------------------------------------
    body = _strip_doc(ms["parse"].body)
    tests = []
    for st in body[:-1]:
        if not (isinstance(st, ast.If) and not st.orelse):
            raise Gap(f"parse: unknown statement `{_src(st).splitlines()[0]}`")
        b, kind = _branch_of_test(st.test)
        if b in ("path", "str", "int"):
            tests.append((b, kind, _plain_body(st.body, b)))
            continue
        if b in [t[0] for t in tests]:
            raise Gap(f"parse: branch {b} twice")
        tests.append((b, kind, "std"))
        if b == "custom":
            r = _single_return(st.body, "custom branch")
            if not (isinstance(r, ast.Call) and _is_self_attr(r.func, "parser") and len(r.args) == 1
                    and isinstance(r.args[0], ast.Name) and r.args[0].id == "s"):
                raise Gap(f"custom branch: `{_src(r)}`")
        elif b == "bool":
            data["boolTests"], data["boolElse"] = _bool_branch(st.body)
        elif b == "enum":
            data["enumLookups"] = _enum_branch(st.body)
        elif b == "mapping":
            data["mapSep"], data["mapKvSep"], data["mapPairNorm"], data["mapPartNorm"] = _mapping_branch(st.body)
        elif b == "iterable":
            data["listSep"], data["listItemNorm"] = _iterable_branch(st.body)
    last = body[-1]
    a = _type_call(_single_return([last], "parse fallback"), "parse fallback")
    if not (isinstance(a, ast.Name) and a.id == "s"):
        raise Gap(f"parse fallback: `{_src(last)}`")
    data["parseTests"] = tests
    data["parseOrder"] = [t[0] for t in tests]
    # branches that are absent get neutral data so that the file still builds (the theorems about them fail)
    data.setdefault("boolTests", [])
    data.setdefault("boolElse", "ValueError")
    data.setdefault("enumLookups", [])
    for k, dflt in (("mapSep", ","), ("mapKvSep", "="), ("mapPairNorm", []), ("mapPartNorm", []), ("listSep", ","),
                    ("listItemNorm", [])):
        data.setdefault(k, dflt)
    # ---- the rest ----------------------------------------------------------------------------------
    data["getOrder"], data["getSlot"] = _get(ms["__get__"])
    data["envSep"], data["envNameNorm"] = _env_var(ms["env_var"])
    data["setSlot"], data["delSlot"] = _set_delete(ms)
    for m in ("__init__", "__set_name__"):
        if m not in ms:
            raise Gap(f"ConfigValue.{m} not found")
    data["initStores"] = _init(ms["__init__"])
    data["setNameStores"], data["prefixFallback"], data["modulePrefixNorm"] = _set_name(ms["__set_name__"])
    mm = _methods(classes["ConfigMeta"])
    for m in ("update", "to_dict"):
        if m not in mm:
            raise Gap(f"ConfigMeta.{m} not found")
    data["toDictYield"] = _to_dict(mm["to_dict"])
    data["updateRaises"], data["updateErr"], data["updateReturnsToDict"] = _update(mm["update"])
    fns = {n.name: n for n in tree.body if isinstance(n, ast.FunctionDef)}
    if "config" not in fns:
        raise Gap("decorator `config` not found")
    data["nameTests"], data["wrappedKeeps"] = _decorator(fns["config"])
    return data


ERR = {"ValueError": ".valueError", "KeyError": ".keyError", "TypeError": ".typeError",
       "AttributeError": ".attributeError"}


def _ops(ops):
    return "[" + ", ".join("." + o for o in ops) + "]"


def _ops2(ops):
    """chains that may contain `.replace("a", "b")`"""
    return "[" + ", ".join("." + o[1] if o[0] == "op" else f".replace {_chr(o[1])} {_chr(o[2])}" for o in ops) + "]"


def _stores(st):
    return "[" + ", ".join(f"(.{a}, .{b})" for a, b in st) + "]"


def _chr(c):
    if 33 <= ord(c) <= 126 and c not in "'\\\"":
        return f"'{c}'"
    return f"(Char.ofNat {ord(c)})"


def _txt(s):
    return "[" + ", ".join(_chr(c) for c in s) + "]"


def lean_text(data, rel="pyroll/core/config.py"):
    bt = ", ".join(f"({_ops(o)}, {_txt(lit)}, {'true' if r else 'false'})" for (o, lit, r) in data["boolTests"])
    el = ", ".join(".byNumber" if a[0] == "byNumber" else f".byName {_ops(a[1])}" for a in data["enumLookups"])
    lines = [
        "import PyrollModel.ConfigBase",
        f"/- GENERATED by driver/translate/c20_config.py from {rel} of the repository's working tree on every run - do not edit. -/",
        "namespace Gen.C20",
        "open Config",
        "",
        "/-- the `if` branches of `ConfigValue.parse`, in source order: dispatch class, how `self.type` is tested against it, "
        "what the branch returns (what is left falls through to `self.type(s)`) -/",
        "def parseTests : List Test := [" + ", ".join(f"⟨.{b}, .{k}, .{r}⟩" for b, k, r in data["parseTests"]) + "]",
        "",
        "/-- bool branch: (string methods applied to the text, literal compared with, value returned), in source order -/",
        f"def boolTests : List (List StrOp × Text × Bool) := [{bt}]",
        "/-- … and what is raised when no test matches -/",
        f"def boolElse : Err := {ERR.get(data['boolElse'], '.other')}",
        "",
        "/-- enum branch: the `try … except …` chain of lookups -/",
        f"def enumLookups : List EnumLookup := [{el}]",
        "",
        "/-- mapping branch: `self.type((part_ops(p2) for p2 in pair_ops(p).split(kvSep)) for p in s.split(sep))` -/",
        f"def mapSep : Char := {_chr(data['mapSep'])}",
        f"def mapKvSep : Char := {_chr(data['mapKvSep'])}",
        f"def mapPairNorm : List StrOp := {_ops(data['mapPairNorm'])}",
        f"def mapPartNorm : List StrOp := {_ops(data['mapPartNorm'])}",
        "",
        "/-- iterable branch: `self.type(item_ops(p) for p in s.split(sep))` -/",
        f"def listSep : Char := {_chr(data['listSep'])}",
        f"def listItemNorm : List StrOp := {_ops(data['listItemNorm'])}",
        "",
        "/-- `ConfigValue.__get__`: the sources in the order they are consulted (each one guarded by `is not None`) -/",
        "def getOrder : List Source := [" + ", ".join("." + s for s in data["getOrder"]) + "]",
        "",
        "/-- the attribute holding the explicit value is `<slot> + self.name` on the config class: as read by `__get__`, "
        "written by `__set__`, removed by `__delete__` -/",
        f"def getSlot : Text := {_txt(data['getSlot'])}",
        f"def setSlot : Text := {_txt(data['setSlot'])}",
        f"def delSlot : Text := {_txt(data['delSlot'])}",
        "",
        "/-- `ConfigValue.__init__`: `self.<attribute> = <source>`, in source order -/",
        f"def initStores : List (CVAttr × InitSrc) := {_stores(data['initStores'])}",
        "",
        "/-- `ConfigValue.__set_name__`: `self.<attribute> = <parameter>` … -/",
        f"def setNameStores : List (CVAttr × InitSrc) := {_stores(data['setNameStores'])}",
        "/-- … and `if not self._env_var_prefix: self._env_var_prefix = <modulePrefixNorm>(self.owner.__module__)` -/",
        f"def prefixFallback : Bool := {'true' if data['prefixFallback'] else 'false'}",
        f"def modulePrefixNorm : List StrOp := {_ops2(data['modulePrefixNorm'])}",
        "",
        "/-- `ConfigValue.env_var`: `f\"{prefix}<envSep>{envNameNorm(name)}\"` unless an override is given -/",
        f"def envSep : Text := {_txt(data['envSep'])}",
        f"def envNameNorm : List StrOp := {_ops(data['envNameNorm'])}",
        "",
        "/-- `ConfigMeta.to_dict`: every `ConfigValue` of the metaclass' `__dict__` under its name, as … -/",
        f"def toDictYield : DictYield := .{data['toDictYield']}",
        "",
        "/-- `ConfigMeta.update`: does the unknown-name branch contain a `raise`, and of what; does it end with "
        "`return cls.to_dict()` -/",
        f"def updateRaises : Bool := {'true' if data['updateRaises'] else 'false'}",
        f"def updateErr : Err := {ERR.get(data['updateErr'], '.other')}",
        f"def updateReturnsToDict : Bool := {'true' if data['updateReturnsToDict'] else 'false'}",
        "",
        "/-- `config` decorator: an attribute `n` of the decorated class becomes a `ConfigValue` iff all of these hold -/",
        "def nameTests : List NameTest := [" + ", ".join(
            ".isUpper" if t[0] == "isUpper" else f".notStartsWith {_txt(t[1])}" for t in data["nameTests"]) + "]",
        "/-- … and an attribute that already is a `ConfigValue(...)` keeps (besides its default) -/",
        "def wrappedKeeps : List CVField := [" + ", ".join("." + k for k in data["wrappedKeeps"]) + "]",
        "",
        "end Gen.C20",
        "",
    ]
    return "\n".join(lines)


def emit(repo, lean_dir):
    """returns (data, changed)"""
    path = os.path.join(repo, "pyroll", "core", "config.py")
    data = extract(path)
    text = lean_text(data)
    out = os.path.join(lean_dir, "PyrollModel", "Gen", "C20.lean")
    old = open(out).read() if os.path.exists(out) else None
    if old != text:
        tmp = out + ".tmp%d" % os.getpid()
        with open(tmp, "w") as f:
            f.write(text)
        os.replace(tmp, out)
    return data, old != text
