"""(T) for C14: read the rotation machinery of pyroll-core with `ast` and describe, as DATA, everything the property depends on:

* `pyroll/core/rotator/hookimpls.py`
    - every function registered on `Rotator.rotation` (in registration = source order, with its tryfirst/trylast tier):
      its `if <classifier tests>: return <int>` alternatives -> `Rot.Rule`;
    - `Rotator.OutProfile.classifiers`: the always-added marks, whether the union builds a new set, the
      `if/elif rotation == n: add(mark)` chain -> `Rot.MarkSpec`;
    - `Rotator.OutProfile.cross_section`: the `rotate(<in cross-section>, angle=<rotation>, origin=(0, 0))` call -> `Rot.XsecSpec`;
* `pyroll/core/roll_pass/hookimpls/base_roll_pass.py`: the functions registered on `BaseRollPass.rotation` in order
  (`return Config.ROLL_PASS_AUTO_ROTATION` / the `detect_already_rotated` walk: guard conjuncts, value on a missing
  `prev`, the ordered `isinstance` tests with their return values, value when the walk is exhausted) -> `Rot.RotFn`, `Rot.WalkSpec`;
* `pyroll/core/roll_pass/base.py`: `rotator_factory` (truthiness guard, `rotation=… if … is not True else None`,
  `parent=roll_pass`) and its registration as pre-processor -> `Rot.FactorySpec`; whether it starts with
  `roll_pass.__cache__.pop("rotation", None)` (cached value of an earlier solve discarded) -> `Rot.CacheSpec`;
* `pyroll/core/rotator/rotator.py` (`next_roll_pass`), `pyroll/core/unit/unit.py` (`init_solve` hand-over),
  `pyroll/core/config.py` (default of the switch) -> `Rot.FlowSpec`, `autoDefault`;
* the object graph the walk navigates: `Unit.prev` (which exception without parent / for the first member, which member is
  returned) -> `Rot.PrevSpec`; `_SubUnitsList.__init__` / `.clear` of unit/unit.py (statement order: the underlying list operation
  and the loop that sets the members' parent) -> `Rot.ListOpsSpec`; `PassSequence.flatten` of sequence/sequence.py (the operations
  applied to a member that is a sequence, and their order relative to the installation of the new list) -> `Rot.FlattenSpec`.

Only whitelisted AST shapes are accepted; anything else raises `Gap` (-> broken tie; the generated file is left as it is).
The hand-written model `lean/PyrollModel/Rot.lean` is an interpreter of this data.
"""
import ast
import os


class Gap(Exception):
    pass


def _src(node):
    try:
        return ast.unparse(node)
    except Exception:  # pragma: no cover
        return ast.dump(node)


def _path(node):
    """`a.b.c` -> "a.b.c" (None if not a pure attribute chain on a name)"""
    parts = []
    while isinstance(node, ast.Attribute):
        parts.append(node.attr)
        node = node.value
    if isinstance(node, ast.Name):
        parts.append(node.id)
        return ".".join(reversed(parts))
    return None


def _parse(repo, rel):
    path = os.path.join(repo, "pyroll", "core", rel)
    with open(path) as f:
        return ast.parse(f.read(), filename=path)


def _decorator(dec):
    """-> (path, tier) for `@A.b.c` / `@A.b.c(tryfirst=True)`; wrappers are outside the subset"""
    tier = 1
    if isinstance(dec, ast.Call):
        if dec.args:
            raise Gap(f"decorator with positional arguments: {_src(dec)}")
        for kw in dec.keywords:
            if not isinstance(kw.value, ast.Constant) or not isinstance(kw.value.value, bool):
                raise Gap(f"decorator keyword is not a literal: {_src(dec)}")
            if kw.arg == "tryfirst" and kw.value.value:
                tier = 0
            elif kw.arg == "trylast" and kw.value.value:
                tier = 2
            elif kw.arg == "wrapper" and kw.value.value:
                raise Gap(f"wrapper hook functions are outside the modelled subset: {_src(dec)}")
        dec = dec.func
    return _path(dec), tier


def _hook_functions(tree, hook_path):
    """functions decorated with `@<hook_path>` in source order -> [(FunctionDef, tier)]"""
    res = []
    for node in tree.body:
        if isinstance(node, ast.FunctionDef):
            for dec in node.decorator_list:
                p, tier = _decorator(dec)
                if p == hook_path:
                    res.append((node, tier))
    return res


def _strip_doc(body):
    if body and isinstance(body[0], ast.Expr) and isinstance(body[0].value, ast.Constant) \
            and isinstance(body[0].value.value, str):
        return body[1:]
    return body


# ---------------------------------------------------------------------------------------------------------------
# rule table
# ---------------------------------------------------------------------------------------------------------------
IN_CLS = "in_profile.classifiers"
NEXT_CLS = "next_roll_pass.classifiers"


def _cond(node, self_name):
    """classifier membership formula -> tuple form"""
    if isinstance(node, ast.BoolOp):
        op = "and" if isinstance(node.op, ast.And) else "or"
        parts = [_cond(v, self_name) for v in node.values]
        res = parts[0]
        for p in parts[1:]:
            res = (op, res, p)
        return res
    if isinstance(node, ast.UnaryOp) and isinstance(node.op, ast.Not):
        return ("not", _cond(node.operand, self_name))
    if isinstance(node, ast.Constant) and node.value is True:
        return ("tt",)
    if isinstance(node, ast.Compare) and len(node.ops) == 1 and isinstance(node.ops[0], (ast.In, ast.NotIn)) \
            and isinstance(node.left, ast.Constant) and isinstance(node.left.value, str):
        p = _path(node.comparators[0])
        if p == f"{self_name}.{IN_CLS}":
            c = ("inProfile", node.left.value)
        elif p == f"{self_name}.{NEXT_CLS}":
            c = ("nextPass", node.left.value)
        else:
            raise Gap(f"membership test on something else than in-profile / next-pass classifiers: {_src(node)}")
        return ("not", c) if isinstance(node.ops[0], ast.NotIn) else c
    raise Gap(f"rule guard outside the subset: {_src(node)}")


def _conj(a, b):
    if a == ("tt",):
        return b
    if b == ("tt",):
        return a
    return ("and", a, b)


def _alts(stmts, guard, self_name):
    """`if c: return n` trees -> [(cond, n)] in source order (first true alternative wins = python control flow,
    because every alternative ends in `return`)"""
    res = []
    for i, st in enumerate(stmts):
        if isinstance(st, ast.Return):
            v = st.value
            if isinstance(v, ast.Constant) and v.value is None:
                # explicit `return None` ends this path: later alternatives must not fire under this guard
                if guard != ("tt",) or i != len(stmts) - 1:
                    raise Gap("explicit `return None` in the middle of a rule")
                return res
            if not (isinstance(v, ast.Constant) and type(v.value) is int and v.value >= 0):
                raise Gap(f"rule returns something else than a non-negative integer literal: {_src(st)}")
            res.append((guard, v.value))
            if i != len(stmts) - 1:
                raise Gap("statements after `return`")
            return res
        if isinstance(st, ast.If):
            c = _cond(st.test, self_name)
            res += _alts(st.body, _conj(guard, c), self_name)
            if st.orelse:
                res += _alts(st.orelse, _conj(guard, ("not", c)), self_name)
            continue
        if isinstance(st, ast.Pass):
            continue
        raise Gap(f"statement outside the subset in a rotation rule: {_src(st)}")
    return res


def extract_rules(tree):
    rules = []
    for fn, tier in _hook_functions(tree, "Rotator.rotation"):
        if len(fn.args.args) != 1 or fn.args.kwonlyargs or fn.args.vararg or fn.args.kwarg:
            raise Gap(f"rotation rule {fn.name} has extra parameters (cycle?)")
        self_name = fn.args.args[0].arg
        alts = _alts(_strip_doc(fn.body), ("tt",), self_name)
        rules.append({"name": fn.name, "tier": tier, "alts": alts, "lineno": fn.lineno})
    if not rules:
        raise Gap("no function registered on Rotator.rotation")
    return rules


# ---------------------------------------------------------------------------------------------------------------
# classifiers / cross-section of the rotator's out profile
# ---------------------------------------------------------------------------------------------------------------
def extract_marks(tree):
    fns = _hook_functions(tree, "Rotator.OutProfile.classifiers")
    if len(fns) != 1:
        raise Gap(f"{len(fns)} functions on Rotator.OutProfile.classifiers (expected 1)")
    fn = fns[0][0]
    self_name = fn.args.args[0].arg
    body = _strip_doc(fn.body)
    alias = {}            # local name -> path relative to self
    setvar = None
    base = None
    copies = None
    marks = []
    returned = False
    for st in body:
        if returned:
            raise Gap("statements after return in classifiers")
        tgt = None
        val = None
        if isinstance(st, ast.Assign) and len(st.targets) == 1 and isinstance(st.targets[0], ast.Name):
            tgt, val = st.targets[0].id, st.value
        elif isinstance(st, ast.AnnAssign) and isinstance(st.target, ast.Name) and st.value is not None:
            tgt, val = st.target.id, st.value
        if tgt is not None:
            p = _resolve(val, self_name, alias)
            if p is not None and setvar is None and not isinstance(val, ast.BinOp):
                alias[tgt] = p
                continue
            if isinstance(val, ast.BinOp) and isinstance(val.op, ast.BitOr) and setvar is None:
                lp = _resolve(val.left, self_name, alias)
                if lp != "rotator.in_profile.classifiers" or not _is_str_set(val.right):
                    raise Gap(f"classifier union of unexpected shape: {_src(st)}")
                setvar, base, copies = tgt, [e.value for e in val.right.elts], True
                continue
            raise Gap(f"assignment outside the subset in classifiers: {_src(st)}")
        if isinstance(st, ast.If) and setvar is not None:
            node = st
            while True:
                n = _eq_rotation(node.test, self_name, alias)
                m = _single_add(node.body, setvar)
                marks.append((n, m))
                if len(node.orelse) == 1 and isinstance(node.orelse[0], ast.If):
                    node = node.orelse[0]
                    continue
                if node.orelse:
                    raise Gap("else branch in the rotation-mark chain")
                break
            continue
        if isinstance(st, ast.Return):
            if not (isinstance(st.value, ast.Name) and st.value.id == setvar):
                raise Gap(f"classifiers returns something else than the built set: {_src(st)}")
            returned = True
            continue
        raise Gap(f"statement outside the subset in classifiers: {_src(st)}")
    if not returned or base is None:
        raise Gap("classifiers: no union / no return found")
    return {"base": base, "copies": copies, "marks": marks, "lineno": fn.lineno}


def _resolve(node, self_name, alias):
    """attribute path relative to the out profile (`self`), through local aliases; `self.rotator` is the rotator"""
    p = _path(node)
    if p is None:
        return None
    head, _, rest = p.partition(".")
    if head == self_name:
        return rest
    if head in alias:
        return alias[head] + ("." + rest if rest else "")
    return None


def _is_str_set(node):
    return isinstance(node, ast.Set) and all(isinstance(e, ast.Constant) and isinstance(e.value, str) for e in node.elts)


def _eq_rotation(test, self_name, alias):
    if isinstance(test, ast.Compare) and len(test.ops) == 1 and isinstance(test.ops[0], ast.Eq) \
            and _resolve(test.left, self_name, alias) == "rotator.rotation" \
            and isinstance(test.comparators[0], ast.Constant) and type(test.comparators[0].value) is int \
            and test.comparators[0].value >= 0:
        return test.comparators[0].value
    raise Gap(f"rotation-mark test outside the subset: {_src(test)}")


def _single_add(body, setvar):
    if len(body) == 1 and isinstance(body[0], ast.Expr) and isinstance(body[0].value, ast.Call):
        c = body[0].value
        if isinstance(c.func, ast.Attribute) and c.func.attr == "add" and isinstance(c.func.value, ast.Name) \
                and c.func.value.id == setvar and len(c.args) == 1 and isinstance(c.args[0], ast.Constant) \
                and isinstance(c.args[0].value, str) and not c.keywords:
            return c.args[0].value
    raise Gap("rotation-mark branch is not a single `<set>.add(\"mark\")`")


def extract_xsec(tree):
    fns = _hook_functions(tree, "Rotator.OutProfile.cross_section")
    if len(fns) != 1:
        raise Gap(f"{len(fns)} functions on Rotator.OutProfile.cross_section (expected 1)")
    fn = fns[0][0]
    self_name = fn.args.args[0].arg
    body = _strip_doc(fn.body)
    if len(body) != 1 or not isinstance(body[0], ast.Return) or not isinstance(body[0].value, ast.Call):
        raise Gap("cross_section is not a single `return f(...)`")
    call = body[0].value
    fname = _path(call.func)
    # which `rotate` is it?
    imported = None
    for node in tree.body:
        if isinstance(node, ast.ImportFrom):
            for a in node.names:
                if (a.asname or a.name) == fname:
                    imported = f"{node.module}.{a.name}"
    if imported is None:
        raise Gap(f"cross_section calls {fname}, which is not imported by name")
    if len(call.args) != 1:
        raise Gap("cross_section: expected exactly one positional argument (the geometry)")
    src = _resolve(call.args[0], self_name, {})
    kw = {k.arg: k.value for k in call.keywords}
    if set(kw) - {"angle", "origin", "use_radians"}:
        raise Gap(f"cross_section: unexpected keywords {sorted(kw)}")
    if "angle" not in kw or "origin" not in kw:
        raise Gap("cross_section: angle= / origin= missing (shapely's default origin is the bounding-box centre)")
    ang = _resolve(kw["angle"], self_name, {})
    org = kw["origin"]
    if not (isinstance(org, ast.Tuple) and len(org.elts) == 2 and all(
            isinstance(e, ast.Constant) and type(e.value) is int and e.value >= 0 for e in org.elts)):
        raise Gap(f"cross_section: origin is not a literal pair of naturals: {_src(org)}")
    radians = False
    if "use_radians" in kw:
        if not isinstance(kw["use_radians"], ast.Constant):
            raise Gap("use_radians is not a literal")
        radians = bool(kw["use_radians"].value)
    if src is None or ang is None:
        raise Gap("cross_section: geometry / angle argument is not an attribute path on self")
    return {"fn": imported, "source": src, "angle": ang, "ox": org.elts[0].value, "oy": org.elts[1].value,
            "radians": radians, "lineno": fn.lineno}


# ---------------------------------------------------------------------------------------------------------------
# the rotation hook of the roll pass
# ---------------------------------------------------------------------------------------------------------------
KIND_OF_CLASS = {"BaseRollPass": "pass", "Rotator": "rotator", "Transport": "transport"}
SWITCH = "Config.ROLL_PASS_AUTO_ROTATION"


def _bool_return(stmts):
    if len(stmts) == 1 and isinstance(stmts[0], ast.Return) and isinstance(stmts[0].value, ast.Constant) \
            and isinstance(stmts[0].value.value, bool):
        return stmts[0].value.value
    raise Gap(f"expected a single `return True/False`, found: {'; '.join(_src(s) for s in stmts)}")


def _try_assign(st, var, rhs_path):
    """`try: var = <rhs_path> except IndexError: return b` -> b"""
    if not (isinstance(st, ast.Try) and len(st.body) == 1 and not st.orelse and not st.finalbody
            and len(st.handlers) == 1):
        raise Gap(f"expected try/except IndexError around `{var} = {rhs_path}`: {_src(st)}")
    a = st.body[0]
    if not (isinstance(a, ast.Assign) and len(a.targets) == 1 and isinstance(a.targets[0], ast.Name)
            and a.targets[0].id == var and _path(a.value) == rhs_path):
        raise Gap(f"expected `{var} = {rhs_path}`: {_src(a)}")
    h = st.handlers[0]
    if _path(h.type) != "IndexError":
        raise Gap(f"handler is not `except IndexError`: {_src(h)}")
    return _bool_return(h.body)


def extract_rotation_hook(tree):
    fns = _hook_functions(tree, "BaseRollPass.rotation")
    if not fns:
        raise Gap("no function registered on BaseRollPass.rotation")
    order = []
    walk = None
    for fn, tier in fns:
        if tier != 1:
            raise Gap(f"{fn.name}: tryfirst/trylast on BaseRollPass.rotation is outside the modelled subset")
        if len(fn.args.args) != 1:
            raise Gap(f"{fn.name}: extra parameters")
        self_name = fn.args.args[0].arg
        body = _strip_doc(fn.body)
        if len(body) == 1 and isinstance(body[0], ast.Return) and _path(body[0].value) == SWITCH:
            order.append("configValue")
            continue
        # the walk
        if walk is not None:
            raise Gap("more than one walk-like function on BaseRollPass.rotation")
        if not (len(body) == 1 and isinstance(body[0], ast.If) and not body[0].orelse):
            raise Gap(f"{fn.name}: body is not one guarded block")
        g = body[0].test
        conj = g.values if isinstance(g, ast.BoolOp) and isinstance(g.op, ast.And) else [g]
        needs_auto = needs_parent = False
        for c in conj:
            if _path(c) == SWITCH:
                needs_auto = True
            elif isinstance(c, ast.Compare) and len(c.ops) == 1 and isinstance(c.ops[0], ast.IsNot) \
                    and _path(c.left) == f"{self_name}.parent" and isinstance(c.comparators[0], ast.Constant) \
                    and c.comparators[0].value is None:
                needs_parent = True
            else:
                raise Gap(f"{fn.name}: guard conjunct outside the subset: {_src(c)}")
        blk = body[0].body
        if len(blk) != 2 or not isinstance(blk[1], ast.While):
            raise Gap(f"{fn.name}: expected `try: prev = self.prev …` followed by `while True:`")
        no_prev = _try_assign(blk[0], "prev", f"{self_name}.prev")
        loop = blk[1]
        if not (isinstance(loop.test, ast.Constant) and loop.test.value is True and not loop.orelse):
            raise Gap(f"{fn.name}: loop is not `while True`")
        tests = []
        for st in loop.body[:-1]:
            if not (isinstance(st, ast.If) and not st.orelse and isinstance(st.test, ast.Call)
                    and _path(st.test.func) == "isinstance" and len(st.test.args) == 2
                    and _path(st.test.args[0]) == "prev"):
                raise Gap(f"{fn.name}: loop statement is not `if isinstance(prev, K): return b`: {_src(st)}")
            cls = _path(st.test.args[1])
            if cls not in KIND_OF_CLASS:
                raise Gap(f"{fn.name}: isinstance test on unknown class {cls}")
            tests.append((KIND_OF_CLASS[cls], _bool_return(st.body)))
        exhausted = _try_assign(loop.body[-1], "prev", "prev.prev")
        walk = {"needsAuto": needs_auto, "needsParent": needs_parent, "noPrev": no_prev, "tests": tests,
                "exhausted": exhausted, "lineno": fn.lineno, "name": fn.name}
        order.append("detect")
    if walk is None:
        raise Gap("no backward walk (detect_already_rotated) registered on BaseRollPass.rotation")
    return order, walk


# ---------------------------------------------------------------------------------------------------------------
# rotator_factory, next_roll_pass, init_solve, config
# ---------------------------------------------------------------------------------------------------------------
def extract_factory(tree):
    fn = next((n for n in tree.body if isinstance(n, ast.FunctionDef) and n.name == "rotator_factory"), None)
    if fn is None:
        raise Gap("rotator_factory not found in roll_pass/base.py")
    if len(fn.args.args) != 1:
        raise Gap("rotator_factory: expected one parameter")
    rp = fn.args.args[0].arg
    body = _strip_doc(fn.body)
    cond_truthy = False
    # optional first statement `<rp>.__cache__.pop("rotation", None)`: the value cached by an earlier solve is discarded
    drops_cache = False
    if body and isinstance(body[0], ast.Expr) and isinstance(body[0].value, ast.Call):
        c = body[0].value
        if _path(c.func) == f"{rp}.__cache__.pop" and len(c.args) == 2 and not c.keywords \
                and isinstance(c.args[0], ast.Constant) and c.args[0].value == "rotation" \
                and isinstance(c.args[1], ast.Constant) and c.args[1].value is None:
            drops_cache = True
            body = body[1:]
        else:
            raise Gap(f"rotator_factory: statement outside the subset: {_src(body[0])}")
    if len(body) == 1 and isinstance(body[0], ast.If) and not body[0].orelse:
        if _path(body[0].test) != f"{rp}.rotation":
            raise Gap(f"rotator_factory: guard is not the truth value of {rp}.rotation: {_src(body[0].test)}")
        cond_truthy = True
        body = body[0].body
    if not (len(body) == 1 and isinstance(body[0], ast.Return) and isinstance(body[0].value, ast.Call)
            and _path(body[0].value.func) == "Rotator" and not body[0].value.args):
        raise Gap("rotator_factory: body is not `return Rotator(<keywords>)`")
    kw = {k.arg: k.value for k in body[0].value.keywords}
    angle = "ruleBased"
    if "rotation" in kw:
        v = kw["rotation"]
        if _path(v) == f"{rp}.rotation":
            angle = "value"
        elif isinstance(v, ast.IfExp) and _path(v.body) == f"{rp}.rotation" and isinstance(v.orelse, ast.Constant) \
                and v.orelse.value is None and isinstance(v.test, ast.Compare) and len(v.test.ops) == 1 \
                and isinstance(v.test.ops[0], ast.IsNot) and _path(v.test.left) == f"{rp}.rotation" \
                and isinstance(v.test.comparators[0], ast.Constant) and v.test.comparators[0].value is True:
            angle = "valueUnlessTrue"
        else:
            raise Gap(f"rotator_factory: rotation= outside the subset: {_src(v)}")
    parent_is_pass = "parent" in kw and _path(kw["parent"]) == rp
    for k in kw:
        if k not in ("rotation", "label", "duration", "length", "parent"):
            raise Gap(f"rotator_factory: unexpected keyword {k}")
    registered = False
    for node in tree.body:
        if isinstance(node, ast.Expr) and isinstance(node.value, ast.Call):
            c = node.value
            if _path(c.func) == "BaseRollPass.pre_processors.append" and len(c.args) == 1 \
                    and _path(c.args[0]) == "rotator_factory":
                registered = True
    return {"condTruthy": cond_truthy, "angle": angle, "parentIsPass": parent_is_pass, "registered": registered,
            "dropsCache": drops_cache, "lineno": fn.lineno}


def _class(tree, name):
    return next((n for n in tree.body if isinstance(n, ast.ClassDef) and n.name == name), None)


def _method(cls, name):
    return next((n for n in cls.body if isinstance(n, ast.FunctionDef) and n.name == name), None)


def extract_flow(rot_tree, unit_tree):
    cls = _class(rot_tree, "Rotator")
    fn = _method(cls, "next_roll_pass") if cls else None
    if fn is None:
        raise Gap("Rotator.next_roll_pass not found")
    body = [s for s in _strip_doc(fn.body) if not isinstance(s, (ast.Import, ast.ImportFrom))]
    parent_next = else_next = False
    if len(body) == 2 and isinstance(body[0], ast.If) and not body[0].orelse:
        t = body[0].test
        if isinstance(t, ast.Call) and _path(t.func) == "isinstance" and _path(t.args[0]) == "self.parent" \
                and _path(t.args[1]) == "BaseRollPass" and len(body[0].body) == 1 \
                and isinstance(body[0].body[0], ast.Return) and _path(body[0].body[0].value) == "self.parent":
            parent_next = True
        r = body[1]
        if isinstance(r, ast.Return) and isinstance(r.value, ast.Call) and _path(r.value.func) == "self.next_of" \
                and len(r.value.args) == 1 and _path(r.value.args[0]) == "BaseRollPass":
            else_next = True
    if not (parent_next and else_next):
        raise Gap("Rotator.next_roll_pass is not `parent if it is a pass else next_of(BaseRollPass)`")
    ucls = _class(unit_tree, "Unit")
    init = _method(ucls, "init_solve") if ucls else None
    if init is None:
        raise Gap("Unit.init_solve not found")
    prof = init.args.args[1].arg
    body = _strip_doc(init.body)
    loop = next((s for s in body if isinstance(s, ast.For)), None)
    skips = chains = in_from = False
    if loop is not None and isinstance(loop.iter, ast.Call) and _path(loop.iter.func) == "self._yield_pre_processors":
        fac = loop.target.id if isinstance(loop.target, ast.Name) else None
        var = None
        for st in loop.body:
            if isinstance(st, ast.Assign) and isinstance(st.value, ast.Call) and _path(st.value.func) == fac \
                    and len(st.value.args) == 1 and _path(st.value.args[0]) == "self":
                var = st.targets[0].id
            elif isinstance(st, ast.If) and var and isinstance(st.test, ast.Compare) and _path(st.test.left) == var \
                    and isinstance(st.test.ops[0], ast.Is) and isinstance(st.test.comparators[0], ast.Constant) \
                    and st.test.comparators[0].value is None and len(st.body) == 1 and isinstance(st.body[0], ast.Continue):
                skips = True
            elif isinstance(st, ast.Assign) and var and len(st.targets) == 1 and _path(st.targets[0]) == prof \
                    and isinstance(st.value, ast.Call) and _path(st.value.func) == f"{var}.solve" \
                    and len(st.value.args) == 1 and _path(st.value.args[0]) == prof:
                chains = True
            elif isinstance(st, ast.Expr):      # logging
                continue
            else:
                raise Gap(f"init_solve: statement outside the subset in the pre-processor loop: {_src(st)}")
        after = body[body.index(loop) + 1:]
        for st in after:
            if isinstance(st, ast.Assign) and _path(st.targets[0]) == "self.in_profile" and isinstance(st.value, ast.Call) \
                    and _path(st.value.func) == "self.InProfile" and len(st.value.args) == 2 \
                    and _path(st.value.args[1]) == prof:
                in_from = True
    if not (skips and chains and in_from):
        raise Gap("Unit.init_solve does not hand the pre-processors' result on as the in profile in the recognised way")
    return {"parentPassIsNext": parent_next, "elseNextOf": else_next, "skipsNone": skips, "chains": chains,
            "inFromChain": in_from}


def extract_auto_default(cfg_tree):
    cls = _class(cfg_tree, "Config")
    if cls is None:
        raise Gap("class Config not found")
    for st in cls.body:
        if isinstance(st, ast.Assign) and len(st.targets) == 1 and _path(st.targets[0]) == "ROLL_PASS_AUTO_ROTATION":
            if isinstance(st.value, ast.Constant) and isinstance(st.value.value, bool):
                return st.value.value
            raise Gap("ROLL_PASS_AUTO_ROTATION default is not a boolean literal")
    raise Gap("Config.ROLL_PASS_AUTO_ROTATION not found")


# ---------------------------------------------------------------------------------------------------------------
# the object graph: Unit.prev, _SubUnitsList.__init__/clear, PassSequence.flatten
# ---------------------------------------------------------------------------------------------------------------
EXC = {"ValueError": "value", "IndexError": "index"}


def _raise_kind(stmts, what):
    if len(stmts) == 1 and isinstance(stmts[0], ast.Raise) and stmts[0].cause is None:
        e = stmts[0].exc
        name = _path(e.func) if isinstance(e, ast.Call) else _path(e)
        if name in EXC:
            return EXC[name]
    raise Gap(f"{what}: expected a single `raise ValueError/IndexError(...)`, found: {'; '.join(_src(s) for s in stmts)}")


def _is_none(node):
    return isinstance(node, ast.Constant) and node.value is None


def extract_prev(unit_tree):
    ucls = _class(unit_tree, "Unit")
    fn = _method(ucls, "prev") if ucls else None
    if fn is None or not any(_path(d) == "property" for d in fn.decorator_list):
        raise Gap("property Unit.prev not found")
    me = fn.args.args[0].arg
    body = _strip_doc(fn.body)
    if len(body) != 4:
        raise Gap(f"Unit.prev: expected 4 statements, found {len(body)}")
    a, b, c, d = body
    if not (isinstance(a, ast.If) and not a.orelse and isinstance(a.test, ast.Compare) and len(a.test.ops) == 1
            and isinstance(a.test.ops[0], ast.Is) and _path(a.test.left) == f"{me}.parent" and _is_none(a.test.comparators[0])):
        raise Gap(f"Unit.prev: first statement is not `if {me}.parent is None: raise …`: {_src(a)}")
    no_parent = _raise_kind(a.body, "Unit.prev (no parent)")
    if not (isinstance(b, ast.Assign) and len(b.targets) == 1 and isinstance(b.targets[0], ast.Name)
            and isinstance(b.value, ast.Call) and _path(b.value.func) == f"{me}.parent.subunits.index"
            and len(b.value.args) == 1 and _path(b.value.args[0]) == me and not b.value.keywords):
        raise Gap(f"Unit.prev: second statement is not `i = {me}.parent.subunits.index({me})`: {_src(b)}")
    i = b.targets[0].id
    if not (isinstance(c, ast.If) and not c.orelse and isinstance(c.test, ast.Compare) and len(c.test.ops) == 1
            and isinstance(c.test.ops[0], ast.Eq) and _path(c.test.left) == i and isinstance(c.test.comparators[0], ast.Constant)
            and c.test.comparators[0].value == 0 and type(c.test.comparators[0].value) is int):
        raise Gap(f"Unit.prev: third statement is not `if {i} == 0: raise …`: {_src(c)}")
    first = _raise_kind(c.body, "Unit.prev (first member)")
    if not (isinstance(d, ast.Return) and isinstance(d.value, ast.Subscript) and _path(d.value.value) == f"{me}.parent.subunits"
            and isinstance(d.value.slice, ast.BinOp) and isinstance(d.value.slice.op, ast.Sub) and _path(d.value.slice.left) == i
            and isinstance(d.value.slice.right, ast.Constant) and type(d.value.slice.right.value) is int
            and d.value.slice.right.value >= 0):
        raise Gap(f"Unit.prev: last statement is not `return {me}.parent.subunits[{i} - <n>]`: {_src(d)}")
    # `subunits` must be the plain accessor of the list the parent pointers are maintained for
    sub = _method(ucls, "subunits")
    sb = _strip_doc(sub.body) if sub is not None else []
    if not (len(sb) == 1 and isinstance(sb[0], ast.Return) and _path(sb[0].value) == "self._subunits"):
        raise Gap("Unit.subunits is not `return self._subunits`")
    return {"noParent": no_parent, "first": first, "offset": d.value.slice.right.value, "lineno": fn.lineno}


def _list_stmts(fn, owner_exprs, what):
    """statements of a `_SubUnitsList` method -> ["super" | ("each", to_owner)]; `self._owner = weakref.ref(owner)` is skipped"""
    me = fn.args.args[0].arg
    out = []
    for st in _strip_doc(fn.body):
        if isinstance(st, ast.Expr) and isinstance(st.value, ast.Call) and isinstance(st.value.func, ast.Attribute) \
                and st.value.func.attr == fn.name and isinstance(st.value.func.value, ast.Call) \
                and _path(st.value.func.value.func) == "super" and not st.value.func.value.args:
            out.append("super")
        elif isinstance(st, ast.Assign) and len(st.targets) == 1 and _path(st.targets[0]) == f"{me}._owner":
            continue
        elif isinstance(st, ast.For) and not st.orelse and isinstance(st.target, ast.Name) and _path(st.iter) == me \
                and len(st.body) == 1 and isinstance(st.body[0], ast.Assign) and len(st.body[0].targets) == 1 \
                and _path(st.body[0].targets[0]) == f"{st.target.id}.parent":
            v = st.body[0].value
            if _is_none(v):
                out.append(("each", False))
            elif _src(v) in owner_exprs:
                out.append(("each", True))
            else:
                raise Gap(f"{what}: members' parent set to something else than the owner / None: {_src(st)}")
        else:
            raise Gap(f"{what}: statement outside the subset: {_src(st)}")
    return out


def extract_listops(unit_tree):
    ucls = _class(unit_tree, "Unit")
    lcls = next((n for n in ucls.body if isinstance(n, ast.ClassDef) and n.name == "_SubUnitsList"), None) if ucls else None
    if lcls is None:
        raise Gap("Unit._SubUnitsList not found")
    init, clear = _method(lcls, "__init__"), _method(lcls, "clear")
    if init is None or clear is None:
        raise Gap("_SubUnitsList.__init__ / .clear not found")
    if len(init.args.args) != 3 or len(clear.args.args) != 1:
        raise Gap("_SubUnitsList.__init__ / .clear: expected (self, owner, units) / (self)")
    me, owner = init.args.args[0].arg, init.args.args[1].arg
    return {"init": _list_stmts(init, {owner, f"{me}._owner()"}, "_SubUnitsList.__init__"),
            "clear": _list_stmts(clear, {f"{clear.args.args[0].arg}._owner()"}, "_SubUnitsList.clear"),
            "lineno": lcls.lineno}


def extract_flatten(seq_tree):
    cls = _class(seq_tree, "PassSequence")
    fn = _method(cls, "flatten") if cls else None
    if fn is None:
        raise Gap("PassSequence.flatten not found")
    me = fn.args.args[0].arg
    units = _method(cls, "units")
    ub = _strip_doc(units.body) if units is not None else []
    if not (len(ub) == 1 and isinstance(ub[0], ast.Return) and isinstance(ub[0].value, ast.Call)
            and _path(ub[0].value.func) == "list" and len(ub[0].value.args) == 1 and _path(ub[0].value.args[0]) == "self._subunits"):
        raise Gap("PassSequence.units is not `return list(self._subunits)`")
    lists = []          # local list names in order of creation; the first one that is installed is `new_list`
    phases = []
    new_list = None
    # find the list that is installed
    for st in fn.body:
        if isinstance(st, ast.Assign) and len(st.targets) == 1 and _path(st.targets[0]) == f"{me}._subunits":
            v = st.value
            if isinstance(v, ast.Call) and _path(v.func) == f"{me}._SubUnitsList" and len(v.args) == 2 and not v.keywords \
                    and _path(v.args[0]) == me and isinstance(v.args[1], ast.Name):
                new_list = v.args[1].id
    if new_list is None:
        raise Gap(f"flatten: no `{me}._subunits = {me}._SubUnitsList({me}, <list>)`")

    def item_ops(stmts, item):
        ops = []
        for st in stmts:
            if isinstance(st, ast.Expr) and isinstance(st.value, ast.Call) and not st.value.keywords:
                f, args = _path(st.value.func), st.value.args
                if f == f"{new_list}.extend" and len(args) == 1 and _path(args[0]) == f"{item}.units":
                    ops.append("collect")
                    continue
                if f == f"{item}.subunits.clear" and not args:
                    ops.append("clear")
                    continue
                if f is not None and f.endswith(".append") and f[:-7] in lists and f[:-7] != new_list and len(args) == 1 \
                        and _path(args[0]) == item:
                    ops.append("remember")
                    kept.add(f[:-7])
                    continue
            if isinstance(st, ast.Assign) and len(st.targets) == 1 and _path(st.targets[0]) == f"{item}.parent" and _is_none(st.value):
                ops.append("orphan")
                continue
            raise Gap(f"flatten: statement outside the subset for a member that is a sequence: {_src(st)}")
        return ops
    kept = set()
    for st in _strip_doc(fn.body):
        if isinstance(st, ast.Assign) and len(st.targets) == 1 and isinstance(st.targets[0], ast.Name) \
                and isinstance(st.value, ast.List) and not st.value.elts:
            lists.append(st.targets[0].id)
            continue
        if isinstance(st, ast.For) and not st.orelse and isinstance(st.target, ast.Name):
            item = st.target.id
            it = st.iter
            if isinstance(it, ast.Call) and _path(it.func) == "list" and len(it.args) == 1 and _path(it.args[0]) == me:
                if not (len(st.body) == 1 and isinstance(st.body[0], ast.If)):
                    raise Gap("flatten: main loop body is not one `if isinstance(item, PassSequence): … else: …`")
                br = st.body[0]
                t = br.test
                if not (isinstance(t, ast.Call) and _path(t.func) == "isinstance" and len(t.args) == 2
                        and _path(t.args[0]) == item and _path(t.args[1]) == "PassSequence"):
                    raise Gap(f"flatten: test of the main loop is not `isinstance({item}, PassSequence)`: {_src(t)}")
                e = br.orelse
                if not (len(e) == 1 and isinstance(e[0], ast.Expr) and isinstance(e[0].value, ast.Call)
                        and _path(e[0].value.func) == f"{new_list}.append" and len(e[0].value.args) == 1
                        and _path(e[0].value.args[0]) == item):
                    raise Gap(f"flatten: else branch is not `{new_list}.append({item})`")
                phases.append(("main", item_ops(br.body, item)))
                continue
            if isinstance(it, ast.Name) and it.id in kept:
                phases.append(("deferred", item_ops(st.body, item)))
                continue
            raise Gap(f"flatten: loop outside the subset: {_src(st.iter)}")
        if isinstance(st, ast.Assign) and len(st.targets) == 1 and _path(st.targets[0]) == f"{me}._subunits":
            phases.append(("install",))
            continue
        raise Gap(f"flatten: statement outside the subset: {_src(st)}")
    if len(kept) > 1:
        raise Gap("flatten: more than one list of remembered members")
    return {"phases": phases, "lineno": fn.lineno}


# ---------------------------------------------------------------------------------------------------------------
# emit
# ---------------------------------------------------------------------------------------------------------------
def _s(x):
    return '"' + x.replace("\\", "\\\\").replace('"', '\\"') + '"'


def _b(x):
    return "true" if x else "false"


def _ob(x):
    return "none" if x is None else f"(some {_b(x)})"


def lean_cond(c):
    if c[0] == "tt":
        return ".tt"
    if c[0] in ("inProfile", "nextPass"):
        return f"(.{c[0]} {_s(c[1])})"
    if c[0] == "not":
        return f"(.not {lean_cond(c[1])})"
    return f"(.{c[0]} {lean_cond(c[1])} {lean_cond(c[2])})"


def eval_cond(c, in_c, next_c):
    """python evaluation of the tuple form (used by the harness to cross-check the translation against the functions)"""
    if c[0] == "tt":
        return True
    if c[0] == "inProfile":
        return c[1] in in_c
    if c[0] == "nextPass":
        return c[1] in next_c
    if c[0] == "not":
        return not eval_cond(c[1], in_c, next_c)
    if c[0] == "and":
        return eval_cond(c[1], in_c, next_c) and eval_cond(c[2], in_c, next_c)
    return eval_cond(c[1], in_c, next_c) or eval_cond(c[2], in_c, next_c)


def extract_all(repo):
    rh = _parse(repo, "rotator/hookimpls.py")
    data = {"rules": extract_rules(rh), "marks": extract_marks(rh), "xsec": extract_xsec(rh)}
    order, walk = extract_rotation_hook(_parse(repo, "roll_pass/hookimpls/base_roll_pass.py"))
    data["rotationFns"] = order
    data["walk"] = walk
    data["factory"] = extract_factory(_parse(repo, "roll_pass/base.py"))
    unit_tree = _parse(repo, "unit/unit.py")
    data["flow"] = extract_flow(_parse(repo, "rotator/rotator.py"), unit_tree)
    data["autoDefault"] = extract_auto_default(_parse(repo, "config.py"))
    data["prev"] = extract_prev(unit_tree)
    data["listOps"] = extract_listops(unit_tree)
    data["flatten"] = extract_flatten(_parse(repo, "sequence/sequence.py"))
    return data


def lean_text(d):
    L = ["import PyrollModel.RotNav",
         "/- GENERATED by driver/translate/c14_rot.py from /repo's working tree on every run - do not edit. -/",
         "namespace Gen.C14", "open Rot", ""]
    L.append("/-- pyroll/core/rotator/hookimpls.py: the functions registered on `Rotator.rotation`, in registration order -/")
    L.append("def rules : List Rule := [")
    rl = []
    for r in d["rules"]:
        alts = ", ".join(f"({lean_cond(c)}, {a})" for (c, a) in r["alts"])
        rl.append(f"  /- line {r['lineno']} -/ {{ name := {_s(r['name'])}, tier := {r['tier']}, alts := [{alts}] }}")
    L.append(",\n".join(rl) + "]")
    L.append("")
    w = d["walk"]
    L.append(f"/-- pyroll/core/roll_pass/hookimpls/base_roll_pass.py:{w['lineno']} `{w['name']}` -/")
    tests = ", ".join(f"(.{k}, {_b(b)})" for (k, b) in w["tests"])
    L.append(f"def walk : WalkSpec :=\n  {{ needsAuto := {_b(w['needsAuto'])}, needsParent := {_b(w['needsParent'])}, "
             f"noPrev := {_ob(w['noPrev'])},\n    tests := [{tests}], exhausted := {_ob(w['exhausted'])} }}")
    L.append("")
    L.append("/-- the functions registered on `BaseRollPass.rotation`, in registration order -/")
    L.append("def rotationFns : List RotFn := [" + ", ".join("." + f for f in d["rotationFns"]) + "]")
    L.append("")
    f = d["factory"]
    L.append(f"/-- pyroll/core/roll_pass/base.py:{f['lineno']} `rotator_factory` -/")
    L.append(f"def factory : FactorySpec :=\n  {{ condTruthy := {_b(f['condTruthy'])}, angle := .{f['angle']}, "
             f"parentIsPass := {_b(f['parentIsPass'])}, registered := {_b(f['registered'])} }}")
    L.append("")
    L.append("/-- `rotator_factory`: is the `rotation` value cached by an earlier solve discarded before it is read "
             "(`roll_pass.__cache__.pop(\"rotation\", None)`)? -/")
    L.append(f"def cache : CacheSpec := {{ factoryDropsCache := {_b(f['dropsCache'])} }}")
    L.append("")
    m = d["marks"]
    L.append(f"/-- pyroll/core/rotator/hookimpls.py:{m['lineno']} `Rotator.OutProfile.classifiers` -/")
    L.append("def marks : MarkSpec :=\n  { base := [" + ", ".join(_s(x) for x in m["base"]) + f"], copies := {_b(m['copies'])},\n"
             "    marks := [" + ", ".join(f"({n}, {_s(s)})" for (n, s) in m["marks"]) + "] }")
    L.append("")
    x = d["xsec"]
    L.append(f"/-- pyroll/core/rotator/hookimpls.py:{x['lineno']} `Rotator.OutProfile.cross_section` -/")
    L.append(f"def xsec : XsecSpec :=\n  {{ fn := {_s(x['fn'])}, source := {_s(x['source'])}, angle := {_s(x['angle'])}, "
             f"originX := {x['ox']}, originY := {x['oy']}, radians := {_b(x['radians'])} }}")
    L.append("")
    fl = d["flow"]
    L.append("/-- `Rotator.next_roll_pass` (rotator/rotator.py) and `Unit.init_solve` (unit/unit.py) -/")
    L.append("def flow : FlowSpec :=\n  { " + ", ".join(f"{k} := {_b(v)}" for k, v in fl.items()) + " }")
    L.append("")
    L.append("/-- default of `Config.ROLL_PASS_AUTO_ROTATION` (config.py) -/")
    L.append(f"def autoDefault : Bool := {_b(d['autoDefault'])}")
    L.append("")
    L.append("def tables : Tables :=\n  { rules := rules, walk := walk, rotationFns := rotationFns, factory := factory, marks := marks }")
    L.append("")
    pv = d["prev"]
    L.append(f"/-- pyroll/core/unit/unit.py:{pv['lineno']} `Unit.prev` -/")
    L.append(f"def prevSpec : PrevSpec := {{ noParent := .{pv['noParent']}, first := .{pv['first']}, offset := {pv['offset']} }}")
    L.append("")

    def stmts(l):
        return "[" + ", ".join(".super" if x == "super" else f".eachParent {_b(x[1])}" for x in l) + "]"
    lo = d["listOps"]
    L.append(f"/-- pyroll/core/unit/unit.py:{lo['lineno']} `Unit._SubUnitsList.__init__` / `.clear` -/")
    L.append(f"def listOps : ListOpsSpec :=\n  {{ init := {stmts(lo['init'])}, clear := {stmts(lo['clear'])} }}")
    L.append("")
    fl2 = d["flatten"]
    ph = []
    for x in fl2["phases"]:
        if x[0] == "install":
            ph.append(".install")
        else:
            ph.append(f".{x[0]} [" + ", ".join("." + o for o in x[1]) + "]")
    L.append(f"/-- pyroll/core/sequence/sequence.py:{fl2['lineno']} `PassSequence.flatten` -/")
    L.append("def flattenSpec : FlattenSpec := [" + ", ".join(ph) + "]")
    L.append("")
    L.append("end Gen.C14")
    return "\n".join(L) + "\n"


def emit(repo, lean_dir):
    """regenerate lean/PyrollModel/Gen/C14.lean; returns the extracted data (raises Gap outside the subset)"""
    from .pyexpr import write_if_changed
    data = extract_all(repo)
    write_if_changed(os.path.join(lean_dir, "PyrollModel", "Gen", "C14.lean"), lean_text(data))
    return data
