"""(T) for C16, the two places of the hook system that are not hook implementations:

* `Hook.__get__` (pyroll/core/hooks.py): HOW an explicit value that is callable is called - the way the number of its
  parameters is determined and the number of arguments passed for each count.  Emitted as
  `hookget_call : String × List (Nat × Nat) × Nat` = (how, [(parameters, arguments passed)], arguments passed otherwise).
  Only `len(inspect.signature(result).parameters)` is a modelled "how" (it exists for every kind of callable: function,
  lambda, bound method, functools.partial, object with `__call__`, class, builtin); any other test is emitted as `"?"` (the
  interpreter answers `unmodelled`, the theorems about callable explicit values stop building) and reported as a gap.
* the COPY SITES that build a fresh hook host from a template object - `BaseRollPass.Roll.__init__` (the roll of a pass from
  the `Roll` handed to the pass) and `Unit.Profile.__init__` (the in / out profile of a unit from the profile handed on):
  which attribute sets of the template end up as keyword arguments (= explicit values of the copy).  Emitted as
  `copy_<name> : List String`, the sources of a `a | b | ...` dictionary expression in order: `"dict"` = the public
  (not `_`-prefixed) part of `template.__dict__`, `"cache"` = `template.__cache__`; `template.__attrs__` is resolved through
  the property `HookHost.__attrs__`.  Anything else (no filter on `_` names, other expressions) is emitted as `"?"`.

Recognised by AST node type, never by source text.
"""
import ast
import os

HOOKS_PY = "pyroll/core/hooks.py"
SITES = [
    # (generated name, model class built by the site, file, class path, name of the parameter holding the template)
    ("copy_PassRoll", "PassRoll", "pyroll/core/roll_pass/base.py", ["BaseRollPass", "Roll"], "template"),
    ("copy_UnitProfile", None, "pyroll/core/unit/unit.py", ["Unit", "Profile"], "template"),
]


def _parse(repo, rel):
    path = os.path.join(repo, rel)
    with open(path) as f:
        return ast.parse(f.read(), filename=path)


def _find(body, kind, name):
    """the LAST definition of that name (python semantics: `@overload` stubs precede the implementation)"""
    hit = None
    for n in body:
        if isinstance(n, kind) and n.name == name:
            hit = n
    return hit


def _class(tree, path):
    node = tree
    for name in path:
        node = _find(node.body, ast.ClassDef, name)
        if node is None:
            return None
    return node


def _src(n):
    try:
        return ast.unparse(n).split("\n")[0][:140]
    except Exception:      # pragma: no cover
        return type(n).__name__


# ------------------------------------------------------------------------------------------------------------------
# Hook.__get__: the call of a callable explicit value
# ------------------------------------------------------------------------------------------------------------------
def _is_name(n, name):
    return isinstance(n, ast.Name) and n.id == name


def _nargs(stmts, value_name, instance_name):
    """`result = result()` -> 0, `result = result(instance)` -> 1 (exactly one statement), else None"""
    if len(stmts) != 1 or not isinstance(stmts[0], ast.Assign):
        return None
    a = stmts[0]
    if len(a.targets) != 1 or not _is_name(a.targets[0], value_name) or not isinstance(a.value, ast.Call):
        return None
    c = a.value
    if not _is_name(c.func, value_name) or c.keywords:
        return None
    if len(c.args) == 0:
        return 0
    if len(c.args) == 1 and _is_name(c.args[0], instance_name):
        return 1
    return None


def hookget_call(repo):
    """-> ((how, [(params, nargs)], default nargs), lineno, gap or None)"""
    bad = ("?", [], 0)
    tree = _parse(repo, HOOKS_PY)
    cls = _class(tree, ["Hook"])
    fn = _find(cls.body, ast.FunctionDef, "__get__") if cls is not None else None
    if fn is None:
        return bad, 0, "Hook.__get__ not found"
    instance_name = fn.args.args[1].arg if len(fn.args.args) > 1 else "instance"
    hits = []
    for n in ast.walk(fn):
        if (isinstance(n, ast.If) and isinstance(n.test, ast.Call) and _is_name(n.test.func, "callable")
                and len(n.test.args) == 1 and isinstance(n.test.args[0], ast.Name)):
            hits.append(n)
    if len(hits) != 1:
        return bad, fn.lineno, f"Hook.__get__: {len(hits)} `if callable(...)` statements (expected 1)"
    outer = hits[0]
    value_name = outer.test.args[0].id
    inner = outer.body[0] if outer.body else None
    if not isinstance(inner, ast.If):
        return bad, outer.lineno, f"Hook.__get__: `{_src(inner)}` where the test on the number of parameters is expected"
    t = inner.test
    ok = (isinstance(t, ast.Compare) and len(t.ops) == 1 and isinstance(t.ops[0], ast.Eq)
          and isinstance(t.comparators[0], ast.Constant) and isinstance(t.comparators[0].value, int)
          and not isinstance(t.comparators[0].value, bool))
    n0 = _nargs(inner.body, value_name, instance_name) if ok else None
    n1 = _nargs(inner.orelse, value_name, instance_name) if ok else None
    if not ok or n0 is None or n1 is None:
        return bad, inner.lineno, f"Hook.__get__: `{_src(inner)}` is not `if <parameters> == <n>: v = v() else: v = v(instance)`"
    # how the number of parameters is determined: len(inspect.signature(<value>).parameters)
    left = t.left
    how = "?"
    if (isinstance(left, ast.Call) and _is_name(left.func, "len") and len(left.args) == 1
            and isinstance(left.args[0], ast.Attribute) and left.args[0].attr == "parameters"
            and isinstance(left.args[0].value, ast.Call) and isinstance(left.args[0].value.func, ast.Attribute)
            and left.args[0].value.func.attr == "signature" and _is_name(left.args[0].value.func.value, "inspect")
            and len(left.args[0].value.args) == 1 and _is_name(left.args[0].value.args[0], value_name)
            and not left.args[0].value.keywords):
        how = "inspect.signature"
    conv = (how, [(t.comparators[0].value, n0)], n1)
    gap = None
    if how == "?":
        gap = (f"Hook.__get__ determines the number of parameters of a callable explicit value by `{_src(left)}`; "
               "modelled is `len(inspect.signature(value).parameters)` only (defined for every kind of callable)")
    # the statements after the inner `if` of the callable branch must end in `return <value>` without caching
    rest = outer.body[1:]
    if not rest or not isinstance(rest[-1], ast.Return) or not _is_name(rest[-1].value, value_name):
        gap = gap or "Hook.__get__: the callable branch does not end in `return <result>`"
    return conv, inner.lineno, gap


# ------------------------------------------------------------------------------------------------------------------
# copy sites
# ------------------------------------------------------------------------------------------------------------------
def _filtered(ifs, key_names):
    """one of the conditions is `not <key>.startswith("_")` (key = the loop variable holding the name, or `e[0]`)"""
    def is_key(n):
        if isinstance(n, ast.Name) and n.id in key_names.get("name", ()):
            return True
        return (isinstance(n, ast.Subscript) and isinstance(n.value, ast.Name) and n.value.id in key_names.get("pair", ())
                and isinstance(n.slice, ast.Constant) and n.slice.value == 0)

    def test(c):
        if isinstance(c, ast.BoolOp) and isinstance(c.op, ast.And):
            return any(test(v) for v in c.values)
        return (isinstance(c, ast.UnaryOp) and isinstance(c.op, ast.Not) and isinstance(c.operand, ast.Call)
                and isinstance(c.operand.func, ast.Attribute) and c.operand.func.attr == "startswith"
                and is_key(c.operand.func.value) and len(c.operand.args) == 1
                and isinstance(c.operand.args[0], ast.Constant) and c.operand.args[0].value == "_")
    return any(test(c) for c in ifs)


def _sources(e, obj, repo, depth=0):
    """(list of sources, filtered?) of a dictionary valued expression over the object named `obj`; None = not understood"""
    if isinstance(e, ast.Attribute) and _is_name(e.value, obj):
        if e.attr == "__dict__":
            return ["dict"], False
        if e.attr == "__cache__":
            return ["cache"], True            # holds hook names only
        if e.attr == "__attrs__" and depth == 0:
            tree = _parse(repo, HOOKS_PY)
            host = _class(tree, ["HookHost"])
            prop = _find(host.body, ast.FunctionDef, "__attrs__") if host is not None else None
            if prop is None or len(prop.body) == 0 or not isinstance(prop.body[-1], ast.Return):
                return None
            stmts = [s for s in prop.body if not (isinstance(s, ast.Expr) and isinstance(s.value, ast.Constant))]
            if len(stmts) != 1:
                return None
            return _sources(stmts[0].value, prop.args.args[0].arg, repo, depth + 1)
        return None
    if isinstance(e, ast.BinOp) and isinstance(e.op, ast.BitOr):
        a, b = _sources(e.left, obj, repo, depth), _sources(e.right, obj, repo, depth)
        if a is None or b is None:
            return None
        return a[0] + b[0], a[1] and b[1]
    if isinstance(e, ast.Call) and _is_name(e.func, "dict") and len(e.args) == 1 and not e.keywords:
        return _sources(e.args[0], obj, repo, depth)
    if isinstance(e, ast.Call) and isinstance(e.func, ast.Attribute) and e.func.attr == "copy" and not e.args:
        return _sources(e.func.value, obj, repo, depth)
    if isinstance(e, (ast.GeneratorExp, ast.DictComp)) and len(e.generators) == 1:
        g = e.generators[0]
        it = g.iter
        if not (isinstance(it, ast.Call) and isinstance(it.func, ast.Attribute) and it.func.attr == "items" and not it.args):
            return None
        inner = _sources(it.func.value, obj, repo, depth)
        if inner is None:
            return None
        keys = {}
        if isinstance(g.target, ast.Name):                           # for e in ….items()
            keys["pair"] = (g.target.id,)
            same = isinstance(e, ast.GeneratorExp) and _is_name(e.elt, g.target.id)
        elif isinstance(g.target, ast.Tuple) and len(g.target.elts) == 2 and all(isinstance(x, ast.Name) for x in g.target.elts):
            k, v = g.target.elts[0].id, g.target.elts[1].id           # for k, v in ….items()
            keys["name"] = (k,)
            if isinstance(e, ast.DictComp):
                same = _is_name(e.key, k) and _is_name(e.value, v)
            else:
                same = (isinstance(e.elt, ast.Tuple) and len(e.elt.elts) == 2 and _is_name(e.elt.elts[0], k)
                        and _is_name(e.elt.elts[1], v))
        else:
            return None
        if not same:
            return None                                               # entries are transformed, not taken over
        return inner[0], inner[1] or _filtered(g.ifs, keys)
    return None


def copy_site(repo, rel, cls_path, template_param):
    """-> (sources or ["?"], lineno, gap or None): the keyword arguments `super().__init__(**…)` receives"""
    tree = _parse(repo, rel)
    cls = _class(tree, cls_path)
    fn = _find(cls.body, ast.FunctionDef, "__init__") if cls is not None else None
    where = ".".join(cls_path) + ".__init__"
    if fn is None:
        return ["?"], 0, f"{where} not found in {rel}"
    if template_param not in [a.arg for a in fn.args.args]:
        return ["?"], fn.lineno, f"{where} has no parameter `{template_param}`"
    assigns = {}
    call = None
    for n in ast.walk(fn):
        if isinstance(n, ast.Assign) and len(n.targets) == 1 and isinstance(n.targets[0], ast.Name):
            assigns.setdefault(n.targets[0].id, []).append(n.value)
        if (isinstance(n, ast.Call) and isinstance(n.func, ast.Attribute) and n.func.attr == "__init__"
                and isinstance(n.func.value, ast.Call) and _is_name(n.func.value.func, "super")):
            call = n if call is None else call
    if call is None:
        return ["?"], fn.lineno, f"{where}: no `super().__init__(...)` call"
    if call.args or len(call.keywords) != 1 or call.keywords[0].arg is not None:
        return ["?"], call.lineno, f"{where}: `{_src(call)}` is not `super().__init__(**<dictionary>)`"
    e = call.keywords[0].value
    if isinstance(e, ast.Name):
        if len(assigns.get(e.id, [])) != 1:
            return ["?"], call.lineno, f"{where}: `{e.id}` is not assigned exactly once"
        e = assigns[e.id][0]
    r = _sources(e, template_param, repo)
    if r is None:
        return ["?"], call.lineno, f"{where}: the keyword dictionary `{_src(e)}` is outside the translated subset"
    srcs, filtered = r
    if not filtered:
        return ["?"], call.lineno, (f"{where}: `{_src(e)}` takes over `_`-prefixed entries of the template's `__dict__` "
                                    "(`__cache__`, back references)")
    return srcs, call.lineno, None


def lean_text(repo):
    """-> (text for Gen/C16.lean, [gaps], {name: value})"""
    gaps, found = [], {}
    conv, ln, gap = hookget_call(repo)
    if gap:
        gaps.append(gap)
    found["hookget_call"] = conv
    lines = [f"/-- {HOOKS_PY} `Hook.__get__`: how an explicit value that is callable is called = (how the number of its",
             "    parameters is determined, [(number of parameters, number of arguments passed)], arguments passed otherwise) -/",
             "def hookget_call : String × List (Nat × Nat) × Nat := (\"%s\", [%s], %d)" % (
                 conv[0], ", ".join(f"({a}, {b})" for a, b in conv[1]), conv[2])]
    copies = []
    for (name, model_cls, rel, path, param) in SITES:
        srcs, ln, gap = copy_site(repo, rel, path, param)
        if gap:
            gaps.append(gap)
        found[name] = srcs
        lines.append(f"/-- {rel} `{'.'.join(path)}.__init__`: the attribute sets of the template that become keyword arguments")
        lines.append("    (explicit values) of the copy, as the sources of a `a | b | …` expression -/")
        lines.append(f"def {name} : List String := [" + ", ".join('"%s"' % s for s in srcs) + "]")
        if model_cls:
            copies.append(f'("{model_cls}", {name})')
    lines.append("/-- model class built by a copy site ↦ its sources -/")
    lines.append("def template_copies : List (String × List String) := [" + ", ".join(copies) + "]")
    return "\n".join(lines) + "\n", gaps, found
