"""(T) extractor for the junction chain of `GenericElongationGroove.__init__` and its contour-line functions.

`extract_chain(repo)` returns an ordered list of (name, expr) where expr is the tuple form of pyexpr over
  * the resolved inputs as variables: r1 r2 r3 r4 alpha3 alpha4 indent even_ground_width pad pad_angle flank_angle
    usable_width ground_width depth   (after the four-way resolution at the top of __init__)
  * ("ref", <earlier name>) for values defined earlier in the chain.
`extract_resolution(repo)` returns the four closed forms of the 'fourth of four' resolution.
`extract_contour_functions(repo)` returns {method name: expr over `z` and chain refs}.
`emit(ctx, pid, ...)` writes lean/PyrollModel/Gen/<pid>Groove.lean (namespace Gen.<pid>.Groove).
"""
import ast
import os

from . import pyexpr
from ..core import LEAN_DIR, REPO

INPUTS = ["r1", "r2", "r3", "r4", "alpha3", "alpha4", "indent", "even_ground_width", "pad", "pad_angle",
          "flank_angle", "usable_width", "ground_width", "depth", "rel_pad"]


def _init_fn(repo=None):
    path = os.path.join(repo or REPO, "pyroll", "core", "grooves", "generic_elongation.py")
    tree = ast.parse(open(path).read())
    cls = next(n for n in tree.body if isinstance(n, ast.ClassDef) and n.name == "GenericElongationGroove")
    return cls, next(n for n in cls.body if isinstance(n, ast.FunctionDef) and n.name == "__init__")


class _ChainTr(pyexpr.ExprTranslator):
    """`self.x` and bare locals resolve to refs of already translated chain entries; parameters to variables"""

    def __init__(self, defined, free):
        super().__init__("self", {}, free)
        self.defined = defined

    def tr(self, n):
        p = pyexpr.attr_path(n)
        if p is not None:
            if p[0] == "self" and len(p) == 2:
                name = p[1].lstrip("_")
                if name in self.defined:
                    return ("ref", self.defined[name])
                if name in INPUTS:
                    return ("var", name)
                raise pyexpr.Untranslatable(f"self.{p[1]} read before assignment")
            if len(p) == 1 and p[0] in self.defined:
                return ("ref", self.defined[p[0]])
        return super().tr(n)


def extract_chain(repo=None):
    """the straight-line assignments of __init__ after the try/except resolution block"""
    cls, init = _init_fn(repo)
    chain = []
    defined = {}        # python name -> lean name
    free = set(INPUTS)
    gaps = []
    after_try = False
    for st in init.body:
        if isinstance(st, ast.Try):
            after_try = True
            continue
        if not after_try:
            continue
        if not isinstance(st, ast.Assign):
            continue
        targets = []
        for t in st.targets:
            p = pyexpr.attr_path(t)
            if p is None:
                targets = None
                break
            if p[0] == "self" and len(p) == 2:
                targets.append(p[1].lstrip("_"))
            elif len(p) == 1:
                targets.append(p[0])
            else:
                targets = None
                break
        if not targets:
            continue
        val = st.value
        # `pad = pad if pad else usable_width * rel_pad` : padding only widens the face, keep `pad` an input
        if isinstance(val, ast.IfExp):
            continue
        # plain re-binding of an input (self.r1 = r1) defines nothing new
        if isinstance(val, ast.Name) and val.id in free and all(t == val.id for t in targets):
            continue
        if isinstance(val, (ast.Call,)) and pyexpr.attr_path(val.func) in (["set"], ["np", "array"], ["LineString"],
                                                                            ["Polygon"], ["np", "concatenate"]):
            continue
        try:
            e = _ChainTr(defined, free).tr(val)
        except pyexpr.Untranslatable as ex:
            # arrays / geometry objects built at the end of __init__ are not part of the chain
            if any(t in ("contour_points", "contour_line", "cross_section", "classifiers") for t in targets) or \
                    targets[0] in ("right_side", "left_side"):
                continue
            gaps.append(f"{targets[0]}: {ex}")
            continue
        lean_name = targets[0]
        chain.append((lean_name, e))
        for t in targets:
            defined[t] = lean_name
            free.discard(t) if t not in INPUTS else None
    return chain, gaps


def extract_resolution(repo=None):
    """{which is None: expr} for the four-way resolution (the non-degenerate `else` branches)"""
    cls, init = _init_fn(repo)
    tr = pyexpr.ExprTranslator("self", {}, set(INPUTS))
    out = {}
    for st in init.body:
        if not isinstance(st, ast.Try):
            continue
        for node in ast.walk(st):
            if isinstance(node, ast.Assign) and len(node.targets) == 1 and isinstance(node.targets[0], ast.Name):
                name = node.targets[0].id
                if name in ("usable_width", "ground_width", "flank_angle", "depth"):
                    try:
                        e = tr.tr(node.value)
                    except pyexpr.Untranslatable:
                        continue
                    if pyexpr.expr_vars(e) and len(pyexpr.expr_vars(e)) > 1:
                        out[name] = e       # the last (non-degenerate) assignment wins
    return out


def extract_defaults(repo=None):
    """[(parameter, expr)] for the parameters of __init__ that have a translatable numeric default"""
    _, init = _init_fn(repo)
    args = init.args.args
    defaults = [None] * (len(args) - len(init.args.defaults)) + list(init.args.defaults)
    tr = pyexpr.ExprTranslator("self", {}, ())
    out = []
    for a, d in zip(args, defaults):
        if d is None or (isinstance(d, ast.Constant) and d.value is None):
            continue
        try:
            out.append((a.arg, tr.tr(d)))
        except pyexpr.Untranslatable:
            continue
    return out


def extract_contour_functions(repo=None, chain_names=()):
    cls, _ = _init_fn(repo)
    defined = {n: n for n in chain_names}
    out = {}
    for fn in cls.body:
        if isinstance(fn, ast.FunctionDef) and fn.name.endswith("_contour_line") and len(fn.args.args) >= 1:
            ret = next((s for s in fn.body if isinstance(s, ast.Return)), None)
            if ret is None:
                continue
            try:
                tr = _ChainTr(dict(defined, depth="depth_in", usable_width="usable_width_in"), {"z"})
                # self.depth / self.flank_angle are properties/attributes holding inputs
                class _T(_ChainTr):
                    def tr(self, n):
                        p = pyexpr.attr_path(n)
                        if p is not None and p[0] == "self" and len(p) == 2 and p[1].lstrip("_") in INPUTS \
                                and p[1].lstrip("_") not in defined:
                            return ("var", p[1].lstrip("_"))
                        return super().tr(n)
                out[fn.name.strip("_")] = _T(defined, {"z"}).tr(ret.value)
            except pyexpr.Untranslatable:
                continue
    return out


def chain_eval(chain, inputs):
    """python-float evaluation of the extracted chain (used to cross-check it against a real groove object)"""
    env = dict(inputs)
    vals = {}
    for name, e in chain:
        v = pyexpr.py_eval(e, env)
        vals[name] = v
        env["@" + name] = v
    return vals


def emit(ctx, pid, with_resolution=True, with_contours=True):
    chain, gaps = extract_chain()
    for g in gaps:
        ctx.tie_breaks.append(f"translator: groove chain entry outside the subset: {g}")
    ns = f"Gen.{pid}.Groove"
    lines = ["import PyrollModel.Expr",
             "/- GENERATED by driver/translate/groove.py from pyroll/core/grooves/generic_elongation.py - do not edit. -/",
             f"namespace {ns}", ""]
    for name, e in chain:
        lines.append(f"def {name} : Expr := {pyexpr.lean_expr(e)}")
    lines.append("")
    lines.append("def chain : List (String × Expr) := [" + ", ".join(f"(\"{n}\", {n})" for n, _ in chain) + "]")
    res = {}
    if with_resolution:
        res = extract_resolution()
        for k, e in sorted(res.items()):
            lines.append(f"def resolve_{k} : Expr := {pyexpr.lean_expr(e)}")
        for k in ("usable_width", "ground_width", "flank_angle", "depth"):
            if k not in res:
                ctx.tie_breaks.append(f"translator: four-way resolution branch for {k} not found")
    cf = {}
    if with_contours:
        cf = extract_contour_functions(chain_names=[n for n, _ in chain])
        for k, e in sorted(cf.items()):
            lines.append(f"def fn_{k} : Expr := {pyexpr.lean_expr(e)}")
    lines.append("")
    dflt = extract_defaults()
    lines.append("/-- numeric defaults of the optional parameters of `GenericElongationGroove.__init__` -/")
    lines.append("def defaults : List (String × Expr) := [" + ", ".join(
        f"({pyexpr.lean_str(k)}, {pyexpr.lean_expr(e)})" for k, e in dflt) + "]")
    lines.append("")
    lines.append("/-- everything above by name (for the Float evaluation driver) -/")
    lines.append("def table : List (String × Expr) := chain ++ ["
                 + ", ".join([f"(\"resolve_{k}\", resolve_{k})" for k in sorted(res)]
                             + [f"(\"fn_{k}\", fn_{k})" for k in sorted(cf)]) + "]")
    lines.append("")
    lines.append(f"end {ns}")
    text = "\n".join(lines) + "\n"
    changed = pyexpr.write_if_changed(os.path.join(LEAN_DIR, "PyrollModel", "Gen", f"{pid}Groove.lean"), text)
    ctx.notes.setdefault("generated", {})[f"Gen/{pid}Groove.lean"] = {"chain": len(chain), "rewritten": changed}
    return chain, res, cf
