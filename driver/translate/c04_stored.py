"""(T) extractor for the values a groove object KEEPS and HANDS OUT (property C04).

`c04_solvers.py` translates what a solver-backed constructor hands to `GenericElongationGroove.__init__`.  A constructor
may in addition store values on the object itself (`self._tip_angle = tip_angle`) which the class hands out through public
properties (`groove.tip_angle`) or as plain public attributes (`groove.rib_width`).  Those values are part of what the groove
*reports*: when one of them is derived (the member of the tip triangle that was not given) it must satisfy the same defining
relation as the values that go into the contour, whatever subset was given.  This module emits, from the source of every
run, `lean/PyrollModel/Gen/<PID>Stored.lean`:

    stored_<Class>[_<k>]   : List (String x Expr)   per returning None-pattern k of the constructor (numbering = that of
                                                    `plumb_<Class>_<k>`): attribute -> the expression stored, over the
                                                    constructor's own parameters (`sol.<key>` = solver results); an
                                                    attribute stored as `None` in that pattern is left out
    getters_<Class>        : List (String x Expr)   public property -> the expression its body returns, over the variables
                                                    `self.<attribute>` (a plain `return self._x` is `.var "self._x"`, a
                                                    getter that converts a unit shows the conversion)
    reported_<Class>[_<k>] : List (String x Expr)   what the finished object reports under a public name, per pattern:
                                                    every getter with the stored expressions substituted + every public
                                                    attribute (no leading underscore) stored by the constructor
    getters_GenericElongationGroove                 the numeric properties of the generic class over the chain variables
                                                    (`self.z1` -> `.var "z1"`, `self._depth` -> `.var "depth"`: the naming of
                                                    `groove.py`)
    storedInventory        : List (String x List String)   which class stores which attributes (any pattern)
    reportedTable          : List (String x Expr)   everything above by name, for the Float evaluation driver

Subset: a getter is a function decorated with exactly `@property` whose body is a docstring and one `return <expr>`;
`<expr>` is translated by `pyexpr.ExprTranslator`.  A getter outside the subset is ignored when it does not read a stored
numeric attribute (`classifiers`, `__attrs__`, `contour_line`) and is a translator gap (`ctx.tie_breaks`) when it does.  A
stored value outside the subset is a gap.  Statements after the base constructor call are executed by `c04_solvers.Exec`
(stores are recorded; anything else is a gap there).
"""
import ast
import os

from . import c04_solvers as S
from . import groove
from . import pyexpr
from .pyexpr import Untranslatable
from ..core import LEAN_DIR

GENERIC = ("generic_elongation.py", "GenericElongationGroove")


class _GetterTr(pyexpr.ExprTranslator):
    """`self.<attr>` -> ("var", "self.<attr>"); everything else as in the base translator (no free names, no locals)"""

    def __init__(self):
        super().__init__("self", {}, ())

    def tr(self, n):
        if isinstance(n, ast.Attribute):
            p = pyexpr.attr_path(n)
            if p is not None and p[0] == "self" and len(p) == 2:
                return ("var", "self." + p[1])
        return super().tr(n)


def _is_property(fn):
    return len(fn.decorator_list) == 1 and isinstance(fn.decorator_list[0], ast.Name) and fn.decorator_list[0].id == "property"


def _reads(fn):
    """names X of every `self.X` appearing in the function"""
    out = set()
    for n in ast.walk(fn):
        if isinstance(n, ast.Attribute) and isinstance(n.value, ast.Name) and n.value.id == "self":
            out.add(n.attr)
    return out


def extract_getters(cls):
    """{property name: ("expr", Expr, reads) | ("opaque", reason, reads)} for the `@property` functions of the class node"""
    out = {}
    for fn in cls.body:
        if not (isinstance(fn, ast.FunctionDef) and any(
                (isinstance(d, ast.Name) and d.id == "property") for d in fn.decorator_list)):
            continue
        reads = _reads(fn)
        body = [st for st in fn.body if not (isinstance(st, ast.Expr) and isinstance(st.value, ast.Constant))]
        if not _is_property(fn) or len(body) != 1 or not isinstance(body[0], ast.Return) or body[0].value is None:
            out[fn.name] = ("opaque", "body is not a single `return <expr>` / further decorators", reads)
            continue
        try:
            out[fn.name] = ("expr", _GetterTr().tr(body[0].value), reads)
        except Untranslatable as ex:
            out[fn.name] = ("opaque", str(ex), reads)
    return out


def subst_vars(e, env):
    """replace every ("var", n) with n in env by env[n]"""
    if not isinstance(e, tuple):
        return e
    if e[0] == "var":
        return env.get(e[1], e)
    return tuple(subst_vars(x, env) for x in e)


def lean_names(info):
    """{pattern string: suffix} with the numbering `c04_solvers.emit` gives the plumbing lists ("" for a single pattern)"""
    rets = [p for p, oc in info["patterns"].items() if oc.kind == "return"]
    return {p: (f"_{i + 1}" if len(rets) > 1 else "") for i, p in enumerate(rets)}


def extract(classes, repo=None):
    """{class: {"getters": {...}, "stored_names": [...], "patterns": {pattern string: {"suffix", "stored": {attr: Expr},
                "none": [attr], "reported": {public name: Expr}}}, "gaps": [...]}}  for the classes of `c04_solvers.CLASSES`
    that store something of their own or define numeric getters, plus the generic class's getters under its own name."""
    out = {}
    for rel, cname in S.CLASSES:
        info = classes.get(cname)
        if info is None or not info["patterns"]:
            continue
        try:
            tree = S._parse(rel, repo)
            cls = next(n for n in tree.body if isinstance(n, ast.ClassDef) and n.name == cname)
        except (OSError, StopIteration):
            continue                        # already reported by c04_solvers
        names = []
        for oc in info["patterns"].values():
            if oc.kind == "return":
                for k in getattr(oc, "stores", {}):
                    if k not in names:
                        names.append(k)
        getters = extract_getters(cls)
        entry = {"getters": {}, "stored_names": names, "patterns": {}, "gaps": []}
        for g, (kind, val, reads) in getters.items():
            if kind == "expr":
                vs = [v[5:] for v in pyexpr.expr_vars(val) if v.startswith("self.")]
                if vs and all(v in names for v in vs):
                    entry["getters"][g] = val
                elif vs:
                    # a numeric property of a subclass that reads what the base constructor (or nobody) stored: it would
                    # replace / add to what the generic class reports - not modelled
                    entry["gaps"].append(f"{cname}.{g}: numeric property reading attributes the class does not store itself "
                                         f"({sorted(vs)})")
            elif reads & set(names):
                entry["gaps"].append(f"{cname}.{g}: getter reading the stored attribute(s) {sorted(reads & set(names))} "
                                     f"is outside the subset: {val}")
        if not names and not entry["getters"] and not entry["gaps"]:
            continue
        for pstr, suffix in lean_names(info).items():
            oc = info["patterns"][pstr]
            stored, none = {}, []
            for k, v in getattr(oc, "stores", {}).items():
                if v is None:
                    none.append(k)
                elif isinstance(v, tuple):
                    stored[k] = v
                else:
                    entry["gaps"].append(f"{cname}.__init__ [{pstr}]: value stored as self.{k} is outside the subset: {v!r}")
            reported = {}
            for g, e in entry["getters"].items():
                vs = [v[5:] for v in pyexpr.expr_vars(e) if v.startswith("self.")]
                if all(v in stored for v in vs):
                    reported[g] = subst_vars(e, {"self." + k: v for k, v in stored.items()})
            for k, v in stored.items():
                if not k.startswith("_") and k not in reported:
                    reported[k] = v
            entry["patterns"][pstr] = {"suffix": suffix, "stored": stored, "none": none, "reported": reported}
        out[cname] = entry
    out[GENERIC[1]] = {"getters": extract_generic_getters(repo), "stored_names": [], "patterns": {}, "gaps": []}
    return out


def extract_generic_getters(repo=None):
    """numeric `@property` getters of `GenericElongationGroove` over the chain variables of `groove.py` (attribute names
    without leading underscores: `self._usable_width` is the input/resolved value `usable_width`, `self.z1` the chain entry)"""
    try:
        tree = S._parse(GENERIC[0], repo)
        cls = next(n for n in tree.body if isinstance(n, ast.ClassDef) and n.name == GENERIC[1])
        chain, _ = groove.extract_chain(repo)
    except Exception:
        return {}                           # reported by groove.py / c04_solvers
    numeric = set(groove.INPUTS) | {n for n, _ in chain}
    out = {}
    for g, (kind, val, reads) in extract_getters(cls).items():
        if kind != "expr":
            continue
        vs = [v[5:] for v in pyexpr.expr_vars(val) if v.startswith("self.")]
        if vs and all(v.lstrip("_") in numeric for v in vs):
            out[g] = subst_vars(val, {"self." + v: ("var", v.lstrip("_")) for v in vs})
    return out


def _lst(pairs):
    return "[" + ", ".join(f"({pyexpr.lean_str(k)}, {pyexpr.lean_expr(e)})" for k, e in pairs) + "]"


def emit(ctx, pid, classes, repo=None):
    found = extract(classes, repo)
    L = ["import PyrollModel.Expr",
         "/- GENERATED by driver/translate/c04_stored.py from the groove classes of pyroll/core/grooves - do not edit.",
         "   What a groove object keeps beyond the keyword arguments handed to `GenericElongationGroove.__init__`",
         "   (`stored_*`, per None-pattern, numbering of `plumb_*` in Gen/C04.lean), what its public properties return",
         "   (`getters_*`, over the variables `self.<attribute>`) and the two combined (`reported_*`: the value the finished",
         "   object reports under a public name, over the constructor's own parameters). -/",
         f"namespace Gen.{pid}.Stored", ""]
    table, inventory = [], []
    for cname, entry in found.items():
        for g in entry["gaps"]:
            ctx.tie_breaks.append("translator: " + g)
        if cname == GENERIC[1]:
            continue
        inventory.append((cname, sorted(entry["stored_names"])))
        L.append(f"/-! ### {cname} -/")
        L.append(f"def getters_{cname} : List (String × Expr) := " + _lst(entry["getters"].items()))
        for pstr, pt in entry["patterns"].items():
            L.append(f"-- {cname}({pstr})" + (f"; stored as None: {', '.join(pt['none'])}" if pt["none"] else ""))
            L.append(f"def stored_{cname}{pt['suffix']} : List (String × Expr) := " + _lst(pt["stored"].items()))
            L.append(f"def reported_{cname}{pt['suffix']} : List (String × Expr) := " + _lst(pt["reported"].items()))
            table.append(f"reported_{cname}{pt['suffix']}")
        L.append("")
    gg = found[GENERIC[1]]["getters"]
    L.append(f"/-! ### {GENERIC[1]}: numeric properties over the chain variables (`z1` = chain entry, `depth` = resolved input) -/")
    L.append(f"def getters_{GENERIC[1]} : List (String × Expr) := " + _lst(gg.items()))
    L.append("")
    L.append("/-- which class stores which attributes on the object (in any pattern) -/")
    L.append("def storedInventory : List (String × List String) := [" + ", ".join(
        f"({pyexpr.lean_str(c)}, [" + ", ".join(pyexpr.lean_str(n) for n in ns) + "])" for c, ns in inventory) + "]")
    L.append("/-- every reported value as `<list name>.<public name>` (for the Float evaluation driver) -/")
    L.append("def reportedTable : List (String × Expr) :=")
    L.append("  ([" + ", ".join(f"({pyexpr.lean_str(n)}, {n})" for n in table + [f"getters_{GENERIC[1]}"])
             + "] : List (String × List (String × Expr))).flatMap")
    L.append("    (fun p => p.2.map (fun kv => (p.1 ++ \".\" ++ kv.1, kv.2)))")
    L.append("")
    L.append(f"end Gen.{pid}.Stored")
    text = "\n".join(L) + "\n"
    changed = pyexpr.write_if_changed(os.path.join(LEAN_DIR, "PyrollModel", "Gen", f"{pid}Stored.lean"), text)
    ctx.notes.setdefault("generated", {})[f"Gen/{pid}Stored.lean"] = {
        "defs": sum(len(pt["reported"]) for e in found.values() for pt in e["patterns"].values()) + len(gg),
        "rewritten": changed}
    return found
