"""(T) for C19: read the two velocity loops of pyroll/core/sequence/sequence.py and the continuity hook
implementations out of /repo's working tree and emit lean/PyrollModel/Gen/C19.lean.

The loops are recognised by AST pattern (node types, never source text).  Every statement of the two functions must
fall into one of the roles below; anything else raises `Untranslatable` (reported as a broken tie).  What is emitted:

  * `back_rec_e / fwd_rec_e : Expr`   the recurrence over the variables v_src, a_src (the neighbour that is read)
                                      and a_dst (the area at the index that is written)
  * `back_seed_e / fwd_seed_e : Expr` the value written to the anchor index before the first sweep
  * `back_tol_e / fwd_tol_e : Expr`   the literal of the stop test
  * `backward_shape / forward_shape : Velo.Shape`   seeding index, area override, sweep range + neighbour offset,
                                      statement order, budget expression, stop-test quantifier/strictness and what
                                      happens when the budget is exhausted (for/else)
  * the hook implementations in/out profile velocity, pass velocity, roll working velocity as `Impl` + one `Expr`
    per guarded alternative, and `table` for the evaluation driver.
"""
import ast
import os

from . import pyexpr
from .pyexpr import Untranslatable
from ..core import LEAN_DIR, REPO

SEQ = "sequence/sequence.py"
HOOKS = [
    ("in_velocity", "roll_pass/hookimpls/profile.py", "in_velocity"),
    ("out_velocity", "roll_pass/hookimpls/profile.py", "out_velocity"),
    ("pass_velocity", "roll_pass/hookimpls/symmetric_roll_pass.py", "velocity"),
    ("working_velocity", "roll_pass/hookimpls/roll.py", "working_velocity"),
    # what the two guards of the round trip  velocity -> working velocity -> velocity  rest on
    ("neutral_angle", "roll_pass/hookimpls/roll.py", "neutral_angle"),
    ("exit_angle", "roll_pass/hookimpls/roll.py", "exit_angle"),
    ("exit_point", "roll_pass/hookimpls/base_roll_pass.py", "exit_point"),
    # the flux a unit reports and how a velocity travels through units that are no roll passes (pyroll/core/unit/hookimpls.py)
    ("volume_flux", "unit/hookimpls.py", "volume_flux"),
    ("unit_out_velocity", "unit/hookimpls.py", "out_velocity"),
    ("unit_velocity", "unit/hookimpls.py", "velocity"),
]


# ---- `name = A if T else B` --------------------------------------------------------------------------------

def _split_conditional_assignments(fn: ast.FunctionDef):
    """`x = A if T else B; rest`  ->  `if T: x = A; rest  else: x = B; rest`  (same evaluation order, same values);
    pyexpr.extract_function handles the result, the conditional expression itself is outside its subset"""
    import copy

    def rewrite(stmts):
        for i, st in enumerate(stmts):
            if isinstance(st, ast.Assign) and len(st.targets) == 1 and isinstance(st.targets[0], ast.Name) \
                    and isinstance(st.value, ast.IfExp):
                rest = stmts[i + 1:]

                def branch(val):
                    a = ast.Assign(targets=copy.deepcopy(st.targets), value=copy.deepcopy(val), lineno=st.lineno)
                    return rewrite([a] + copy.deepcopy(rest))
                new = ast.If(test=copy.deepcopy(st.value.test), body=branch(st.value.body), orelse=branch(st.value.orelse))
                return stmts[:i] + [new]
        return stmts
    fn2 = copy.deepcopy(fn)
    fn2.body = rewrite(fn2.body)
    return ast.fix_missing_locations(fn2)


def hookimpl_index(relpaths, repo=None):
    """like gen.hookimpl_index, with conditional local assignments split into branches first"""
    idx = {}
    for rel in relpaths:
        path = os.path.join(repo or REPO, "pyroll", "core", rel)
        src = open(path).read()
        for node in ast.parse(src).body:
            if not isinstance(node, ast.FunctionDef):
                continue
            for dec in node.decorator_list:
                info = pyexpr._decorator_info(dec)
                if info is None:
                    continue
                impl = pyexpr.HookImpl()
                impl.module = rel
                impl.host, impl.hook, impl.tier, impl.wrapper = info
                impl.fn = node.name
                impl.lineno = node.lineno
                impl.src = ast.get_source_segment(src, node)
                pyexpr.extract_function(_split_conditional_assignments(node), impl)
                idx[(rel, impl.fn)] = impl
    return idx


# ---- small AST helpers --------------------------------------------------------------------------------

def _name(n):
    return n.id if isinstance(n, ast.Name) else None


def _call_name(n):
    """np.asarray(...) -> 'np.asarray', f(...) -> 'f', self.solve(...) -> 'self.solve'"""
    if not isinstance(n, ast.Call):
        return None
    p = pyexpr.attr_path(n.func)
    return ".".join(p) if p else None


def _args(call, names):
    """positional-or-keyword arguments of a call by parameter names"""
    out = {}
    for k, a in zip(names, call.args):
        out[k] = a
    for kw in call.keywords:
        if kw.arg in names:
            out[kw.arg] = kw.value
    return out


def _int_const(n):
    if isinstance(n, ast.Constant) and isinstance(n.value, int) and not isinstance(n.value, bool):
        return n.value
    if isinstance(n, ast.UnaryOp) and isinstance(n.op, ast.USub):
        v = _int_const(n.operand)
        return None if v is None else -v
    return None


def _affine(n):
    """c, len(X), len(X) + c, len(X) - c  ->  (len_coeff, const, X or None)"""
    c = _int_const(n)
    if c is not None:
        return (0, c, None)
    if isinstance(n, ast.Call) and _name(n.func) == "len" and len(n.args) == 1 and _name(n.args[0]):
        return (1, 0, _name(n.args[0]))
    if isinstance(n, ast.BinOp) and isinstance(n.op, (ast.Add, ast.Sub)):
        a, b = _affine(n.left), _affine(n.right)
        s = 1 if isinstance(n.op, ast.Add) else -1
        if a[2] and b[2] and a[2] != b[2]:
            raise Untranslatable("range bound mixes two lengths")
        return (a[0] + s * b[0], a[1] + s * b[1], a[2] or b[2])
    raise Untranslatable(f"range bound {ast.unparse(n)}")


def _range(n):
    if not (isinstance(n, ast.Call) and _name(n.func) == "range" and not n.keywords and 1 <= len(n.args) <= 3):
        raise Untranslatable(f"loop iterable {ast.unparse(n)}")
    a = n.args
    if len(a) == 1:
        return (0, 0, None), _affine(a[0]), 1
    step = 1
    if len(a) == 3:
        step = _int_const(a[2])
        if step is None or step == 0:
            raise Untranslatable("range step")
    return _affine(a[0]), _affine(a[1]), step


def _index_offset(idx, loop_var):
    """i -> 0, i + 1 -> 1, i - 1 -> -1"""
    if _name(idx) == loop_var:
        return 0
    if isinstance(idx, ast.BinOp) and _name(idx.left) == loop_var and isinstance(idx.op, (ast.Add, ast.Sub)):
        c = _int_const(idx.right)
        if c is not None:
            return c if isinstance(idx.op, ast.Add) else -c
    raise Untranslatable(f"index {ast.unparse(idx)}")


def _per_pass_listcomp(n, self_name):
    """[roll_pass.a.b for roll_pass in self.roll_passes] (optionally wrapped in np.asarray) -> 'a.b'"""
    if _call_name(n) in ("np.asarray", "np.array", "numpy.asarray", "numpy.array") and len(n.args) == 1:
        n = n.args[0]
    if isinstance(n, ast.ListComp) and len(n.generators) == 1 and not n.generators[0].ifs:
        g = n.generators[0]
        it = pyexpr.attr_path(g.iter)
        elt = pyexpr.attr_path(n.elt)
        if it == [self_name, "roll_passes"] and _name(g.target) and elt and elt[0] == g.target.id and len(elt) > 1:
            return ".".join(elt[1:])
    return None


# ---- inner helper functions -----------------------------------------------------------------------------

def _sweep_def(fn):
    """def calculate_velocities_array(velocities, cross_sections_areas): for i in range(..): velocities[i] = <expr>"""
    params = [a.arg for a in fn.args.args]
    if len(params) != 2:
        raise Untranslatable("sweep helper: parameters")
    vname, aname = params
    body = [s for s in fn.body if not (isinstance(s, ast.Expr) and isinstance(s.value, ast.Constant))]
    if len(body) != 1 or not isinstance(body[0], ast.For) or body[0].orelse:
        raise Untranslatable("sweep helper: body is not a single for loop")
    loop = body[0]
    i = _name(loop.target)
    start, stop, step = _range(loop.iter)
    if len(loop.body) != 1 or not isinstance(loop.body[0], ast.Assign) or len(loop.body[0].targets) != 1:
        raise Untranslatable("sweep helper: loop body is not a single assignment")
    asg = loop.body[0]
    tgt = asg.targets[0]
    if not (isinstance(tgt, ast.Subscript) and _name(tgt.value) == vname and _index_offset(tgt.slice, i) == 0):
        raise Untranslatable("sweep helper: assignment target is not velocities[i]")
    offsets = set()

    class Sub(ast.NodeTransformer):
        def visit_Subscript(self, node):
            base = _name(node.value)
            if base not in (vname, aname):
                raise Untranslatable(f"sweep helper reads {ast.unparse(node)}")
            off = _index_offset(node.slice, i)
            if off == 0:
                if base == vname:
                    raise Untranslatable("recurrence reads the entry it writes")
                return ast.Name(id="a_dst", ctx=ast.Load())
            offsets.add(off)
            return ast.Name(id="v_src" if base == vname else "a_src", ctx=ast.Load())

    rhs = Sub().visit(asg.value)
    if len(offsets) != 1:
        raise Untranslatable(f"recurrence reads neighbours at offsets {sorted(offsets)}")
    e = pyexpr.ExprTranslator("self", {}, free_names=("v_src", "a_src", "a_dst")).tr(rhs)
    lens = {x[2] for x in (start, stop) if x[2]}
    return {"name": fn.name, "params": params, "start": start, "stop": stop, "step": step,
            "offset": offsets.pop(), "expr": e, "len_of": sorted(lens)}


def _set_def(fn):
    """def set_velocities_to_roll_passes(roll_passes, velocities): for rp, v in zip(roll_passes, velocities): rp.velocity = v"""
    params = [a.arg for a in fn.args.args]
    body = [s for s in fn.body if not (isinstance(s, ast.Expr) and isinstance(s.value, ast.Constant))]
    if len(params) != 2 or len(body) != 1 or not isinstance(body[0], ast.For) or body[0].orelse:
        raise Untranslatable("set helper: shape")
    loop = body[0]
    if not (isinstance(loop.target, ast.Tuple) and len(loop.target.elts) == 2 and _call_name(loop.iter) == "zip"
            and [_name(a) for a in loop.iter.args] == params and not loop.iter.keywords):
        raise Untranslatable("set helper: not `for rp, v in zip(roll_passes, velocities)`")
    rp, v = (_name(x) for x in loop.target.elts)
    if len(loop.body) != 1 or not isinstance(loop.body[0], ast.Assign):
        raise Untranslatable("set helper: body")
    asg = loop.body[0]
    t = pyexpr.attr_path(asg.targets[0])
    if not (t and t[0] == rp and len(t) == 2 and _name(asg.value) == v):
        raise Untranslatable("set helper: assignment")
    return {"name": fn.name, "params": params, "attr": t[1]}


# ---- one velocity function ---------------------------------------------------------------------------------

def extract_loop(fn: ast.FunctionDef):
    self_name = fn.args.args[0].arg
    params = [a.arg for a in fn.args.args[1:]]
    tr = pyexpr.ExprTranslator(self_name, {p: ("var", p) for p in params})
    sweep = setter = None
    arrays = {}          # local name -> ("areas", attr) | ("zeros",) | ("prior", attr) | ("copy", of) | ("diff", a, b)
    prelude, seeds, override = [], [], None
    info = {"fn": fn.name, "params": params}

    def classify_call(st, roles):
        """calls of the two helpers / self.solve inside prelude or loop body"""
        c = st.value
        cn = _call_name(c)
        if sweep and cn == sweep["name"]:
            a = _args(c, sweep["params"])
            if set(a) != set(sweep["params"]):
                raise Untranslatable("sweep call arguments")
            roles.append("sweep")
            return ("sweep", _name(a[sweep["params"][0]]), _name(a[sweep["params"][1]]))
        if setter and cn == setter["name"]:
            a = _args(c, setter["params"])
            rp = pyexpr.attr_path(a.get(setter["params"][0]))
            if rp != [self_name, "roll_passes"]:
                raise Untranslatable("set call: roll passes")
            roles.append("set")
            return ("set", _name(a[setter["params"][1]]))
        if cn == f"{self_name}.solve":
            if len(c.args) != 1 or _name(c.args[0]) != params[0] or c.keywords:
                raise Untranslatable("solve call arguments")
            roles.append("solve")
            return ("solve",)
        raise Untranslatable(f"call {ast.unparse(c)[:80]}")

    stmts = [s for s in fn.body if not (isinstance(s, ast.Expr) and isinstance(s.value, ast.Constant))]
    main_loop = None
    for st in stmts:
        if main_loop is not None:
            raise Untranslatable(f"statement after the iteration loop: {ast.unparse(st)[:80]}")
        if isinstance(st, ast.FunctionDef):
            try:
                sweep_c = _sweep_def(st)
                if sweep is not None:
                    raise Untranslatable("two sweep helpers")
                sweep = sweep_c
                continue
            except Untranslatable as ex1:
                try:
                    setter = _set_def(st)
                    continue
                except Untranslatable:
                    raise ex1
        if isinstance(st, ast.Assign) and len(st.targets) == 1:
            tgt = st.targets[0]
            if _name(tgt):
                attr = _per_pass_listcomp(st.value, self_name)
                if attr is not None:
                    arrays[tgt.id] = ("areas", attr)
                    prelude.append("areas")
                    info["seedAreasFrom"] = attr
                    info["seedAreasName"] = tgt.id
                    continue
                if _call_name(st.value) in ("np.zeros_like", "numpy.zeros_like") and len(st.value.args) == 1 \
                        and _name(st.value.args[0]) in arrays:
                    # the velocity array holds floats whatever the type of the prescribed speed is (the model's carrier is a
                    # real / Float): `dtype=float` (or none: the array then has the float dtype of the areas)
                    for kw in st.value.keywords:
                        if kw.arg != "dtype" or (_name(kw.value) != "float" and
                                                 pyexpr.attr_path(kw.value) not in (["np", "float64"], ["numpy", "float64"])):
                            raise Untranslatable(f"velocity array: {ast.unparse(st.value)[:80]}")
                    arrays[tgt.id] = ("zeros",)
                    prelude.append("zeros")
                    info["velName"] = tgt.id
                    continue
            if isinstance(tgt, ast.Subscript) and _name(tgt.value) in arrays:
                idx = _int_const(tgt.slice)
                if idx is None:
                    raise Untranslatable(f"seeding index {ast.unparse(tgt.slice)}")
                kind = arrays[tgt.value.id][0]
                if kind == "zeros":
                    seeds.append((idx, tr.tr(st.value)))
                    prelude.append("seed")
                    continue
                if kind == "areas":
                    if override is not None or _name(st.value) not in params:
                        raise Untranslatable("area override")
                    override = (idx, st.value.id)
                    prelude.append("override")
                    continue
            raise Untranslatable(f"assignment {ast.unparse(st)[:80]}")
        if isinstance(st, ast.Expr) and isinstance(st.value, ast.Call):
            r = classify_call(st, prelude)
            if r[0] == "sweep" and (r[1] != info.get("velName") or r[2] != info.get("seedAreasName")):
                raise Untranslatable("seed sweep arguments")
            if r[0] == "set" and r[1] != info.get("velName"):
                raise Untranslatable("seed set arguments")
            continue
        if isinstance(st, ast.For):
            main_loop = st
            continue
        raise Untranslatable(f"statement {type(st).__name__}: {ast.unparse(st)[:80]}")
    if sweep is None or setter is None or main_loop is None or len(seeds) != 1:
        raise Untranslatable("missing sweep helper / set helper / iteration loop / exactly one seeded index")

    # ---- the iteration loop --------------------------------------------------------------------------
    mi = main_loop.iter
    if not (isinstance(mi, ast.Call) and _name(mi.func) == "range" and len(mi.args) == 1 and not mi.keywords):
        raise Untranslatable(f"iteration loop iterable {ast.unparse(mi)}")
    bp = pyexpr.attr_path(mi.args[0])
    if not (bp and bp[0] == self_name and len(bp) == 2):
        raise Untranslatable(f"iteration budget {ast.unparse(mi)}")
    for nm in sweep["len_of"]:
        # every array whose len() bounds the sweep must have one entry per roll pass
        if nm not in sweep["params"] and nm not in (info.get("seedAreasName"), info.get("velName")):
            raise Untranslatable(f"sweep range bound len({nm})")
    info["budget"] = bp[1]
    body, local = [], {}
    test = None
    for st in main_loop.body:
        if isinstance(st, ast.Assign) and len(st.targets) == 1 and _name(st.targets[0]):
            nm = st.targets[0].id
            v = st.value
            attr = _per_pass_listcomp(v, self_name)
            if attr is not None:
                local[nm] = ("percol", attr)
                body.append(("percol", nm))          # role (prior / areas) resolved by its use below
                continue
            if isinstance(v, ast.Call) and isinstance(v.func, ast.Attribute) and v.func.attr == "copy" \
                    and not v.args and local.get(_name(v.func.value), ("",))[0] == "percol" and "priorName" not in info:
                local[nm] = ("copy",)
                info["priorName"] = v.func.value.id
                info["priorFrom"] = local[v.func.value.id][1]
                info["curName"] = nm
                body.append("copy")
                continue
            if _call_name(v) in ("np.abs", "numpy.abs", "abs", "np.absolute") and len(v.args) == 1 \
                    and isinstance(v.args[0], ast.BinOp) and isinstance(v.args[0].op, ast.Sub) \
                    and {_name(v.args[0].left), _name(v.args[0].right)} == {info.get("priorName"), info.get("curName")}:
                local[nm] = ("diff",)
                info["diffName"] = nm
                body.append("diff")
                continue
            raise Untranslatable(f"loop assignment {ast.unparse(st)[:80]}")
        if isinstance(st, ast.Expr) and isinstance(st.value, ast.Call):
            r = classify_call(st, body)
            if r[0] == "sweep":
                if r[1] != info.get("curName") or local.get(r[2], ("",))[0] != "percol" or r[2] == info.get("priorName"):
                    raise Untranslatable("loop sweep arguments")
                info["loopAreasName"] = r[2]
                info["loopAreasFrom"] = local[r[2]][1]
            if r[0] == "set" and r[1] != info.get("curName"):
                raise Untranslatable("loop set arguments")
            continue
        if isinstance(st, ast.If) and not st.orelse and len(st.body) == 1 and isinstance(st.body[0], ast.Break):
            t = st.test
            quant = _call_name(t)
            if quant not in ("np.all", "np.any", "numpy.all", "numpy.any", "all", "any") or len(t.args) != 1:
                raise Untranslatable(f"stop test {ast.unparse(t)}")
            cmp_ = t.args[0]
            if not (isinstance(cmp_, ast.Compare) and len(cmp_.ops) == 1 and isinstance(cmp_.ops[0], (ast.Lt, ast.LtE))
                    and _name(cmp_.left) == info.get("diffName")):
                raise Untranslatable(f"stop test comparison {ast.unparse(cmp_)}")
            test = {"all": quant.endswith("all"), "strict": isinstance(cmp_.ops[0], ast.Lt),
                    "tol": tr.tr(cmp_.comparators[0])}
            body.append("test")
            continue
        raise Untranslatable(f"loop statement {type(st).__name__}: {ast.unparse(st)[:80]}")
    if test is None:
        raise Untranslatable("no stop test in the iteration loop")
    roles = []
    for b in body:
        if isinstance(b, tuple):
            if b[1] == info.get("priorName"):
                roles.append("prior")
            elif b[1] == info.get("loopAreasName"):
                roles.append("areas")
            else:
                raise Untranslatable(f"per-pass list {b[1]} is read but not used")
        else:
            roles.append(b)
    body = roles
    if not main_loop.orelse:
        exhaustion = "silent"
    elif any(isinstance(s, ast.Raise) for s in main_loop.orelse):
        exhaustion = "raise"
    elif all(isinstance(s, ast.Expr) and (_call_name(s.value) or "").split(".")[-1] in ("warning", "warn", "error", "info")
             for s in main_loop.orelse):
        exhaustion = "warn"
    else:
        raise Untranslatable("for/else of the iteration loop")
    info.update(sweep=sweep, set_attr=setter["attr"], seed=seeds[0], override=override, prelude=prelude, body=body,
                test=test, exhaustion=exhaustion)
    for k in ("seedAreasFrom", "priorFrom", "loopAreasFrom"):
        if k not in info:
            raise Untranslatable(f"loop does not read {k}")
    return info


def extract_roll_passes(cls: ast.ClassDef, self_name="self"):
    """the property `PassSequence.roll_passes`:  `return list(u for u in self._subunits if isinstance(u, BaseRollPass))`
    (generator expression or list comprehension, with or without `list(...)`) as the ONLY statement -> PassesShape fields"""
    fn = None
    for f in cls.body:
        if isinstance(f, ast.FunctionDef) and f.name == "roll_passes":
            if not any(_name(d) == "property" for d in f.decorator_list) or len(f.decorator_list) != 1:
                raise Untranslatable("roll_passes is not a plain property")
            if fn is not None:
                raise Untranslatable("roll_passes defined twice")
            fn = f
    if fn is None:
        raise Untranslatable("PassSequence.roll_passes not found")
    for st in cls.body:
        # a setter / class attribute of that name would be state next to the unit list
        if isinstance(st, (ast.Assign, ast.AnnAssign)):
            tg = st.targets if isinstance(st, ast.Assign) else [st.target]
            if any(_name(t) == "roll_passes" for t in tg):
                raise Untranslatable("class attribute roll_passes")
    sn = fn.args.args[0].arg
    body = [s_ for s_ in fn.body if not (isinstance(s_, ast.Expr) and isinstance(s_.value, ast.Constant))]
    if len(body) != 1 or not isinstance(body[0], ast.Return) or body[0].value is None:
        raise Untranslatable("roll_passes: the body is not a single return statement (the list is not built anew on every access)")
    v = body[0].value
    if isinstance(v, ast.Call) and _name(v.func) == "list" and len(v.args) == 1 and not v.keywords:
        v = v.args[0]
    if not (isinstance(v, (ast.GeneratorExp, ast.ListComp)) and len(v.generators) == 1):
        raise Untranslatable(f"roll_passes: {ast.unparse(v)[:80]}")
    g = v.generators[0]
    src = pyexpr.attr_path(g.iter)
    if not (_name(g.target) and _name(v.elt) == g.target.id and src and src[0] == sn and len(src) == 2 and not g.is_async):
        raise Untranslatable(f"roll_passes: {ast.unparse(v)[:80]}")
    if len(g.ifs) != 1:
        raise Untranslatable("roll_passes: filter")
    t = g.ifs[0]
    if not (isinstance(t, ast.Call) and _name(t.func) == "isinstance" and len(t.args) == 2 and not t.keywords
            and _name(t.args[0]) == g.target.id and _name(t.args[1])):
        raise Untranslatable(f"roll_passes: filter {ast.unparse(t)[:80]}")
    return {"source": src[1], "filter": t.args[1].id, "fresh": True}


INIT = "__init__.py"


def extract_root_hooks(repo=None, name="velocity"):
    """pyroll/core/__init__.py: every hook `<Class path>.<name>` registered in `root_hooks` at module level (the hooks whose
    results are evaluated and written explicitly in every solve iteration) -> sorted dotted names as written in the source"""
    path = os.path.join(repo or REPO, "pyroll", "core", INIT)
    tree = ast.parse(open(path).read())
    found = []
    for node in ast.walk(tree):
        if isinstance(node, (ast.Assign, ast.AugAssign, ast.Delete)):
            tg = node.targets if not isinstance(node, ast.AugAssign) else [node.target]
            for t in tg:
                if _name(t) == "root_hooks" or (isinstance(t, ast.Subscript) and _name(t.value) == "root_hooks"):
                    raise Untranslatable(f"root_hooks is rebound / edited: {ast.unparse(node)[:80]}")
        if not isinstance(node, ast.Call):
            continue
        fp = pyexpr.attr_path(node.func)
        if not (fp and fp[0] == "root_hooks"):
            continue
        if len(fp) != 2 or node.keywords:
            raise Untranslatable(f"root hook registration {ast.unparse(node)[:80]}")
        if fp[1] == "extend" and len(node.args) == 1 and isinstance(node.args[0], (ast.List, ast.Tuple)):
            elts = node.args[0].elts
        elif fp[1] in ("add", "append") and len(node.args) == 1:
            elts = node.args
        else:
            raise Untranslatable(f"root hook registration {ast.unparse(node)[:80]}")
        for e in elts:
            ep = pyexpr.attr_path(e)
            if not ep or len(ep) < 2:
                raise Untranslatable(f"root hook entry {ast.unparse(e)[:80]}")
            if ep[-1] == name:
                found.append(".".join(ep))
    return sorted(found)


def extract(repo=None):
    """-> {"backward": info, "forward": info}"""
    path = os.path.join(repo or REPO, "pyroll", "core", SEQ)
    tree = ast.parse(open(path).read())
    out = {}
    for node in ast.walk(tree):
        if isinstance(node, ast.ClassDef) and node.name == "PassSequence":
            for f in node.body:
                if isinstance(f, ast.FunctionDef) and f.name == "solve_velocities_backward":
                    out["backward"] = extract_loop(f)
                if isinstance(f, ast.FunctionDef) and f.name == "solve_velocities_forward":
                    out["forward"] = extract_loop(f)
    for k in ("backward", "forward"):
        if k not in out:
            raise Untranslatable(f"PassSequence.solve_velocities_{k} not found")
    return out


# ---- Lean emission -------------------------------------------------------------------------------------------

def _lean_int(i):
    return f"({i})" if i < 0 else str(i)


def _lean_strs(xs):
    return "[" + ", ".join(pyexpr.lean_str(x) for x in xs) + "]"


def lean_shape(info):
    s = info["sweep"]
    ov = info["override"]
    ovs = "none" if ov is None else f"some ({_lean_int(ov[0])}, {pyexpr.lean_str(ov[1])})"
    return ("{ fn := %s, params := %s, seedAreasFrom := %s,\n"
            "      anchorIndex := %s, areaOverride := %s,\n"
            "      sweepStart := ⟨%s, %s⟩, sweepStop := ⟨%s, %s⟩, sweepStep := %s, srcOffset := %s,\n"
            "      prelude := %s,\n"
            "      budget := %s,\n"
            "      body := %s,\n"
            "      priorFrom := %s, loopAreasFrom := %s, setTo := %s,\n"
            "      testAll := %s, testStrict := %s, onExhaustion := %s }") % (
        pyexpr.lean_str(info["fn"]), _lean_strs(info["params"]), pyexpr.lean_str(info["seedAreasFrom"]),
        _lean_int(info["seed"][0]), ovs,
        _lean_int(s["start"][0]), _lean_int(s["start"][1]), _lean_int(s["stop"][0]), _lean_int(s["stop"][1]),
        _lean_int(s["step"]), _lean_int(s["offset"]),
        _lean_strs(info["prelude"]), pyexpr.lean_str(info["budget"]), _lean_strs(info["body"]),
        pyexpr.lean_str(info["priorFrom"]), pyexpr.lean_str(info["loopAreasFrom"]), pyexpr.lean_str(info["set_attr"]),
        "true" if info["test"]["all"] else "false", "true" if info["test"]["strict"] else "false",
        pyexpr.lean_str(info["exhaustion"]))


def emit(ctx):
    """write lean/PyrollModel/Gen/C19.lean; returns (loops, hooks) where hooks = {lean_name: HookImpl}"""
    from . import gen
    lines = ["import PyrollModel.Impl", "import PyrollModel.Velo",
             "/- GENERATED by driver/translate/c19_velo.py from /repo's working tree on every run - do not edit. -/",
             "namespace Gen.C19", ""]
    loops = None
    try:
        loops = extract()
    except Untranslatable as ex:
        ctx.tie_breaks.append(f"translator: pyroll/core/{SEQ}: velocity loops left the recognised pattern: {ex}")
    for key, pre in (("backward", "back"), ("forward", "fwd")):
        if loops is None:
            # keep the module well-formed; the shape obligations and the theorems about the recurrence then fail
            lines += [f"def {pre}_rec_e : Expr := .var \"<unrecognised>\"", f"def {pre}_seed_e : Expr := .var \"<unrecognised>\"",
                      f"def {pre}_tol_e : Expr := .var \"<unrecognised>\"",
                      f"def {key}_shape : Velo.Shape := {{ fn := \"<unrecognised>\", params := [], seedAreasFrom := \"\", "
                      "anchorIndex := 0, areaOverride := none, sweepStart := ⟨0, 0⟩, sweepStop := ⟨0, 0⟩, sweepStep := 0, "
                      "srcOffset := 0, prelude := [], budget := \"\", body := [], priorFrom := \"\", loopAreasFrom := \"\", "
                      "setTo := \"\", testAll := false, testStrict := false, onExhaustion := \"\" }", ""]
            continue
        info = loops[key]
        lines.append(f"/-- pyroll/core/{SEQ} `{info['fn']}`: `{info['sweep']['name']}` -/")
        lines.append(f"def {pre}_rec_e : Expr := {pyexpr.lean_expr(info['sweep']['expr'])}")
        lines.append(f"def {pre}_seed_e : Expr := {pyexpr.lean_expr(info['seed'][1])}")
        lines.append(f"def {pre}_tol_e : Expr := {pyexpr.lean_expr(info['test']['tol'])}")
        lines.append(f"def {key}_shape : Velo.Shape :=\n    {lean_shape(info)}")
        lines.append("")
    try:
        tree = ast.parse(open(os.path.join(REPO, "pyroll", "core", SEQ)).read())
        cls = next(n for n in ast.walk(tree) if isinstance(n, ast.ClassDef) and n.name == "PassSequence")
        rp = extract_roll_passes(cls)
    except (Untranslatable, StopIteration) as ex:
        ctx.tie_breaks.append(f"translator: pyroll/core/{SEQ}: PassSequence.roll_passes left the recognised pattern: {ex}")
        rp = {"source": "<unrecognised>", "filter": "<unrecognised>", "fresh": False}
    lines.append(f"/-- pyroll/core/{SEQ} `PassSequence.roll_passes` -/")
    lines.append("def roll_passes_shape : Velo.PassesShape :=\n    { source := %s, filterClass := %s, fresh := %s }" % (
        pyexpr.lean_str(rp["source"]), pyexpr.lean_str(rp["filter"]), "true" if rp["fresh"] else "false"))
    lines.append("")
    try:
        roots = extract_root_hooks()
    except (Untranslatable, OSError, SyntaxError) as ex:
        ctx.tie_breaks.append(f"translator: pyroll/core/{INIT}: root hook list left the recognised pattern: {ex}")
        roots = ["<unrecognised>"]
    lines.append(f"/-- pyroll/core/{INIT}: the `velocity` hooks among `root_hooks` (sorted) -/")
    lines.append(f"def root_velocity_hooks : List String := {_lean_strs(roots)}")
    lines.append("")
    idx = hookimpl_index(sorted({rel for (_, rel, _) in HOOKS}))
    found, table = {}, []
    for (name, rel, fn) in HOOKS:
        impl = idx.get((rel, fn))
        if impl is None:
            ctx.tie_breaks.append(f"translator: hook implementation {fn} not found in pyroll/core/{rel}")
            lines.append(f"def {name} : Impl := {{ host := \"\", hook := \"\", fn := \"{fn}\", tier := 1, wrapper := false, "
                         f"wantsCycle := false, alts := [(.tt, .opaque \"missing in source\")] }}")
            lines.append(f"def {name}_e0 : Expr := .var \"<missing:{fn}>\"")
            lines.append(f"def {name}_e1 : Expr := .var \"<missing:{fn}>\"")
            lines.append("")
            continue
        found[name] = impl
        lines.append(f"/-- pyroll/core/{rel}:{impl.lineno} `{fn}` on `{impl.host}.{impl.hook}` -/")
        lines.append(f"def {name} : Impl :=\n    {pyexpr.lean_impl(impl)}")
        exprs = [e for (g, e, k) in impl.alts if k == "expr"]
        for k, e in enumerate(exprs):
            lines.append(f"def {name}_e{k} : Expr := {pyexpr.lean_expr(e)}")
            table.append(f"{name}_e{k}")
        if not exprs:
            lines.append(f"def {name}_e0 : Expr := .var \"<no-formula:{fn}>\"")
        if impl.gap:
            ctx.tie_breaks.append(f"translator: body of {fn} (pyroll/core/{rel}) is outside the translatable subset: {impl.gap}")
        lines.append("")
    lines.append("def table : List (String × Expr) := [" + ", ".join(f"(\"{n}\", {n})" for n in
                 ["back_rec_e", "fwd_rec_e", "back_seed_e", "fwd_seed_e", "back_tol_e", "fwd_tol_e"] + table) + "]")
    lines.append("")
    lines.append("end Gen.C19")
    text = "\n".join(lines) + "\n"
    changed = pyexpr.write_if_changed(os.path.join(LEAN_DIR, "PyrollModel", "Gen", "C19.lean"), text)
    ctx.notes.setdefault("generated", {})["Gen/C19.lean"] = {"defs": 10 + len(HOOKS), "rewritten": changed}
    if loops is not None:
        loops["root_velocity_hooks"], loops["roll_passes"] = roots, rp
    return loops, found
