"""(T) for C07: what the ERROR PATHS of `Hook.__get__` evaluate, read with `ast` from the working tree on every run.

`hooks_skeleton.py` (shared) drops exception messages and `logger` statements: for the conversions of `Hook.__get__` only the
exception CLASS is behaviour.  But building the message is code too: an f-string field `{instance!r}` calls
`repr(instance)`, which (`pyroll/core/repr.py`) evaluates `instance.__attrs__` - on roll passes that computes the contour
lines and thereby READS AND REMEMBERS hooks in the middle of the failing read, or raises and replaces the documented error.
This module reads, for every block of `Hook.__get__` that is entered when a check on the outcome of `get_result` fails (the
handlers of the `try` around `get_result`, the `if` blocks that raise), every expression the block evaluates:

  * format fields of f-strings, arguments of `logger` calls (paired with the `%` directives), arguments of the exception
    constructor, `str()` / `repr()` / `format()` calls, and any other statement of the block;
  * classified as   pure            `self.name`, `self.owner.__qualname__`, `type(instance).__name__`, `id(instance)`, constants
                    str(instance)    `{instance}`, `{instance!s}`, `str(instance)`, `%s`            -> resolved, see below
                    repr(instance)   `{instance!r}`, `{instance!a}`, `repr(instance)`, `%r`          -> an evaluation ON the instance
                    anything else that mentions the instance (`instance.__attrs__`, `f(instance)`)   -> an evaluation ON the instance
                    str(result) / repr(result)   the value the implementations returned (not the instance; listed, not counted)
  * `str(instance)` is resolved against EVERY `__str__` / `__format__` defined in a class of `pyroll/core/**.py` that derives
    (by name) from `HookHost` / `ReprMixin`, and every `X.__str__ = …` assignment: a definition is effect-free when it is
    built from constants, `type(self).__qualname__` / `__name__`, and PLAIN DATA attributes of self (a name that no class of
    the package declares as a `Hook` and no class defines as a method or property); everything else it evaluates is listed
    in `strEvaluates` and counts for every block that formats the instance with `str`.

Emitted: `lean/PyrollModel/Gen/C07ErrPath.lean` (namespace `Gen.C07.ErrPath`):
  `raises`       (condition, exception raised, what the block evaluates) per failing check, in source order - the first two
                 columns must equal `Gen.C07.Hooks.getChecks` (theorem `error_path_source_consumed`);
  `strDefs`, `strEvaluates`;
  `onInstance`   per failing check: the evaluations ON the instance - CONSUMED by the model (`Failure.errTask`): a non-empty
                 entry makes the failing `Hook.__get__` frame run the instance's `__attrs__` program before it raises;
  `callHandlers` what the `except` / `finally` clauses of `HookFunction.__call__` and the body of `HookHost.has_value` evaluate
                 on the instance (pinned to `[]`).
`self_check` executes the table against the imported module: an instrumented host counts the `__str__` / `__repr__` /
`__format__` calls and the attribute reads the three failing reads make.
"""
import ast
import os
import re

from .pyexpr import lean_str, write_if_changed
from . import hooks_skeleton as hs

PKG = os.path.join("pyroll", "core")
HOST_ROOTS = {"HookHost", "ReprMixin"}
PURE_TYPE_ATTRS = {"__name__", "__qualname__", "__module__"}
LOG_LEVELS = {"debug", "info", "warning", "warn", "error", "exception", "critical", "log"}


class ErrGap(Exception):
    pass


def _unparse(n):
    try:
        return ast.unparse(n)
    except Exception:   # pragma: no cover
        return type(n).__name__


# ---- what one block evaluates ---------------------------------------------------------------------------------------------

class BlockScan:
    """collects the evaluations of a statement list; `inst`, `slf`, `res` = source names of the instance parameter, of
    `self` and of the local holding the outcome of get_result (canonical names are used in the output)"""

    def __init__(self, inst, slf, res, caught=()):
        self.inst, self.slf, self.res = inst, slf, res
        self.caught = set(caught)
        self.instance = []        # evaluations on the instance (canonical text), in source order; `log: ` = argument of a
        self.result = []          # logger call (evaluated when a handler formats the record); on the result value
        self.exc = None
        self.pre = ""

    def canon(self, n):
        txt = _unparse(n)
        for src, dst in ((self.inst, "instance"), (self.slf, "self"), (self.res, "result")):
            if src:
                txt = re.sub(rf"\b{re.escape(src)}\b", dst, txt)
        return txt[:120]

    def is_name(self, n, name):
        return name is not None and isinstance(n, ast.Name) and n.id == name

    def mentions(self, n, name):
        return name is not None and any(isinstance(x, ast.Name) and x.id == name for x in ast.walk(n))

    def pure_of_instance(self, n):
        """`type(instance).__name__`, `instance.__class__.__qualname__`, `id(instance)`, `type(instance)`"""
        if isinstance(n, ast.Call) and isinstance(n.func, ast.Name) and n.func.id in ("type", "id") and len(n.args) == 1 \
                and not n.keywords and self.is_name(n.args[0], self.inst):
            return True
        if isinstance(n, ast.Attribute) and n.attr in PURE_TYPE_ATTRS:
            v = n.value
            if isinstance(v, ast.Call) and self.pure_of_instance(v) and v.func.id == "type":
                return True
            if isinstance(v, ast.Attribute) and v.attr == "__class__" and self.is_name(v.value, self.inst):
                return True
        return False

    def fmt(self, value, conv):
        """`value` converted with str (conv 's'), repr ('r' / 'a'), a number directive ('n') or unknown ('?')"""
        how = {"s": "str", "r": "repr", "a": "repr", "n": "float", "?": "format"}[conv]
        if self.is_name(value, self.inst):
            self.instance.append(f"{self.pre}{how}(instance)")
        elif self.is_name(value, self.res):
            self.result.append(f"{self.pre}{how}(result)")
        else:
            self.expr(value)

    def expr(self, n):
        if n is None:
            return
        if self.pure_of_instance(n):
            return
        if isinstance(n, ast.JoinedStr):
            for v in n.values:
                if isinstance(v, ast.FormattedValue):
                    conv = {-1: "s", 115: "s", 114: "r", 97: "a"}.get(v.conversion, "?")
                    if v.format_spec is not None and v.conversion == -1 and \
                            not (isinstance(v.format_spec, ast.JoinedStr) and not v.format_spec.values):
                        conv = "?"                          # format(x, spec): `__format__` with a spec
                    self.fmt(v.value, conv)
                    if v.format_spec is not None:
                        self.expr(v.format_spec)
            return
        if isinstance(n, ast.Call):
            f = n.func
            if isinstance(f, ast.Name) and f.id in ("str", "repr", "ascii", "format") and n.args and not n.keywords:
                self.fmt(n.args[0], {"str": "s", "repr": "r", "ascii": "a", "format": "s" if len(n.args) == 1 else "?"}[f.id])
                for a in n.args[1:]:
                    self.expr(a)
                return
            if isinstance(f, ast.Attribute) and f.attr in LOG_LEVELS and self._is_logger(f.value):
                args = list(n.args)
                if f.attr == "log" and args:
                    self.expr(args.pop(0))
                self.pre = "log: "
                try:
                    self._log_args(args)
                finally:
                    self.pre = ""
                for kw in n.keywords:
                    self.expr(kw.value)
                return
            if isinstance(f, ast.Attribute) and f.attr == "format" and isinstance(f.value, (ast.Constant, ast.JoinedStr)):
                for a in list(n.args) + [k.value for k in n.keywords]:      # "…{}…".format(x): str unless the text says !r
                    self.fmt(a, "r" if isinstance(f.value, ast.Constant) and "!r" in str(f.value.value) else "s")
                return
            # any other call: its receiver / arguments are evaluated; the instance handed to unknown code is an evaluation
            direct = [a for a in list(n.args) + [k.value for k in n.keywords] if self.is_name(a, self.inst)]
            if direct or (isinstance(f, ast.Attribute) and self.mentions(f, self.inst)):
                self.instance.append(self.canon(n))
                return
            self.expr(f)
            for a in n.args:
                self.expr(a)
            for k in n.keywords:
                self.expr(k.value)
            return
        if isinstance(n, ast.Attribute):
            if self.mentions(n, self.inst):
                self.instance.append(self.canon(n))       # instance.__attrs__, instance.roll.…
                return
            return                                         # self.name, self.owner.__qualname__, module attributes
        if isinstance(n, ast.Name):
            if n.id == self.inst:
                self.instance.append("instance")           # handed on as an object (tuple element, default conversion …)
            return
        if isinstance(n, ast.Constant):
            return
        if isinstance(n, (ast.Lambda, ast.GeneratorExp, ast.ListComp, ast.SetComp, ast.DictComp)):
            if self.mentions(n, self.inst):
                self.instance.append(self.canon(n))
            return
        for c in ast.iter_child_nodes(n):
            if isinstance(c, ast.expr):
                self.expr(c)

    def _log_args(self, args):
        if args and isinstance(args[0], ast.Constant) and isinstance(args[0].value, str):
            dirs = [d for d in re.findall(r"%(?:\([^)]*\))?[#0\- +]*\d*(?:\.\d+)?([a-zA-Z%])", args[0].value) if d != "%"]
            for k, a in enumerate(args[1:]):
                d = dirs[k] if k < len(dirs) else "?"
                self.fmt(a, {"s": "s", "r": "r", "a": "a"}.get(d, "n" if d != "?" else "?"))
        else:
            for a in args:
                self.fmt(a, "?")

    def _is_logger(self, n):
        while isinstance(n, ast.Attribute):
            if n.attr == "logger":
                return True
            n = n.value
        return isinstance(n, ast.Name) and "log" in n.id.lower()

    def stmts(self, body):
        for st in body:
            self.stmt(st)

    def stmt(self, st):
        if isinstance(st, ast.Raise):
            if st.exc is not None:
                e = st.exc
                if isinstance(e, ast.Call):
                    if self.exc is None:
                        self.exc = _unparse(e.func)
                    for a in e.args:
                        # a bare `instance` as constructor argument is kept as an object: str(exception) would format it
                        # with repr (tuple) / str (single argument) - counted as an evaluation on the instance
                        self.expr(a)
                    for k in e.keywords:
                        self.expr(k.value)
                else:
                    if self.exc is None:
                        self.exc = _unparse(e)
                    self.expr(e) if not isinstance(e, ast.Name) else None
            elif self.exc is None:
                self.exc = "<re-raise>"
            if st.cause is not None and not (isinstance(st.cause, ast.Name) and st.cause.id in self.caught):
                self.expr(st.cause)
            return
        if isinstance(st, (ast.FunctionDef, ast.AsyncFunctionDef, ast.ClassDef)):
            if self.mentions(st, self.inst):
                self.instance.append(f"def {st.name} (mentions the instance)")
            return
        for field, value in ast.iter_fields(st):
            if isinstance(value, ast.expr):
                if field == "targets" or field == "target":
                    if self.mentions(value, self.inst):
                        self.instance.append("write: " + self.canon(value))
                    continue
                self.expr(value)
            elif isinstance(value, list):
                for v in value:
                    if isinstance(v, ast.stmt):
                        self.stmt(v)
                    elif isinstance(v, ast.expr):
                        if field == "targets":
                            if self.mentions(v, self.inst):
                                self.instance.append("write: " + self.canon(v))
                        else:
                            self.expr(v)
                    elif isinstance(v, ast.ExceptHandler):
                        self.stmts(v.body)


def _has_raise(stmts):
    return any(isinstance(n, ast.Raise) for st in stmts for n in ast.walk(st))


def _calls_get_result(n, slf):
    return any(isinstance(c, ast.Call) and isinstance(c.func, ast.Attribute) and c.func.attr == "get_result"
               and isinstance(c.func.value, ast.Name) and c.func.value.id == slf for c in ast.walk(n))


def get_blocks(tree):
    """the failing checks of `Hook.__get__`, in source order:
       [dict(cond, exc, instance=[…], result=[…], line)]"""
    fn = hs.find(tree, "Hook.__get__")
    a = fn.args
    if len(a.args) < 2:
        raise ErrGap("Hook.__get__: fewer than two parameters")
    slf, inst = a.args[0].arg, a.args[1].arg
    body = fn.body
    at = [k for k, st in enumerate(body) if _calls_get_result(st, slf) and not isinstance(st, ast.If)]
    if len(at) != 1:
        raise ErrGap(f"Hook.__get__: {len(at)} top-level statements call get_result")
    st = body[at[0]]
    res = None
    for n in ast.walk(st):
        if isinstance(n, ast.Assign) and _calls_get_result(n.value, slf) and len(n.targets) == 1 \
                and isinstance(n.targets[0], ast.Name):
            res = n.targets[0].id
    if res is None:
        raise ErrGap("Hook.__get__: the outcome of get_result is not bound to a local")
    blocks = []

    def block(cond, stmts, line, caught=()):
        sc = BlockScan(inst, slf, res, caught)
        sc.stmts(stmts)
        blocks.append({"cond": cond, "exc": sc.exc or "<none>", "instance": sc.instance, "result": sc.result, "line": line})

    if isinstance(st, ast.Try):
        for h in st.handlers:
            cls = "BaseException (bare)" if h.type is None else _unparse(h.type)
            block("except " + cls, h.body, h.lineno, [h.name] if h.name else [])
        if st.orelse:
            sc = BlockScan(inst, slf, res)
            sc.stmts(st.orelse)
            if sc.instance:
                raise ErrGap("Hook.__get__: the `else` clause of the try around get_result evaluates on the instance: "
                             + "; ".join(sc.instance))
        if st.finalbody:
            block("finally", st.finalbody, st.finalbody[0].lineno)
    elif not isinstance(st, ast.Assign):
        raise ErrGap(f"Hook.__get__: get_result is called in a {type(st).__name__} statement")
    for s in body[at[0] + 1:]:
        if isinstance(s, ast.If) and _has_raise(s.body):
            t = _unparse(s.test)
            cond = {f"{res} is None": "is None", f"not {res}": "falsy", f"not _all_finite({res})": "not _all_finite"}.get(
                t, "other: " + t)
            sc = BlockScan(inst, slf, res)
            sc.expr(s.test)                        # the test itself is evaluated on every read: must not touch the instance
            if sc.instance:
                raise ErrGap(f"Hook.__get__: the test `{t}` evaluates on the instance")
            block(cond, s.body, s.lineno)
            if s.orelse and _has_raise(s.orelse):
                block("else of " + cond, s.orelse, s.orelse[0].lineno)
        elif isinstance(s, ast.If) and _has_raise(s.orelse):
            block("else of other: " + _unparse(s.test), s.orelse, s.orelse[0].lineno)
        elif isinstance(s, ast.Raise):
            block("unconditional", [s], s.lineno)
    return blocks, fn.lineno


def call_handlers(tree):
    """what the `except` / `finally` / `else` clauses of `HookFunction.__call__` and the body of `HookHost.has_value` evaluate
    on the instance (beyond `id(instance)` / `type(instance)`)"""
    out = []
    fn = hs.find(tree, "HookFunction.__call__")
    if len(fn.args.args) >= 2:
        slf, inst = fn.args.args[0].arg, fn.args.args[1].arg
        for n in ast.walk(fn):
            if isinstance(n, ast.Try):
                for h in n.handlers:
                    sc = BlockScan(inst, slf, None, [h.name] if h.name else [])
                    sc.stmts(h.body)
                    out += [f"HookFunction.__call__ except {_unparse(h.type) if h.type else ''}: {x}" for x in sc.instance]
                for nm, b in (("else", n.orelse), ("finally", n.finalbody)):
                    sc = BlockScan(inst, slf, None)
                    sc.stmts(b)
                    out += [f"HookFunction.__call__ {nm}: {x}" for x in sc.instance]
    else:
        out.append("HookFunction.__call__: <signature>")
    fn = hs.find(tree, "HookHost.has_value")
    if len(fn.args.args) == 2:
        slf, nm = fn.args.args[0].arg, fn.args.args[1].arg
        for n in ast.walk(fn):
            if isinstance(n, ast.Try):
                for h in n.handlers:
                    sc = BlockScan(slf, None, None, [h.name] if h.name else [])
                    sc.stmts(h.body)
                    out += [f"HookHost.has_value except: {x}" for x in sc.instance]
                for b in (n.orelse, n.finalbody):
                    sc = BlockScan(slf, None, None)
                    sc.stmts(b)
                    out += [f"HookHost.has_value: {x}" for x in sc.instance]
    else:
        out.append("HookHost.has_value: <signature>")
    return out


# ---- `str(instance)`: every `__str__` / `__format__` a host class can have -----------------------------------------------

def _py_files(repo):
    root = os.path.join(repo, PKG)
    for d, _, fs in sorted(os.walk(root)):
        for f in sorted(fs):
            if f.endswith(".py"):
                yield os.path.join(d, f)


def _classes(node, prefix=""):
    for n in getattr(node, "body", []):
        if isinstance(n, ast.ClassDef):
            q = prefix + n.name
            yield q, n
            yield from _classes(n, q + ".")


def _last(n):
    if isinstance(n, ast.Attribute):
        return n.attr
    if isinstance(n, ast.Name):
        return n.id
    if isinstance(n, ast.Subscript):
        return _last(n.value)
    if isinstance(n, ast.Call):
        return _last(n.func)
    return None


def _is_hook_decl(v):
    """`Hook[T]()` / `Hook()`"""
    if not isinstance(v, ast.Call):
        return False
    f = v.func
    if isinstance(f, ast.Subscript):
        f = f.value
    return _last(f) == "Hook"


def package_facts(repo):
    """-> (classes {qual: (file, ClassDef)}, hosts {qual}, hook_names, method_names, str_assigns [(file, line, text)])"""
    classes, hook_names, method_names, assigns = {}, set(), set(), []
    for path in _py_files(repo):
        with open(path) as f:
            tree = ast.parse(f.read(), filename=path)
        rel = os.path.relpath(path, repo)
        for q, c in _classes(tree):
            classes[rel + ":" + q] = c
            for n in c.body:
                if isinstance(n, (ast.FunctionDef, ast.AsyncFunctionDef)):
                    method_names.add(n.name)
                elif isinstance(n, (ast.Assign, ast.AnnAssign)):
                    tg = n.targets if isinstance(n, ast.Assign) else [n.target]
                    if n.value is not None and _is_hook_decl(n.value):
                        hook_names.update(t.id for t in tg if isinstance(t, ast.Name))
        for n in ast.walk(tree):
            if isinstance(n, ast.Assign):
                for t in n.targets:
                    if isinstance(t, ast.Attribute) and t.attr in ("__str__", "__format__"):
                        assigns.append((rel, n.lineno, _unparse(n)))
            elif isinstance(n, ast.Call) and _last(n.func) == "setattr" and len(n.args) == 3 \
                    and isinstance(n.args[1], ast.Constant) and n.args[1].value in ("__str__", "__format__"):
                assigns.append((rel, n.lineno, _unparse(n)))
    hosts = set()
    names = set(HOST_ROOTS)
    changed = True
    while changed:
        changed = False
        for q, c in classes.items():
            if q in hosts:
                continue
            if c.name in HOST_ROOTS or any(_last(b) in names for b in c.bases):
                hosts.add(q)
                if c.name not in names:
                    names.add(c.name)
                changed = True
    return classes, hosts, hook_names, method_names, assigns


def str_effects(fn, hook_names, method_names):
    """what a `__str__(self)` evaluates beyond constants, the type name and plain data attributes of self"""
    if not fn.args.args:
        return ["<no self>"]
    slf = fn.args.args[0].arg
    out = []

    def plain(n):
        """self.<plain data attribute>(.<attribute>)*"""
        chain = []
        while isinstance(n, ast.Attribute):
            chain.append(n.attr)
            n = n.value
        if not (isinstance(n, ast.Name) and n.id == slf and chain):
            return False
        first = chain[-1]
        return first not in hook_names and first not in method_names and not (first.startswith("__") and first != "__class__")

    def ex(n):
        if n is None or isinstance(n, ast.Constant):
            return
        if isinstance(n, ast.JoinedStr):
            for v in n.values:
                if isinstance(v, ast.FormattedValue):
                    if isinstance(v.value, ast.Name) and v.value.id == slf:
                        out.append("formats self")
                    else:
                        ex(v.value)
                    ex(v.format_spec)
            return
        if isinstance(n, ast.Attribute):
            v = n.value
            if n.attr in PURE_TYPE_ATTRS and (
                    (isinstance(v, ast.Call) and isinstance(v.func, ast.Name) and v.func.id == "type" and len(v.args) == 1
                     and isinstance(v.args[0], ast.Name) and v.args[0].id == slf)
                    or (isinstance(v, ast.Attribute) and v.attr == "__class__" and isinstance(v.value, ast.Name) and v.value.id == slf)):
                return
            if plain(n):
                return
            out.append(_unparse(n).replace(slf, "self", 1))
            return
        if isinstance(n, ast.Name):
            if n.id == slf:
                out.append("self")
            return
        if isinstance(n, (ast.BinOp, ast.BoolOp, ast.Compare, ast.IfExp, ast.UnaryOp, ast.Tuple, ast.List)):
            for c in ast.iter_child_nodes(n):
                if isinstance(c, ast.expr):
                    ex(c)
            return
        if isinstance(n, ast.Call) and isinstance(n.func, ast.Name) and n.func.id in ("str", "len", "repr") and len(n.args) == 1 \
                and not (isinstance(n.args[0], ast.Name) and n.args[0].id == slf):
            ex(n.args[0])
            return
        if any(isinstance(x, ast.Name) and x.id == slf for x in ast.walk(n)):
            out.append(_unparse(n).replace(slf, "self")[:100])

    def st(s):
        if hs._is_doc(s) or isinstance(s, ast.Pass):
            return
        if isinstance(s, ast.Return):
            ex(s.value)
        elif isinstance(s, ast.If):
            ex(s.test)
            for x in s.body + s.orelse:
                st(x)
        else:
            out.append("statement: " + _unparse(s)[:80])
    for s in fn.body:
        st(s)
    return out


def str_table(repo):
    """-> (strDefs [(where, [effects])], strEvaluates [text])"""
    classes, hosts, hook_names, method_names, assigns = package_facts(repo)
    defs, evaluates = [], []
    known = set()
    for q in sorted(hosts):
        c = classes[q]
        for n in c.body:
            if isinstance(n, (ast.FunctionDef, ast.AsyncFunctionDef)) and n.name in ("__str__", "__format__"):
                known.add(f"{c.name}.{n.name}")
                if n.name == "__format__":
                    eff = ["custom __format__"]
                else:
                    eff = str_effects(n, hook_names, method_names)
                defs.append((f"{q}.{n.name}", eff))
                evaluates += [f"{q}.{n.name}: {e}" for e in eff]
            elif isinstance(n, ast.Assign) and any(isinstance(t, ast.Name) and t.id in ("__str__", "__format__") for t in n.targets):
                rhs = _unparse(n.value)
                ok = rhs in known
                defs.append((f"{q}: {_unparse(n)}", [] if ok else ["alias of unknown code"]))
                if not ok:
                    evaluates.append(f"{q}: {_unparse(n)}")
    for rel, line, text in assigns:
        rhs = text.split("=", 1)[1].strip() if "=" in text else text
        ok = rhs in known
        defs.append((f"{rel}: {text}", [] if ok else ["alias of unknown code"]))
        if not ok:
            evaluates.append(f"{rel}: {text}")
    if not any(w.endswith("ReprMixin.__str__") for w, _ in defs):
        evaluates.append("ReprMixin.__str__ not found")
    return defs, evaluates


# ---- extraction + emission -----------------------------------------------------------------------------------------------

def extract(repo):
    """-> dict(raises, strDefs, strEvaluates, onInstance, callHandlers, line), gaps"""
    gaps = []
    miss = {"raises": [("<missing>", "<missing>", ["<missing>"])], "strDefs": [("<missing>", [])], "strEvaluates": ["<missing>"],
            "onInstance": [["<missing>"]], "onResult": [[]], "callHandlers": ["<missing>"], "line": 0}
    try:
        tree = hs.parse(repo)
        blocks, line = get_blocks(tree)
        handlers = call_handlers(tree)
        defs, evaluates = str_table(repo)
    except (ErrGap, hs.Gap, OSError, SyntaxError) as ex:
        gaps.append(f"{type(ex).__name__}: {ex}")
        return miss, gaps
    on = []
    for b in blocks:
        eff = [x for x in b["instance"] if x not in ("str(instance)", "log: str(instance)")]
        if "str(instance)" in b["instance"] or "log: str(instance)" in b["instance"]:
            eff += ["str(instance) -> " + e for e in evaluates]
        on.append(eff)
    # the clauses of HookFunction.__call__ / has_value: `str(instance)` (a `%s` in a logger call, `{instance}`) is resolved alike
    hres = []
    for x in handlers:
        if x.endswith(": str(instance)") or x.endswith(": log: str(instance)"):
            hres += [x + " -> " + e for e in evaluates]
        else:
            hres.append(x)
    return {"raises": [(b["cond"], b["exc"], b["instance"]) for b in blocks], "strDefs": defs, "strEvaluates": evaluates,
            "onInstance": on, "onResult": [b["result"] for b in blocks], "callHandlers": hres, "line": line}, gaps


def _lstrs(xs):
    return "[" + ", ".join(lean_str(x) for x in xs) + "]"


def emit(ctx, repo=None, lean_dir=None):
    from .. import core
    repo = repo or core.REPO
    lean_dir = lean_dir or core.LEAN_DIR
    info, gaps = extract(repo)
    for g in gaps:
        ctx.tie_breaks.append("translator (error paths of hooks.py): " + g)
    ln = info["line"]
    out = ["/- GENERATED by driver/translate/c07_errpath.py from pyroll/core/hooks.py (and the `__str__` definitions of "
           "pyroll/core/**.py) of the working tree on every run of ./check C07 - do not edit. -/",
           "namespace Gen.C07.ErrPath", "",
           f"/-- pyroll/core/hooks.py:{ln} `Hook.__get__`: the blocks entered when a check on the outcome of `get_result` "
           "fails, in source order: (condition, exception raised, what the block evaluates that involves the instance - "
           "`str(instance)` is resolved by `strEvaluates`) -/",
           "def raises : List (String × String × List String) :=\n  [" +
           ",\n   ".join(f"({lean_str(c)}, {lean_str(e)}, {_lstrs(i)})" for c, e, i in info["raises"]) + "]", "",
           "/-- the same blocks: what they evaluate on the RESULT value (listed only: the value is not the instance) -/",
           "def onResult : List (List String) := [" + ", ".join(_lstrs(x) for x in info["onResult"]) + "]", "",
           "/-- every `__str__` / `__format__` a hook host can have (classes of pyroll/core/**.py deriving by name from HookHost / "
           "ReprMixin, and assignments to `__str__`): what it evaluates beyond constants, the type name and plain data "
           "attributes of self -/",
           "def strDefs : List (String × List String) :=\n  [" +
           ",\n   ".join(f"({lean_str(w)}, {_lstrs(e)})" for w, e in info["strDefs"]) + "]", "",
           "/-- what `str(instance)` can evaluate on a host (union over `strDefs`) -/",
           "def strEvaluates : List String := " + _lstrs(info["strEvaluates"]), "",
           "/-- per failing check (same order as `raises`): the evaluations ON the instance the construction of the error "
           "performs - CONSUMED by `Failure.errTask` -/",
           "def onInstance : List (List String) := [" + ", ".join(_lstrs(x) for x in info["onInstance"]) + "]", "",
           "/-- what the `except` / `else` / `finally` clauses of `HookFunction.__call__` and of `HookHost.has_value` evaluate on "
           "the instance -/",
           "def callHandlers : List String := " + _lstrs(info["callHandlers"]), "",
           "end Gen.C07.ErrPath"]
    changed = write_if_changed(os.path.join(lean_dir, "PyrollModel", "Gen", "C07ErrPath.lean"), "\n".join(out) + "\n")
    ctx.notes.setdefault("generated", {})["Gen/C07ErrPath.lean"] = {
        "blocks": len(info["raises"]), "str_definitions": len(info["strDefs"]), "rewritten": changed,
        "on_instance": sum(len(x) for x in info["onInstance"])}
    try:
        bad = self_check(info) if not gaps else []
    except Exception as ex:      # the probe met behaviour it does not expect: the table cannot be confirmed
        bad = [f"probe raised {type(ex).__name__}: {ex}"]
    for b in bad:
        ctx.tie_breaks.append("translator self-check (error paths read from hooks.py vs. the imported pyroll.core.hooks): " + b)
    ctx.notes["generated"]["Gen/C07ErrPath.lean"]["self_check_mismatches"] = len(bad)
    return info


# ---- the table is executed against the code it was read from ---------------------------------------------------------------

def self_check(info):
    """an instrumented host (its `__str__`, `__repr__`, `__format__` and every attribute read are logged) makes the failing
    reads, once with the loggers silent and once with a handler that formats every record; what the table says each block
    evaluates on the instance must be what was observed.  -> mismatch descriptions"""
    import logging
    from pyroll.core.hooks import Hook, HookHost
    log = []

    def getattribute(self, name):
        if name not in ("__dict__", "__cache__", "__class__"):
            log.append("attr:" + name)
        return object.__getattribute__(self, name)

    def mk(name):
        def f(self, *a):
            log.append(name)
            return getattr(HookHost, name)(self, *a)
        return f
    ns = {"p_none": Hook[object](), "p_nan": Hook[object](), "p_a": Hook[object](), "p_b": Hook[object](),
          "__getattribute__": getattribute, "__str__": mk("__str__"), "__repr__": mk("__repr__"), "__format__": mk("__format__")}
    cls = type("C07ErrProbe", (HookHost,), ns)
    cls.p_nan(lambda self: float("inf"))
    cls.p_a(lambda self: object.__getattribute__(self, "__class__").p_b.__get__(self, type(self)))
    cls.p_b(lambda self: object.__getattribute__(self, "__class__").p_a.__get__(self, type(self)))
    want = {"except RecursionError": "p_a", "is None": "p_none", "not _all_finite": "p_nan"}

    class Fmt(logging.Handler):
        def emit(self, record):
            record.getMessage()
    bad = []
    for logging_on in (False, True):
        lg = getattr(cls, "logger", None)
        handler = Fmt(level=logging.DEBUG)
        old = None
        if logging_on:
            if not isinstance(lg, logging.Logger):
                break
            old = (lg.level, lg.propagate)
            lg.addHandler(handler)
            lg.setLevel(logging.DEBUG)
            lg.propagate = False
        try:
            for cond, exc, evals in info["raises"]:
                if cond not in want:
                    continue
                x = cls()
                del log[:]
                try:
                    getattr(cls, want[cond]).__get__(x, cls)
                except BaseException:
                    pass
                seen = set(log)
                if cond == "except RecursionError":   # the nested reads of the probe hooks go through the descriptor directly
                    seen = {s for s in seen if s not in ("attr:p_a", "attr:p_b")}
                told = [e for e in evals if logging_on or not e.startswith("log: ")]
                told = [e[5:] if e.startswith("log: ") else e for e in told]
                says_str = "str(instance)" in told
                says_repr = "repr(instance)" in told
                others = [e for e in told if e not in ("str(instance)", "repr(instance)")]
                saw_str = "__str__" in seen or "__format__" in seen
                saw_repr = "__repr__" in seen
                saw_attr = sorted(s for s in seen if s.startswith("attr:"))
                mode = "loggers formatting" if logging_on else "loggers silent"
                if says_str != saw_str and not logging_on:      # with logging on every read logs the instance with %s
                    bad.append(f"block `{cond}` ({mode}): table says str(instance) {'is' if says_str else 'is not'} evaluated, "
                               f"observed {sorted(seen)}")
                if says_repr != saw_repr and not others:
                    bad.append(f"block `{cond}` ({mode}): table says repr(instance) {'is' if says_repr else 'is not'} evaluated, "
                               f"observed {sorted(seen)}")
                if saw_attr and not (others or says_repr):
                    bad.append(f"block `{cond}` ({mode}): attributes of the instance read ({saw_attr}) that the table does not list")
        finally:
            if old is not None:
                lg.removeHandler(handler)
                lg.setLevel(old[0])
                lg.propagate = old[1]
    return bad
