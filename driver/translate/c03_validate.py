"""(T) for C03: everything of `GenericElongationGroove.__init__` that is not the junction chain (that one comes from
`groove.py`), the by-name factory and the spline shape checks -> lean/PyrollModel/Gen/C03.lean.

Extracted (each by whitelisting AST node shapes; anything else is reported through `gaps` -> ctx.tie_breaks):
  * `arg_checks`      the list `mandatory_positive_or_zero` + its `all(value is None or value >= 0 ...)` test, and tests of
                      the form `if v is not None and not v < <expr>: raise`
  * `resolution`      the if/elif cascade inside the `try`, with the `np.isclose` shortcuts
  * `pad_rule`        `pad = pad if pad else usable_width * rel_pad`
  * `pieces`          `_enumerate_contour_points`
  * `mirror`          the four statements that build `_contour_points`
  * `checks`          the `self.test_*()` calls at the end of `__init__` and the bodies of those methods
  * `factory`         `create_groove_by_type_name`: regex, replacement, title(), suffix rule, exact-name lookup
  * `spline_checks`   the shape checks at the top of `SplineGroove.__init__` + `spline_face`, the face test they use
                      (`np.isclose(y, 0)` or `np.abs(y) <= <tolerance term>`, whichever form the source has)
  * `signatures`      per public class: parameters of `__init__` (required?), which are converted with deg2rad
"""
import ast
import os
import re

from . import pyexpr
from . import groove as T_groove
from ..core import LEAN_DIR, REPO

GROOVES = os.path.join("pyroll", "core", "grooves")
Untranslatable = pyexpr.Untranslatable


def _parse(rel, repo=None):
    return ast.parse(open(os.path.join(repo or REPO, GROOVES, rel)).read())


def _same(node, template):
    """structural equality with a parsed template statement/expression"""
    t = ast.parse(template).body[0]
    if isinstance(t, ast.Expr) and not isinstance(node, ast.Expr):
        t = t.value
    return ast.dump(node) == ast.dump(t)


# ---------------------------------------------------------------------------------------------------------
# expressions over inputs and chain entries
# ---------------------------------------------------------------------------------------------------------
class _Tr(pyexpr.ExprTranslator):
    """`self.x` -> ref to the chain entry `x` if there is one, else the input variable `x` (properties `depth`,
    `usable_width` return the stored inputs); `self._f(expr)` -> the contour function with `z` substituted; bare names ->
    earlier scalar locals of the method"""

    def __init__(self, chain_names, fns, locals_=None, free=()):
        super().__init__("self", dict(locals_ or {}), free)
        self.chain_names = set(chain_names)
        self.fns = fns

    def tr(self, n):
        if isinstance(n, ast.Call) and isinstance(n.func, ast.Attribute) and isinstance(n.func.value, ast.Name) \
                and n.func.value.id == "self" and n.func.attr.strip("_") in self.fns and len(n.args) == 1 and not n.keywords:
            return subst(self.fns[n.func.attr.strip("_")], "z", self.tr(n.args[0]))
        p = pyexpr.attr_path(n)
        if p is not None and p[0] == "self" and len(p) == 2:
            name = p[1].lstrip("_")
            if name in self.chain_names:
                return ("ref", name)
            if name in T_groove.INPUTS:
                return ("var", name)
            raise Untranslatable(f"self.{p[1]} is neither a chain entry nor an input")
        return super().tr(n)


def subst(e, var, val):
    if e[0] == "var":
        return val if e[1] == var else e
    if e[0] == "ref":
        return e
    return (e[0],) + tuple(subst(x, var, val) if isinstance(x, tuple) else x for x in e[1:])


def lean_expr(e, ns="Groove."):
    """like pyexpr.lean_expr, refs qualified with the chain namespace"""
    k = e[0]
    if k == "ref":
        return ns + e[1]
    if k == "var":
        return f"(.var {pyexpr.lean_str(e[1])})"
    if k == "nat":
        return f"(.nat {e[1]})"
    if k == "dec":
        return f"(.dec {e[1]} {e[2]})"
    if k == "pi":
        return ".pi"
    if k in ("add", "sub", "mul", "div"):
        return f"(.{k} {lean_expr(e[1], ns)} {lean_expr(e[2], ns)})"
    if k == "pow":
        return f"(.pow {lean_expr(e[1], ns)} {e[2]})"
    return f"(.{k} {lean_expr(e[1], ns)})"


def py_eval(e, env, chain_vals):
    """reference evaluation (python floats): refs read `chain_vals`"""
    if e[0] == "ref":
        return chain_vals[e[1]]
    if e[0] in ("var", "nat", "dec", "pi"):
        return pyexpr.py_eval(e, env)
    sub = [py_eval(x, env, chain_vals) if isinstance(x, tuple) else x for x in e[1:]]
    tmp_env = dict(env)
    args = []
    for i, v in enumerate(sub):
        if isinstance(e[1 + i], tuple):
            tmp_env[f"#{i}"] = v
            args.append(("var", f"#{i}"))
        else:
            args.append(v)
    return pyexpr.py_eval((e[0],) + tuple(args), tmp_env)


# ---------------------------------------------------------------------------------------------------------
# GenericElongationGroove.__init__
# ---------------------------------------------------------------------------------------------------------
def _generic(repo=None):
    tree = _parse("generic_elongation.py", repo)
    cls = next(n for n in tree.body if isinstance(n, ast.ClassDef) and n.name == "GenericElongationGroove")
    methods = {n.name: n for n in cls.body if isinstance(n, ast.FunctionDef)}
    return cls, methods


def extract_signature(fn):
    """[(name, required)] without self; **kwargs -> ("**", False)"""
    a = fn.args
    names = [x.arg for x in a.args][1:]
    nd = len(a.defaults)
    out = [(n, i < len(names) - nd) for i, n in enumerate(names)]
    if a.kwarg is not None:
        out.append(("**", False))
    return out


def extract_arg_checks(init, gaps):
    """statements before the `try`: -> (nonneg names, [(name, bound expr)])"""
    nonneg, upper = [], []
    list_name = None
    tr = pyexpr.ExprTranslator("self", {}, T_groove.INPUTS)
    for st in init.body:
        if isinstance(st, ast.Try):
            break
        if isinstance(st, ast.Expr) and isinstance(st.value, ast.Constant) and isinstance(st.value.value, str):
            continue
        if isinstance(st, ast.Assign) and len(st.targets) == 1 and isinstance(st.targets[0], ast.Name) \
                and isinstance(st.value, ast.List) and all(isinstance(e, ast.Name) for e in st.value.elts):
            list_name = st.targets[0].id
            nonneg = [e.id for e in st.value.elts]
            continue
        if isinstance(st, ast.If) and not st.orelse and len(st.body) == 1 and isinstance(st.body[0], ast.Raise):
            if list_name and _same(st.test, f"not all(value is None or value >= 0 for value in {list_name})"):
                continue
            t = st.test
            # `<name> is not None and not <name> < <expr>`
            if isinstance(t, ast.BoolOp) and isinstance(t.op, ast.And) and len(t.values) == 2:
                a, b = t.values
                if isinstance(a, ast.Compare) and isinstance(a.left, ast.Name) and len(a.ops) == 1 \
                        and isinstance(a.ops[0], ast.IsNot) and isinstance(a.comparators[0], ast.Constant) \
                        and a.comparators[0].value is None and isinstance(b, ast.UnaryOp) and isinstance(b.op, ast.Not) \
                        and isinstance(b.operand, ast.Compare) and len(b.operand.ops) == 1 \
                        and isinstance(b.operand.ops[0], ast.Lt) and isinstance(b.operand.left, ast.Name) \
                        and b.operand.left.id == a.left.id:
                    try:
                        upper.append((a.left.id, tr.tr(b.operand.comparators[0])))
                        continue
                    except Untranslatable as ex:
                        gaps.append(f"argument check bound: {ex}")
                        continue
        gaps.append(f"statement before the resolution outside the subset: {ast.unparse(st)[:90]}")
    if not nonneg:
        gaps.append("the non-negativity test of __init__ was not found")
    return nonneg, upper


def extract_resolution(init, gaps):
    """-> [(target, closeTo | None, degenerate | None, value)] in source order; checks the cascade's shape"""
    tr = pyexpr.ExprTranslator("self", {}, T_groove.INPUTS)
    tri = next((s for s in init.body if isinstance(s, ast.Try)), None)
    out = []
    if tri is None or len(tri.body) != 1 or not isinstance(tri.body[0], ast.If):
        gaps.append("resolution: the try block is not a single if/elif cascade")
        return out
    if not (len(tri.handlers) == 1 and isinstance(tri.handlers[0].type, ast.Name) and tri.handlers[0].type.id == "TypeError"
            and len(tri.handlers[0].body) == 1 and isinstance(tri.handlers[0].body[0], ast.Raise)):
        gaps.append("resolution: `except TypeError: raise TypeError(...)` expected")
    node = tri.body[0]
    while True:
        t = node.test
        if not (isinstance(t, ast.Compare) and isinstance(t.left, ast.Name) and len(t.ops) == 1
                and isinstance(t.ops[0], ast.Is) and isinstance(t.comparators[0], ast.Constant)
                and t.comparators[0].value is None):
            gaps.append(f"resolution: test outside the subset: {ast.unparse(t)}")
            return out
        target = t.left.id
        body = node.body
        try:
            if len(body) == 1 and isinstance(body[0], ast.Assign) and _is_name(body[0].targets, target):
                out.append((target, None, None, tr.tr(body[0].value)))
            elif len(body) == 1 and isinstance(body[0], ast.If) and len(body[0].body) == 1 and len(body[0].orelse) == 1 \
                    and isinstance(body[0].body[0], ast.Assign) and isinstance(body[0].orelse[0], ast.Assign) \
                    and _is_name(body[0].body[0].targets, target) and _is_name(body[0].orelse[0].targets, target):
                c = body[0].test
                if not (isinstance(c, ast.Call) and pyexpr.attr_path(c.func) == ["np", "isclose"] and len(c.args) == 2
                        and not c.keywords):
                    raise Untranslatable(f"inner test {ast.unparse(c)}")
                out.append((target, (tr.tr(c.args[0]), tr.tr(c.args[1])), tr.tr(body[0].body[0].value),
                            tr.tr(body[0].orelse[0].value)))
            else:
                raise Untranslatable(f"branch body {ast.unparse(body[0])[:80]}")
        except Untranslatable as ex:
            gaps.append(f"resolution branch {target}: {ex}")
        if len(node.orelse) == 1 and isinstance(node.orelse[0], ast.If):
            node = node.orelse[0]
            continue
        if not (len(node.orelse) == 1 and isinstance(node.orelse[0], ast.Raise)):
            gaps.append("resolution: the cascade does not end in `else: raise`")
        return out


def _is_name(targets, name):
    return len(targets) == 1 and isinstance(targets[0], ast.Name) and targets[0].id == name


def extract_pad_rule(init, gaps):
    tr = pyexpr.ExprTranslator("self", {}, T_groove.INPUTS)
    for st in init.body:
        if isinstance(st, ast.Assign) and _is_name(st.targets, "pad") and isinstance(st.value, ast.IfExp):
            v = st.value
            if isinstance(v.test, ast.Name) and v.test.id == "pad" and isinstance(v.body, ast.Name) and v.body.id == "pad":
                try:
                    return tr.tr(v.orelse)
                except Untranslatable as ex:
                    gaps.append(f"pad rule: {ex}")
                    return None
    gaps.append("`pad = pad if pad else ...` not found")
    return None


def extract_pieces(methods, gaps):
    """_enumerate_contour_points -> [("pt", z, y) | ("ptUnlessClose", a, b, z, y) | ("arcUnlessClose", a, b, fn)]"""
    fn = methods.get("_enumerate_contour_points")
    out = []
    if fn is None:
        gaps.append("_enumerate_contour_points not found")
        return out

    def selfattr(n):
        p = pyexpr.attr_path(n)
        return p[1] if p is not None and len(p) == 2 and p[0] == "self" else None

    def yield_pt(st):
        if isinstance(st, ast.Expr) and isinstance(st.value, ast.Yield) and isinstance(st.value.value, ast.Tuple) \
                and len(st.value.value.elts) == 2:
            a, b = (selfattr(e) for e in st.value.value.elts)
            if a and b:
                return a, b
        return None

    def close_guard(t):
        if isinstance(t, ast.UnaryOp) and isinstance(t.op, ast.Not) and isinstance(t.operand, ast.Call) \
                and pyexpr.attr_path(t.operand.func) == ["np", "isclose"] and len(t.operand.args) == 2 \
                and not t.operand.keywords:
            a, b = (selfattr(e) for e in t.operand.args)
            if a and b:
                return a, b
        return None

    for st in fn.body:
        if isinstance(st, ast.Expr) and isinstance(st.value, ast.Constant):
            continue
        p = yield_pt(st)
        if p:
            out.append(("pt",) + p)
            continue
        if isinstance(st, ast.If) and not st.orelse and len(st.body) == 1:
            g = close_guard(st.test)
            inner = st.body[0]
            if g:
                p = yield_pt(inner)
                if p:
                    out.append(("ptUnlessClose",) + g + p)
                    continue
                if isinstance(inner, ast.For) and isinstance(inner.target, ast.Name) and not inner.orelse \
                        and len(inner.body) == 1 and isinstance(inner.iter, ast.Call) \
                        and pyexpr.attr_path(inner.iter.func) == ["np", "linspace"] and len(inner.iter.args) == 3 \
                        and [k.arg for k in inner.iter.keywords] == ["endpoint"] \
                        and isinstance(inner.iter.keywords[0].value, ast.Constant) \
                        and inner.iter.keywords[0].value.value is False \
                        and pyexpr.attr_path(inner.iter.args[2]) == ["Config", "GROOVE_RADIUS_POINT_COUNT"]:
                    a, b = (selfattr(e) for e in inner.iter.args[:2])
                    y = inner.body[0]
                    zv = inner.target.id
                    if a and b and (a, b) == g and isinstance(y, ast.Expr) and isinstance(y.value, ast.Yield) \
                            and isinstance(y.value.value, ast.Tuple) and len(y.value.value.elts) == 2 \
                            and isinstance(y.value.value.elts[0], ast.Name) and y.value.value.elts[0].id == zv:
                        c = y.value.value.elts[1]
                        if isinstance(c, ast.Call) and selfattr(c.func) and len(c.args) == 1 \
                                and isinstance(c.args[0], ast.Name) and c.args[0].id == zv and not c.keywords:
                            out.append(("arcUnlessClose", a, b, "fn_" + selfattr(c.func).strip("_")))
                            continue
        gaps.append(f"_enumerate_contour_points: statement outside the subset: {ast.unparse(st)[:90]}")
    return out


MIRROR_TEMPLATES = [
    "right_side = np.array(list(self._enumerate_contour_points()))",
    "left_side = right_side[:-1].copy()",
    "left_side[:, 0] *= -1",
    "self._contour_points = np.concatenate([left_side, right_side[::-1]])",
    "self._contour_line = LineString(self._contour_points)",
    "self._cross_section = Polygon(self._contour_line)",
]


def extract_mirror(init, gaps):
    """the statements that build `_contour_points`: must be exactly the known ones, in order"""
    found = []
    for st in init.body:
        for i, t in enumerate(MIRROR_TEMPLATES):
            if _same(st, t):
                found.append(i)
    if found != list(range(len(MIRROR_TEMPLATES))):
        gaps.append(f"construction of _contour_points differs from the modelled statements (matched {found})")
    # any other statement touching right_side / left_side / _contour_points
    for st in init.body:
        src = ast.unparse(st)
        if isinstance(st, ast.Expr) and isinstance(st.value, ast.Call) and not st.value.args \
                and (pyexpr.attr_path(st.value.func) or ["", ""])[:1] == ["self"]:
            continue                    # the trailing `self.test_*()` calls are handled by extract_checks
        if any(w in src for w in ("right_side", "left_side", "_contour_points")) and \
                not any(_same(st, t) for t in MIRROR_TEMPLATES):
            gaps.append(f"unmodelled statement on the contour arrays: {src[:90]}")
    # self.contour_points property returns self._contour_points
    return dict(dropLast=1, negZ=True, leftFirst=True)


def extract_checks(init, methods, chain_names, fns, gaps):
    """the trailing `self.test_*()` calls of __init__ -> list of checks (tuples)"""
    calls = []
    for st in init.body:
        if isinstance(st, ast.Expr) and isinstance(st.value, ast.Call) and not st.value.args and not st.value.keywords:
            p = pyexpr.attr_path(st.value.func)
            if p and len(p) == 2 and p[0] == "self":
                calls.append(p[1])
    checks, lines = [], []
    for name in calls:
        fn = methods.get(name)
        if fn is None:
            gaps.append(f"validation method {name} not found")
            continue
        c, ln = _method_checks(name, fn, chain_names, fns, gaps)
        checks += c
        lines += ln
    # `contour_points` / `contour_line` must be the plain accessors the model assumes
    for prop, attr in (("contour_points", "_contour_points"), ("contour_line", "_contour_line"), ("depth", "_depth"),
                       ("usable_width", "_usable_width")):
        fn = methods.get(prop)
        if fn is None or not (len(fn.body) == 1 and _same(fn.body[0], f"return self.{attr}")):
            gaps.append(f"property {prop} is not `return self.{attr}`")
    return calls, checks, lines


def _exc_name(r):
    e = r.exc
    if isinstance(e, ast.Call) and isinstance(e.func, ast.Name):
        return e.func.id
    if isinstance(e, ast.Name):
        return e.id
    return "Exception"


def _method_checks(mname, fn, chain_names, fns, gaps):
    out = []
    lines = []

    def add(st, c):
        out.append(c)
        lines.append((mname, st.body[0].lineno))

    scalars = {}          # local name -> Expr
    arrays = {}           # local name -> "half" | "z" | "y" | ("deepest", zmax expr)
    tr = _Tr(chain_names, fns, scalars)

    def is_half(n):
        return _same(n, "self.contour_points[len(self.contour_points) // 2:]")

    for st in fn.body:
        if isinstance(st, ast.Expr) and isinstance(st.value, ast.Constant):
            continue
        try:
            if isinstance(st, ast.Assign) and len(st.targets) == 1 and isinstance(st.targets[0], ast.Name):
                tname, v = st.targets[0].id, st.value
                if is_half(v):
                    arrays[tname] = "half"
                    continue
                if isinstance(v, ast.Subscript) and isinstance(v.value, ast.Name) and arrays.get(v.value.id) == "half" \
                        and isinstance(v.slice, ast.Tuple) and len(v.slice.elts) == 2 \
                        and isinstance(v.slice.elts[0], ast.Slice) and v.slice.elts[0].step is None \
                        and v.slice.elts[0].lower is None and v.slice.elts[0].upper is None \
                        and isinstance(v.slice.elts[1], ast.Constant) and v.slice.elts[1].value in (0, 1):
                    arrays[tname] = "z" if v.slice.elts[1].value == 0 else "y"
                    continue
                # deepest = np.max(y[z <= <expr>])
                if isinstance(v, ast.Call) and pyexpr.attr_path(v.func) == ["np", "max"] and len(v.args) == 1 \
                        and not v.keywords and isinstance(v.args[0], ast.Subscript) \
                        and isinstance(v.args[0].value, ast.Name) and arrays.get(v.args[0].value.id) == "y" \
                        and isinstance(v.args[0].slice, ast.Compare) and len(v.args[0].slice.ops) == 1 \
                        and isinstance(v.args[0].slice.ops[0], ast.LtE) and isinstance(v.args[0].slice.left, ast.Name) \
                        and arrays.get(v.args[0].slice.left.id) == "z":
                    arrays[tname] = ("deepest", tr.tr(v.args[0].slice.comparators[0]))
                    continue
                scalars[tname] = tr.tr(v)
                tr.locals[tname] = scalars[tname]
                continue
            if isinstance(st, ast.If) and not st.orelse and len(st.body) == 1 and isinstance(st.body[0], ast.Raise):
                err = _exc_name(st.body[0])
                t = st.test
                if _same(t, "not self.contour_line.is_simple"):
                    add(st, ("simple", err))
                    continue
                if isinstance(t, ast.UnaryOp) and isinstance(t.op, ast.Not) and isinstance(t.operand, ast.Call) \
                        and pyexpr.attr_path(t.operand.func) == ["np", "all"] and len(t.operand.args) == 1:
                    a = t.operand.args[0]
                    if isinstance(a, ast.Call) and pyexpr.attr_path(a.func) == ["np", "isfinite"] and len(a.args) == 1 \
                            and isinstance(a.args[0], ast.Name) and arrays.get(a.args[0].id) == "half":
                        add(st, ("finite", err))
                        continue
                    if isinstance(a, ast.Compare) and len(a.ops) == 1 and isinstance(a.ops[0], ast.Gt) \
                            and isinstance(a.left, ast.Call) and pyexpr.attr_path(a.left.func) == ["np", "diff"] \
                            and len(a.left.args) == 1 and isinstance(a.left.args[0], ast.Name) \
                            and arrays.get(a.left.args[0].id) == "z" and isinstance(a.comparators[0], ast.Constant) \
                            and a.comparators[0].value == 0:
                        add(st, ("zStrict", err))
                        continue
                if isinstance(t, ast.Call) and pyexpr.attr_path(t.func) == ["np", "any"] and len(t.args) == 1 \
                        and isinstance(t.args[0], ast.Compare) and len(t.args[0].ops) == 1 \
                        and isinstance(t.args[0].ops[0], ast.Lt) and isinstance(t.args[0].left, ast.Name) \
                        and arrays.get(t.args[0].left.id) == "y":
                    add(st, ("yBelow", tr.tr(t.args[0].comparators[0]), err))
                    continue
                # d > hi or d < lo
                if isinstance(t, ast.BoolOp) and isinstance(t.op, ast.Or) and len(t.values) == 2 \
                        and all(isinstance(v, ast.Compare) and len(v.ops) == 1 and isinstance(v.left, ast.Name)
                                and isinstance(arrays.get(v.left.id), tuple) for v in t.values) \
                        and isinstance(t.values[0].ops[0], ast.Gt) and isinstance(t.values[1].ops[0], ast.Lt) \
                        and t.values[0].left.id == t.values[1].left.id:
                    zmax = arrays[t.values[0].left.id][1]
                    add(st, ("deepest", zmax, tr.tr(t.values[0].comparators[0]), tr.tr(t.values[1].comparators[0]), err))
                    continue
                if isinstance(t, ast.Compare) and len(t.ops) == 1 and isinstance(t.ops[0], ast.Gt):
                    add(st, ("scalarGt", tr.tr(t.left), tr.tr(t.comparators[0]), err))
                    continue
            raise Untranslatable(f"statement {type(st).__name__}")
        except Untranslatable as ex:
            gaps.append(f"{mname}: `{ast.unparse(st)[:80]}` outside the subset ({ex})")
    return out, lines


# ---------------------------------------------------------------------------------------------------------
# the by-name factory
# ---------------------------------------------------------------------------------------------------------
def extract_factory(repo=None, gaps=None):
    gaps = gaps if gaps is not None else []
    tree = _parse("__init__.py", repo)
    fn = next((n for n in tree.body if isinstance(n, ast.FunctionDef) and n.name == "create_groove_by_type_name"), None)
    spec = dict(sepChars=[], sepWhitespace=False, title=False, suffix="", tryExactFirst=False)
    if fn is None:
        gaps.append("create_groove_by_type_name not found")
        return spec
    seen_sub = seen_suffix = False
    names_tried = []          # order in which `getattr(sys.modules[__name__], <name>, None)` is evaluated
    for st in ast.walk(fn):
        if isinstance(st, ast.Assign) and len(st.targets) == 1 and isinstance(st.targets[0], ast.Name):
            v = st.value
            if isinstance(v, ast.Call) and pyexpr.attr_path(v.func) == ["re", "sub"] and len(v.args) == 3:
                pat, repl, src = v.args
                if not (isinstance(pat, ast.Constant) and isinstance(pat.value, str)):
                    gaps.append("factory: regex is not a literal")
                    continue
                m = re.fullmatch(r"\[((?:\\.|[^\]\\])+)\]\+\(\\w\)", pat.value)
                if not m:
                    gaps.append(f"factory: regex {pat.value!r} is not of the form [class]+(\\w)")
                    continue
                items = re.findall(r"\\.|.", m.group(1))
                for it in items:
                    if it == "\\s":
                        spec["sepWhitespace"] = True
                    elif it in ("\\-", "-", "_", ".", " ", "\\.", "\\_"):
                        spec["sepChars"].append(it[-1])
                    else:
                        gaps.append(f"factory: character class item {it!r} outside the subset")
                if not _same(repl, "lambda m: m.group(1).capitalize()"):
                    gaps.append("factory: replacement is not `lambda m: m.group(1).capitalize()`")
                src_name = st.targets[0].id
                if _same(src, f"{src_name}.title()") or (isinstance(src, ast.Call) and isinstance(src.func, ast.Attribute)
                                                          and src.func.attr == "title" and not src.args):
                    spec["title"] = True
                elif not isinstance(src, ast.Name):
                    gaps.append(f"factory: regex applied to {ast.unparse(src)}")
                seen_sub = True
            elif isinstance(v, ast.IfExp) and isinstance(v.test, ast.Call) and isinstance(v.test.func, ast.Attribute) \
                    and v.test.func.attr == "endswith" and len(v.test.args) == 1 and isinstance(v.test.args[0], ast.Constant) \
                    and isinstance(v.orelse, ast.BinOp) and isinstance(v.orelse.op, ast.Add) \
                    and isinstance(v.orelse.right, ast.Constant) and v.orelse.right.value == v.test.args[0].value:
                spec["suffix"] = v.test.args[0].value
                seen_suffix = True
    # exact-name lookup before normalisation: a `getattr(sys.modules[__name__], type_name, None)` that textually precedes
    # the re.sub statement
    sub_line = next((st.lineno for st in ast.walk(fn) if isinstance(st, ast.Call) and pyexpr.attr_path(st.func) == ["re", "sub"]),
                    None)
    for st in ast.walk(fn):
        if isinstance(st, ast.Call) and isinstance(st.func, ast.Name) and st.func.id == "getattr" and len(st.args) == 3 \
                and _same(st.args[0], "sys.modules[__name__]"):
            names_tried.append((st.lineno, ast.unparse(st.args[1])))
    if sub_line is not None and any(ln < sub_line for ln, _ in names_tried):
        spec["tryExactFirst"] = True
    if not seen_sub:
        gaps.append("factory: the re.sub normalisation was not found")
    if not seen_suffix:
        gaps.append("factory: the suffix rule was not found")
    return spec


# ---------------------------------------------------------------------------------------------------------
# SplineGroove.__init__ shape checks
# ---------------------------------------------------------------------------------------------------------
# The third shape check asks whether the first and the last ordinate lie on the face line y = 0.  The FACE TEST `F(y)` is
# read from whichever of the two forms the source has (-> `FaceTest` of the model, `Gen.C03.splineFace`):
#   np.isclose(<y>, 0)                    -> ("isclose",)         numpy's defaults, absolute 1e-8
#   np.abs(<y>) <= <tolerance term>       -> ("within", FTerm)    tolerance = a term over the array as given, inline or
#                                                                 through a local bound before the check
#   <mask>[0] / <mask>[-1] / <mask>       with `<mask> = F(contour_points[:, 1])` bound before -> the test of the mask
# Every face test of `__init__` (validation of the ends, boundary stripping, masks) must be the same one; `<`, keyword
# tolerances of `np.isclose`, tolerance terms outside the subset below are reported as gaps.
_ORD_SEL = {"contour_points[0, 1]": "0", "contour_points[-1, 1]": "-1", "contour_points[:, 1]": ":",
            "np.roll(contour_points[:, 1], 1)": "roll", "np.roll(contour_points[:, 1], -1)": "roll"}


def _np_call(n, *names):
    return isinstance(n, ast.Call) and (pyexpr.attr_path(n.func) or [None, None])[0] in ("np", "numpy") \
        and len(pyexpr.attr_path(n.func)) == 2 and pyexpr.attr_path(n.func)[1] in names


def _ord_sel(n):
    for src, sel in _ORD_SEL.items():
        if _same(n, src):
            return sel
    return None


def _column(n):
    """`contour_points[:, k]` -> k"""
    for k in (0, 1):
        if _same(n, f"contour_points[:, {k}]"):
            return k
    return None


class _FTr:
    """tolerance terms over the columns of the local array `contour_points` (-> `FTerm` of the model)"""

    def __init__(self):
        self.locals = {}          # name -> term
        self.failed = {}          # name -> why its right-hand side is no term
        self.read = set()

    def tr(self, n):
        if isinstance(n, ast.Constant) and not isinstance(n.value, bool) and isinstance(n.value, (int, float)) and n.value >= 0:
            c = pyexpr.const(n.value)                      # ("nat", m) | ("dec", m, e) = m * 10^-e
            if c[0] in ("nat", "dec"):
                return c
        if _np_call(n, "ptp") and len(n.args) == 1 and not n.keywords and _column(n.args[0]) is not None:
            k = _column(n.args[0])
            return ("sub", ("colMax", k), ("colMin", k))   # np.ptp = max - min
        if _np_call(n, "max", "amax") and len(n.args) == 1 and not n.keywords \
                and _same(n.args[0], "np.ptp(contour_points, axis=0)"):
            # the larger of the two column extents of the (n, 2) array
            return ("max", ("sub", ("colMax", 0), ("colMin", 0)), ("sub", ("colMax", 1), ("colMin", 1)))
        for names, tag in ((("min", "amin"), "colMin"), (("max", "amax"), "colMax")):
            if _np_call(n, *names) and len(n.args) == 1 and not n.keywords and _column(n.args[0]) is not None:
                return (tag, _column(n.args[0]))
        if isinstance(n, ast.BinOp):
            ops = {ast.Add: "add", ast.Sub: "sub", ast.Mult: "mul", ast.Div: "div"}
            if type(n.op) in ops:
                return (ops[type(n.op)], self.tr(n.left), self.tr(n.right))
        if isinstance(n, ast.Name):
            if n.id in self.locals:
                self.read.add(n.id)
                return self.locals[n.id]
            if n.id in self.failed:
                raise Untranslatable(f"tolerance local `{n.id}`: {self.failed[n.id]}")
            raise Untranslatable(f"tolerance reads `{n.id}`, which is not bound before the face test")
        raise Untranslatable(f"tolerance term `{ast.unparse(n)[:60]}` outside the subset")


def lean_fterm(e):
    k = e[0]
    if k in ("nat", "colMin", "colMax"):
        return f"(.{k} {e[1]})"
    if k == "dec":
        return f"(.dec {e[1]} {e[2]})"
    return f"(.{k} {lean_fterm(e[1])} {lean_fterm(e[2])})"


def lean_face(ft):
    return ".isclose" if ft[0] == "isclose" else f"(.within {lean_fterm(ft[1])})"


class _FaceReader:
    def __init__(self, ftr):
        self.ftr = ftr
        self.masks = {}           # local name -> face test of `F(contour_points[:, 1])`

    def test(self, n):
        """-> (face test, selection) if `n` is a face test applied to a selection of the ordinates, else None;
        raises Untranslatable if `n` looks like one but is outside the subset"""
        if _np_call(n, "isclose"):
            sels = [_ord_sel(a) for a in n.args]
            if any(sels):
                if len(n.args) == 2 and not n.keywords and sels[0] and _same(n.args[1], "0"):
                    return ("isclose",), sels[0]
                raise Untranslatable(f"face test `{ast.unparse(n)[:70]}` is not `np.isclose(<ordinates>, 0)` with numpy's defaults")
            return None
        if isinstance(n, ast.Compare):
            operands = [n.left] + list(n.comparators)
            hit = [o for o in operands if _np_call(o, "abs", "absolute", "fabs") and o.args and _ord_sel(o.args[0])]
            if hit:
                if len(n.ops) == 1 and isinstance(n.ops[0], ast.LtE) and hit == [n.left] and _np_call(n.left, "abs") \
                        and len(n.left.args) == 1 and not n.left.keywords:
                    return ("within", self.ftr.tr(n.comparators[0])), _ord_sel(n.left.args[0])
                raise Untranslatable(f"face test `{ast.unparse(n)[:70]}` is not `np.abs(<ordinates>) <= <tolerance>`")
            return None
        if isinstance(n, ast.Name) and n.id in self.masks:
            return self.masks[n.id], ":"
        if isinstance(n, ast.Subscript) and isinstance(n.value, ast.Name) and n.value.id in self.masks:
            if ast.unparse(n.slice) in ("0", "-1"):
                return self.masks[n.value.id], ast.unparse(n.slice)
            raise Untranslatable(f"selection `{ast.unparse(n)[:40]}` of the face mask")
        return None


def extract_spline_checks(repo=None, gaps=None):
    """-> (shape checks in source order, face test ("isclose",) | ("within", FTerm))"""
    gaps = gaps if gaps is not None else []
    tree = _parse("spline.py", repo)
    cls = next(n for n in tree.body if isinstance(n, ast.ClassDef) and n.name == "SplineGroove")
    init = next(n for n in cls.body if isinstance(n, ast.FunctionDef) and n.name == "__init__")
    out = []
    ftr = _FTr()
    face = _FaceReader(ftr)
    faces = []                    # (face test, where) of every face test met in __init__
    ends = None
    given = True                  # the local name `contour_points` still is the array as given (after np.asarray)
    seen_asarray = False

    def scan(node, where, skip=()):
        """every face test inside `node` (other than the sub-nodes in `skip`, which the caller has read itself)"""
        for sub in ast.walk(node):
            if any(sub is k for k in skip):
                continue
            if isinstance(sub, ast.Name) and sub.id in face.masks and isinstance(sub.ctx, ast.Load):
                faces.append((face.masks[sub.id], where))
                continue
            if not isinstance(sub, (ast.Call, ast.Compare)):
                continue
            try:
                ft = face.test(sub)
            except Untranslatable as ex:
                gaps.append(f"SplineGroove.__init__: {ex}")
                continue
            if ft is not None:
                if ft[0][0] == "within" and not given:
                    gaps.append(f"SplineGroove.__init__: face tolerance in `{ast.unparse(sub)[:70]}` is computed after "
                                f"`contour_points` was re-bound (not from the array as given)")
                faces.append((ft[0], where))

    for st in init.body:
        if isinstance(st, ast.Expr) and isinstance(st.value, ast.Constant):
            continue
        if _same(st, "contour_points = np.asarray(contour_points, dtype='float64')") and not seen_asarray:
            seen_asarray = True
            continue
        # --- locals: `<mask> = F(contour_points[:, 1])`, `<name> = <tolerance term>`
        if isinstance(st, ast.Assign) and len(st.targets) == 1 and isinstance(st.targets[0], ast.Name) \
                and st.targets[0].id != "contour_points":
            name = st.targets[0].id
            try:
                ft = face.test(st.value)
            except Untranslatable as ex:
                gaps.append(f"SplineGroove.__init__: {ex}")
                continue
            if ft is not None and ft[1] == ":":
                if not given or not seen_asarray:
                    gaps.append(f"SplineGroove.__init__: face mask `{name}` is not computed from the array as given")
                face.masks[name] = ft[0]
                faces.append((ft[0], f"mask {name}"))
                continue
            if ends is None and given and seen_asarray:
                try:
                    ftr.locals[name] = ftr.tr(st.value)
                    ftr.failed.pop(name, None)
                    continue
                except Untranslatable as ex:
                    ftr.locals.pop(name, None)
                    ftr.failed[name] = str(ex)
            scan(st, f"`{ast.unparse(st)[:50]}`")
            continue
        if isinstance(st, ast.If) and len(st.body) == 1 and isinstance(st.body[0], ast.Raise) and not st.orelse:
            t = st.test
            if isinstance(t, ast.Compare) and len(t.ops) == 1 and isinstance(t.ops[0], ast.NotEq) \
                    and isinstance(t.comparators[0], ast.Constant):
                if _same(t.left, "contour_points.ndim"):
                    out.append(("ndim", t.comparators[0].value))
                    continue
                if _same(t.left, "contour_points.shape[1]"):
                    out.append(("cols", t.comparators[0].value))
                    continue
            # `if not F(cp[0, 1]) or not F(cp[-1, 1]): raise`
            if isinstance(t, ast.BoolOp) and isinstance(t.op, ast.Or) and len(t.values) == 2 \
                    and all(isinstance(v, ast.UnaryOp) and isinstance(v.op, ast.Not) for v in t.values):
                try:
                    fa, fb = (face.test(v.operand) for v in t.values)
                except Untranslatable as ex:
                    gaps.append(f"SplineGroove.__init__: {ex}")
                    continue
                if fa and fb and fa[1] == "0" and fb[1] == "-1" and ends is None:
                    if not given or not seen_asarray:
                        gaps.append("SplineGroove.__init__: the end ordinates are tested after `contour_points` was re-bound")
                    if fa[0] != fb[0]:
                        gaps.append("SplineGroove.__init__: first and last ordinate are tested with different face tests: "
                                    f"{lean_face(fa[0])} / {lean_face(fb[0])}")
                    ends = fa[0]
                    faces += [(fa[0], "validation of the end ordinates"), (fb[0], "validation of the end ordinates")]
                    out.append(("endsOnFace",))
                    continue
            gaps.append(f"SplineGroove.__init__: check outside the subset: {ast.unparse(t)[:90]}")
            continue
        scan(st, f"`{ast.unparse(st)[:50]}`")
        if any(isinstance(tg, ast.Name) and tg.id == "contour_points" for sub in ast.walk(st) if isinstance(sub, ast.Assign)
               for tg in sub.targets):
            given = False
    if ends is None:
        gaps.append("SplineGroove.__init__: the validation of the end ordinates was not found")
        return out, ("isclose",)          # well-formed placeholder; the gap above breaks the tie
    other = sorted({f"{lean_face(f)} in {w}" for f, w in faces if f != ends and w != "validation of the end ordinates"})
    if other:
        gaps.append("SplineGroove.__init__: mixed face tests: the end ordinates are validated with "
                    f"{lean_face(ends)}, but {'; '.join(other)}")
    if ends[0] == "within":
        for name in sorted(set(ftr.locals) - ftr.read):
            gaps.append(f"SplineGroove.__init__: local `{name}` is bound before the face test but not read by it")
    return out, ends


# ---------------------------------------------------------------------------------------------------------
# per-class signatures
# ---------------------------------------------------------------------------------------------------------
CLASS_FILES = [
    ("generic_elongation.py", "GenericElongationGroove"), ("boxes/box.py", "BoxGroove"),
    ("boxes/constricted_box.py", "ConstrictedBoxGroove"), ("boxes/upset_box.py", "UpsetBoxGroove"),
    ("boxes/upset_box.py", "ConstrictedUpsetBoxGroove"), ("diamonds/diamond.py", "DiamondGroove"),
    ("diamonds/square.py", "SquareGroove"), ("diamonds/gothic.py", "GothicGroove"),
    ("ovals/circular_oval.py", "CircularOvalGroove"), ("ovals/flat_oval.py", "FlatOvalGroove"),
    ("ovals/swedish_oval.py", "SwedishOvalGroove"), ("ovals/constricted_swedish_oval.py", "ConstrictedSwedishOvalGroove"),
    ("ovals/constricted_circular_oval.py", "ConstrictedCircularOvalGroove"), ("ovals/oval_3radii.py", "Oval3RadiiGroove"),
    ("ovals/oval_3radii_flanked.py", "Oval3RadiiFlankedGroove"), ("ovals/upset_oval.py", "UpsetOvalGroove"),
    ("rounds/round.py", "RoundGroove"), ("rounds/false_round.py", "FalseRoundGroove"), ("flat.py", "FlatGroove"),
    ("hexagonal.py", "HexagonalGroove"), ("equivalent_ripped_groove.py", "EquivalentRibbedGroove"),
]


def extract_signatures(repo=None, gaps=None):
    """{class: dict(params=[(name, required)], deg=[names converted with deg2rad], base=first base class name)}"""
    gaps = gaps if gaps is not None else []
    out = {}
    for rel, cname in CLASS_FILES:
        tree = _parse(rel, repo)
        cls = next((n for n in tree.body if isinstance(n, ast.ClassDef) and n.name == cname), None)
        if cls is None:
            gaps.append(f"class {cname} not found in {rel}")
            continue
        init = next((n for n in cls.body if isinstance(n, ast.FunctionDef) and n.name == "__init__"), None)
        base = cls.bases[0].id if cls.bases and isinstance(cls.bases[0], ast.Name) else "?"
        if init is None:
            out[cname] = dict(params=None, deg=None, base=base)
            continue
        deg = []
        for n in ast.walk(init):
            if isinstance(n, ast.Call) and (pyexpr.attr_path(n.func) in (["np", "deg2rad"], ["deg2rad"])) and len(n.args) == 1 \
                    and isinstance(n.args[0], ast.Name):
                if n.args[0].id not in deg:
                    deg.append(n.args[0].id)
        out[cname] = dict(params=extract_signature(init), deg=sorted(deg), base=base)
    # inherited constructors
    for cname, d in out.items():
        seen = 0
        while d["params"] is None and seen < 5:
            b = out.get(d["base"])
            if b is None:
                gaps.append(f"{cname}: base class {d['base']} without a known constructor")
                break
            d["params"], d["deg"] = b["params"], b["deg"]
            seen += 1
    return out


def exported_classes(repo=None):
    """the groove classes `pyroll.core.grooves` exports (the by-name factory's first lookup table)"""
    tree = _parse("__init__.py", repo)
    for st in tree.body:
        if isinstance(st, ast.Assign) and _is_name(st.targets, "__all__") and isinstance(st.value, ast.List):
            return [e.value for e in st.value.elts if isinstance(e, ast.Constant) and e.value.endswith("Groove")
                    or isinstance(e, ast.Constant) and e.value == "GrooveBase"]
    return []


# ---------------------------------------------------------------------------------------------------------
# emit
# ---------------------------------------------------------------------------------------------------------
def extract_all(repo=None):
    gaps = []
    cls, methods = _generic(repo)
    init = methods["__init__"]
    chain, chain_gaps = T_groove.extract_chain(repo)
    gaps += [f"groove chain entry outside the subset: {g}" for g in chain_gaps]
    chain_names = [n for n, _ in chain]
    cf = T_groove.extract_contour_functions(repo, chain_names=chain_names)
    fns = {k: v for k, v in cf.items()}
    found = dict(
        signature=extract_signature(init),
        defaults=T_groove.extract_defaults(repo),
        chain=chain, fns=fns,
        pieces=extract_pieces(methods, gaps),
        mirror=extract_mirror(init, gaps),
        pad=extract_pad_rule(init, gaps),
        resolution=extract_resolution(init, gaps),
    )
    found["nonneg"], found["upper"] = extract_arg_checks(init, gaps)
    found["check_methods"], found["checks"], found["check_lines"] = extract_checks(init, methods, chain_names, fns, gaps)
    # where __init__ itself raises (for the harness: python exception -> model error kind)
    tri = next((st for st in init.body if isinstance(st, ast.Try)), None)
    found["raise_lines"] = dict(
        negative=[st.body[0].lineno for st in init.body if isinstance(st, ast.If) and st.body and isinstance(st.body[0], ast.Raise)
                  and "all(" in ast.unparse(st.test)],
        bound=[st.body[0].lineno for st in init.body if isinstance(st, ast.If) and st.body and isinstance(st.body[0], ast.Raise)
               and "all(" not in ast.unparse(st.test)],
        arity=[n.lineno for n in ast.walk(tri) if isinstance(n, ast.Raise)] if tri is not None else [],
        init=(init.lineno, init.end_lineno))
    found["factory"] = extract_factory(repo, gaps)
    found["spline"], found["spline_face"] = extract_spline_checks(repo, gaps)
    found["signatures"] = extract_signatures(repo, gaps)
    found["classes"] = exported_classes(repo)
    # every name a piece refers to must exist
    for p in found["pieces"]:
        for nm in p[1:]:
            if nm.startswith("fn_"):
                if nm[3:] not in fns:
                    gaps.append(f"piece refers to unknown contour function {nm}")
            elif nm not in chain_names:
                gaps.append(f"piece refers to unknown junction {nm}")
    found["gaps"] = gaps
    return found


def _lean_check(c):
    k = c[0]
    s = pyexpr.lean_str
    if k in ("simple", "finite", "zStrict"):
        return f".{k} {s(c[1])}"
    if k == "yBelow":
        return f".yBelow {lean_expr(c[1])} {s(c[2])}"
    if k == "scalarGt":
        return f".scalarGt {lean_expr(c[1])} {lean_expr(c[2])} {s(c[3])}"
    if k == "deepest":
        return f".deepest {lean_expr(c[1])} {lean_expr(c[2])} {lean_expr(c[3])} {s(c[4])}"
    raise ValueError(c)


def emit(ctx, pid="C03", repo=None):
    # the junction chain, resolution closed forms, contour functions, defaults: same extractor (and file layout) as C04
    T_groove.emit(ctx, pid)
    f = extract_all(repo)
    for g in f["gaps"]:
        ctx.tie_breaks.append("translator: " + g)
    s = pyexpr.lean_str
    L = [f"import PyrollModel.GrooveWF", f"import PyrollModel.Gen.{pid}Groove",
         "/- GENERATED by driver/translate/c03_validate.py from pyroll/core/grooves/{generic_elongation,__init__,spline}.py "
         "and the class modules - do not edit. -/",
         f"namespace Gen.{pid}", "open GrooveWF", ""]
    opt = lambda e: "none" if e is None else f"(some {lean_expr(e, '')})"
    L.append("def resolution : List Resolve := [")
    rows = []
    for (t, close, deg, val) in f["resolution"]:
        c = "none" if close is None else f"(some ({lean_expr(close[0], '')}, {lean_expr(close[1], '')}))"
        rows.append(f"  {{ target := {s(t)}, closeTo := {c}, degenerate := {opt(deg)}, value := {lean_expr(val, '')} }}")
    L.append(",\n".join(rows) + "]")
    L.append("")
    L.append("def pieces : List Piece := [" + ", ".join(
        "." + p[0] + " " + " ".join(s(x) for x in p[1:]) for p in f["pieces"]) + "]")
    L.append("")
    L.append("def checks : List Check := [")
    L.append(",\n".join("  " + _lean_check(c) for c in f["checks"]) + "]")
    L.append("")
    L.append("/-- validation methods called at the end of `__init__`, in call order -/")
    L.append("def checkMethods : List String := [" + ", ".join(s(m) for m in f["check_methods"]) + "]")
    L.append("")
    m = f["mirror"]
    pad = f["pad"] if f["pad"] is not None else ("var", "<pad rule not found>")
    L.append("def spec : Spec := {")
    L.append("  required := [" + ", ".join(s(n) for n, req in f["signature"] if req) + "],")
    L.append("  defaults := Groove.defaults,")
    L.append("  nonneg := [" + ", ".join(s(n) for n in f["nonneg"]) + "],")
    L.append("  upper := [" + ", ".join(f"({s(n)}, {lean_expr(e, '')})" for n, e in f["upper"]) + "],")
    L.append("  resolution := resolution,")
    L.append(f"  padDefault := {lean_expr(pad, '')},")
    L.append("  chain := Groove.chain,")
    L.append("  fns := [" + ", ".join(f"({s('fn_' + k)}, Groove.fn_{k})" for k in sorted(f["fns"])) + "],")
    L.append("  pieces := pieces,")
    L.append(f"  mirror := {{ dropLast := {m['dropLast']}, negZ := {str(m['negZ']).lower()}, leftFirst := {str(m['leftFirst']).lower()} }},")
    L.append("  checks := checks }")
    L.append("")
    L.append("/-- all parameters of `GenericElongationGroove.__init__` (name, required) -/")
    L.append("def signature : List (String × Bool) := [" + ", ".join(
        f"({s(n)}, {str(req).lower()})" for n, req in f["signature"]) + "]")
    L.append("")
    fa = f["factory"]
    chars = ", ".join("'" + (c if c not in "'\\" else "\\" + c) + "'" for c in fa["sepChars"])
    L.append("def factory : FactorySpec := { sepChars := [" + chars + f"], sepWhitespace := {str(fa['sepWhitespace']).lower()}, "
             f"title := {str(fa['title']).lower()}, suffix := {s(fa['suffix'])}, "
             f"tryExactFirst := {str(fa['tryExactFirst']).lower()} }}")
    L.append("")
    L.append("/-- the groove classes exported by `pyroll.core.grooves` (first lookup table of the factory) -/")
    L.append("def classes : List String := [" + ", ".join(s(c) for c in f["classes"]) + "]")
    L.append("")
    L.append("/-- how `SplineGroove.__init__` decides that an ordinate lies on the face line (read from the source) -/")
    L.append("def splineFace : FaceTest := " + lean_face(f["spline_face"]))
    L.append("")
    L.append("def splineChecks : List SplineCheck := [" + ", ".join(
        "." + c[0] + ("" if len(c) == 1 else f" {c[1]}") for c in f["spline"]) + "]")
    L.append("")
    L.append("/-- per public class: constructor parameters (name, required) and the parameters converted with deg2rad -/")
    L.append("def classSigs : List (String × List (String × Bool) × List String) := [")
    rows = []
    for cname, d in f["signatures"].items():
        if d["params"] is None:
            continue
        ps = ", ".join(f"({s(n)}, {str(r).lower()})" for n, r in d["params"])
        rows.append(f"  ({s(cname)}, [{ps}], [" + ", ".join(s(x) for x in d["deg"]) + "])")
    L.append(",\n".join(rows) + "]")
    L.append("")
    L.append(f"end Gen.{pid}")
    text = "\n".join(L) + "\n"
    changed = pyexpr.write_if_changed(os.path.join(LEAN_DIR, "PyrollModel", "Gen", f"{pid}.lean"), text)
    ctx.notes.setdefault("generated", {})[f"Gen/{pid}.lean"] = {"checks": len(f["checks"]), "pieces": len(f["pieces"]),
                                                                "rewritten": changed}
    return f
