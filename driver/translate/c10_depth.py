"""(T) extractor for C10: the representations of one groove / roll surface.

Read from the working tree on every run (AST node types are whitelisted, never source text):

  pyroll/core/grooves/generic_elongation.py
      * the junction chain of `__init__` (through driver/translate/groove.py: `extract_chain`)
      * every `_*_contour_line` method as an `Expr` over `z` and the chain (incl. `np.ones_like(z) * e`, `np.zeros_like(z)`)
      * `local_depth`: what the statements `z = <E>` do to the argument before `np.piecewise` (`np.abs`, `np.asarray(.., dtype=float)`
        and friends, in execution order -> `ArgOp` list) and the `np.piecewise` condition / function table
      * `_enumerate_contour_points`: the sequence of `yield a, b` / `if not np.isclose(..): yield ..` /
        `if not np.isclose(..): for z in np.linspace(a, b, Config.GROOVE_RADIUS_POINT_COUNT, endpoint=False): yield z, f(z)`
      * the assembly of `_contour_points` (shape check)
  pyroll/core/roll/hookimpls.py
      * `contour_points`, `min_radius`, `max_radius` (pyexpr), `surface_z` (column), `surface_y` (element formula with the
        broadcast axes), `surface_x` (guarded padded angle, `linspace` list, mirrored concatenation, outer formula)
  pyroll/core/roll/roll.py            `surface_interpolation`: what happens to the positions `x`, `z` before `interpn` (`ArgOp`
                                      lists), axes and transposition handed to `interpn`, layout of the result (shape check);
                                      what the object keeps between two calls (`extract_roll_state`: private attributes of
                                      `__init__`, what `reevaluate_cache` empties and when, pure / remembering methods,
                                      hook functions reading them, nothing at module level) -> `RollTables`
  pyroll/core/grooves/spline.py       end-ordinate validation, boundary stripping (shape check), centring term,
                                      half width / width / usable width / depth terms, `interp1d` arguments, and what
                                      happens to the identity of the array behind the local name `contour_points`
                                      (asarray / slice = view / mask = fresh / copy / in-place write / store -> `ArrOp`)
  pyroll/core/roll_pass/hookimpls/symmetric_roll_pass.py   `entry_point`

Output: lean/PyrollModel/Gen/C10.lean (namespace Gen.C10).  Everything outside the subset -> `ctx.tie_breaks`, and a
well-formed placeholder so that unrelated theorems still build.
"""
import ast
import os

from . import pyexpr, groove
from ..core import LEAN_DIR

GE = "pyroll/core/grooves/generic_elongation.py"
RH = "pyroll/core/roll/hookimpls.py"
RR = "pyroll/core/roll/roll.py"
SP = "pyroll/core/grooves/spline.py"
SY = "pyroll/core/roll_pass/hookimpls/symmetric_roll_pass.py"


class Gap(Exception):
    pass


def _repo():
    from .. import core
    return core.REPO


def _parse(rel):
    return ast.parse(open(os.path.join(_repo(), rel)).read())


def _cls(tree, name):
    for n in tree.body:
        if isinstance(n, ast.ClassDef) and n.name == name:
            return n
    raise Gap(f"class {name} not found")


def _method(cls, name):
    for n in cls.body:
        if isinstance(n, ast.FunctionDef) and n.name == name:
            return n
    raise Gap(f"method {cls.name}.{name} not found")


def _body(fn):
    """statements without the docstring"""
    return [s for s in fn.body if not (isinstance(s, ast.Expr) and isinstance(s.value, ast.Constant)
                                       and isinstance(s.value.value, str))]


def _dump(n):
    return ast.dump(n, annotate_fields=False, include_attributes=False)


def _same(node, src):
    """AST equality with a reference snippet (formatting / comments are irrelevant)"""
    ref = ast.parse(src).body[0]
    if isinstance(ref, ast.Expr) and not isinstance(node, ast.Expr):
        ref = ref.value
    return _dump(node) == _dump(ref)


def _np_call(n, name):
    return isinstance(n, ast.Call) and pyexpr.attr_path(n.func) in (["np", name], ["numpy", name])


# ----------------------------------------------------------------------------------------------------------------
# generic elongation groove
# ----------------------------------------------------------------------------------------------------------------
class _FnTr(groove._ChainTr):
    """contour-line bodies: `self.zK` -> chain refs, `self.<input or property of an input>` -> variable, `z` free"""

    def __init__(self, defined):
        super().__init__(dict(defined), {"z"})

    def tr(self, n):
        if _np_call(n, "zeros_like") and len(n.args) == 1 and not n.keywords:
            return ("nat", 0)
        if _np_call(n, "ones_like") and len(n.args) == 1 and not n.keywords:
            return ("nat", 1)
        p = pyexpr.attr_path(n)
        if p is not None and p[0] == "self" and len(p) == 2:
            name = p[1].lstrip("_")
            if name in self.defined:
                return ("ref", self.defined[name])
            if name in groove.INPUTS:
                return ("var", name)
            raise pyexpr.Untranslatable(f"self.{p[1]}")
        return super().tr(n)


def extract_contour_fns(cls, chain_names):
    """{method name: expr} for every `_*_contour_line` method (single `return <expr>`)"""
    defined = {n: n for n in chain_names}
    out, gaps = {}, []
    for fn in cls.body:
        if not (isinstance(fn, ast.FunctionDef) and fn.name.endswith("_contour_line") and fn.name.startswith("_")):
            continue
        body = _body(fn)
        args = [a.arg for a in fn.args.args if a.arg != "self"]
        if len(body) != 1 or not isinstance(body[0], ast.Return) or args != ["z"]:
            gaps.append(f"{fn.name}: not a single `return <expr>` of `z`")
            continue
        try:
            out[fn.name] = _FnTr(defined).tr(body[0].value)
        except pyexpr.Untranslatable as ex:
            gaps.append(f"{fn.name}: {ex}")
    return out, gaps


def _self_attr(n):
    p = pyexpr.attr_path(n)
    if p is not None and p[0] == "self" and len(p) == 2:
        return p[1]
    return None


def _cond(n):
    """`z < self.a` -> (None, a) ; `(self.a <= z) & (z < self.b)` -> (a, b)"""
    def lt(c):      # z < self.b
        if isinstance(c, ast.Compare) and len(c.ops) == 1 and isinstance(c.ops[0], ast.Lt) \
                and isinstance(c.left, ast.Name) and c.left.id == "z":
            return _self_attr(c.comparators[0])
        return None

    def le(c):      # self.a <= z
        if isinstance(c, ast.Compare) and len(c.ops) == 1 and isinstance(c.ops[0], ast.LtE) \
                and isinstance(c.comparators[0], ast.Name) and c.comparators[0].id == "z":
            return _self_attr(c.left)
        return None

    b = lt(n)
    if b is not None:
        return (None, b)
    if isinstance(n, ast.BinOp) and isinstance(n.op, ast.BitAnd):
        a, b = le(n.left), lt(n.right)
        if a is not None and b is not None:
            return (a, b)
    raise Gap(f"piecewise condition `{ast.unparse(n)}`")


def _is_float_dtype(n):
    """`float`, `np.float64`, `np.double`, `"float64"`, `"float"`, `"f8"`, `"d"`: numpy's float64"""
    if isinstance(n, ast.Name):
        return n.id == "float"
    if isinstance(n, ast.Constant):
        return n.value in ("float64", "float", "f8", "d", "double")
    return pyexpr.attr_path(n) in (["np", "float64"], ["numpy", "float64"], ["np", "double"], ["numpy", "double"])


def _arg_ops(n, var="z"):
    """What an expression does to the argument `z` of `local_depth` before it reaches `np.piecewise`, innermost first:
         z                                              []
         np.abs(E) / np.absolute(E) / abs(E)            ops(E) + ["abs"]        (keeps the dtype)
         np.asarray(E) / np.asanyarray(E)               ops(E) + ["asArray"]    (keeps the dtype)
         np.asarray(E, dtype=<float64>) (also positional, also np.asanyarray / np.array / np.ascontiguousarray),
         np.float64(E), E.astype(<float64>)             ops(E) + ["asFloat"]    (every numeric kind becomes float64)
       anything else (an `out=` argument, another dtype, arithmetic) -> Gap"""
    if isinstance(n, ast.Name) and n.id == var:
        return []
    if isinstance(n, ast.Call):
        kws = {k.arg: k.value for k in n.keywords}
        if isinstance(n.func, ast.Name) and n.func.id == "abs" and len(n.args) == 1 and not kws:
            return _arg_ops(n.args[0], var) + ["abs"]
        path = pyexpr.attr_path(n.func)
        if path is not None and len(path) == 2 and path[0] in ("np", "numpy"):
            f = path[1]
            if f in ("abs", "absolute") and len(n.args) == 1 and not kws:
                return _arg_ops(n.args[0], var) + ["abs"]
            if f in ("float64", "double") and len(n.args) == 1 and not kws:
                return _arg_ops(n.args[0], var) + ["asFloat"]
            if f in ("asarray", "asanyarray", "array", "ascontiguousarray") and 1 <= len(n.args) <= 2 \
                    and set(kws) <= ({"dtype"} if len(n.args) == 1 else set()):
                dt = n.args[1] if len(n.args) == 2 else kws.get("dtype")
                if dt is None and f in ("asarray", "asanyarray"):
                    return _arg_ops(n.args[0], var) + ["asArray"]
                if dt is not None and _is_float_dtype(dt):
                    return _arg_ops(n.args[0], var) + ["asFloat"]
        if isinstance(n.func, ast.Attribute) and n.func.attr == "astype" and len(n.args) == 1 and not kws \
                and _is_float_dtype(n.args[0]):
            return _arg_ops(n.func.value, var) + ["asFloat"]
    raise Gap(f"local_depth: what `{ast.unparse(n)[:80]}` does to the argument is outside the subset")


def extract_local_depth(cls):
    """-> (arg_ops, [(lo|None, hi, method)], default method); `arg_ops` = what the statements `z = <E>` before the `return` do
    to the argument, in execution order (see `_arg_ops`): `["abs"]` for `z = np.abs(z)`, `["asFloat", "abs"]` for
    `z = np.abs(np.asarray(z, dtype=float))` or the same in two statements"""
    fn = _method(cls, "local_depth")
    if [a.arg for a in fn.args.args] != ["self", "z"] or fn.args.vararg or fn.args.kwarg or fn.args.kwonlyargs or fn.decorator_list:
        raise Gap("local_depth is not a plain method of `z`")
    body = _body(fn)
    arg_ops = []
    while len(body) > 1:
        st = body[0]
        if not (isinstance(st, ast.Assign) and len(st.targets) == 1 and isinstance(st.targets[0], ast.Name)
                and st.targets[0].id == "z"):
            raise Gap(f"local_depth: statement `{ast.unparse(st)[:80]}` is not `z = <conversion of z>`")
        arg_ops += _arg_ops(st.value)
        body = body[1:]
    if len(body) != 1 or not isinstance(body[0], ast.Return) or not _np_call(body[0].value, "piecewise"):
        raise Gap("local_depth is not `[z = <conversion of z>;]* return np.piecewise(z, [...], [...])`")
    call = body[0].value
    if len(call.args) != 3 or call.keywords or not (isinstance(call.args[0], ast.Name) and call.args[0].id == "z") \
            or not isinstance(call.args[1], ast.List) or not isinstance(call.args[2], ast.List):
        raise Gap("np.piecewise arguments")
    conds = [_cond(c) for c in call.args[1].elts]
    funcs = []
    for f in call.args[2].elts:
        a = _self_attr(f)
        if a is None:
            raise Gap(f"piecewise function `{ast.unparse(f)}`")
        funcs.append(a)
    if len(funcs) != len(conds) + 1:
        raise Gap("np.piecewise needs one function per condition plus the default")
    return arg_ops, [(lo, hi, f) for (lo, hi), f in zip(conds, funcs)], funcs[-1]


def _isclose_guard(test):
    """`not np.isclose(self.a, self.b)` -> (a, b)"""
    if isinstance(test, ast.UnaryOp) and isinstance(test.op, ast.Not) and _np_call(test.operand, "isclose") \
            and len(test.operand.args) == 2 and not test.operand.keywords:
        a, b = _self_attr(test.operand.args[0]), _self_attr(test.operand.args[1])
        if a is not None and b is not None:
            return a, b
    raise Gap(f"guard `{ast.unparse(test)}`")


def _yield_pair(st):
    if isinstance(st, ast.Expr) and isinstance(st.value, ast.Yield) and isinstance(st.value.value, ast.Tuple) \
            and len(st.value.value.elts) == 2:
        return st.value.value.elts
    return None


def extract_enumerate(cls):
    """-> [("pt", z, y) | ("ptIf", ga, gb, z, y) | ("arc", ga, gb, a, b, method)], count name"""
    fn = _method(cls, "_enumerate_contour_points")
    segs = []
    count = None
    for st in _body(fn):
        yp = _yield_pair(st)
        if yp is not None:
            a, b = _self_attr(yp[0]), _self_attr(yp[1])
            if a is None or b is None:
                raise Gap(f"yield `{ast.unparse(st)}`")
            segs.append(("pt", a, b))
            continue
        if isinstance(st, ast.If) and not st.orelse and len(st.body) == 1:
            ga, gb = _isclose_guard(st.test)
            inner = st.body[0]
            yp = _yield_pair(inner)
            if yp is not None:
                a, b = _self_attr(yp[0]), _self_attr(yp[1])
                if a is None or b is None:
                    raise Gap(f"yield `{ast.unparse(inner)}`")
                segs.append(("ptIf", ga, gb, a, b))
                continue
            if isinstance(inner, ast.For) and not inner.orelse and isinstance(inner.target, ast.Name) \
                    and inner.target.id == "z" and _np_call(inner.iter, "linspace") and len(inner.body) == 1:
                it = inner.iter
                kws = {k.arg: k.value for k in it.keywords}
                if len(it.args) != 3 or set(kws) != {"endpoint"} or not (isinstance(kws["endpoint"], ast.Constant)
                                                                            and kws["endpoint"].value is False):
                    raise Gap(f"linspace `{ast.unparse(it)}`")
                a, b = _self_attr(it.args[0]), _self_attr(it.args[1])
                cn = pyexpr.attr_path(it.args[2])
                if a is None or b is None or cn is None or cn[0] != "Config":
                    raise Gap(f"linspace `{ast.unparse(it)}`")
                cn = ".".join(cn)
                if count not in (None, cn):
                    raise Gap("different sample counts")
                count = cn
                yp = _yield_pair(inner.body[0])
                if yp is None or not (isinstance(yp[0], ast.Name) and yp[0].id == "z") \
                        or not (isinstance(yp[1], ast.Call) and len(yp[1].args) == 1 and not yp[1].keywords
                                and isinstance(yp[1].args[0], ast.Name) and yp[1].args[0].id == "z"):
                    raise Gap(f"arc body `{ast.unparse(inner.body[0])}`")
                f = _self_attr(yp[1].func)
                if f is None:
                    raise Gap(f"arc function `{ast.unparse(yp[1].func)}`")
                segs.append(("arc", ga, gb, a, b, f))
                continue
        raise Gap(f"statement `{ast.unparse(st)[:80]}` of _enumerate_contour_points")
    return segs, count


ASSEMBLY = [
    "right_side = np.array(list(self._enumerate_contour_points()))",
    "left_side = right_side[:-1].copy()",
    "left_side[:, 0] *= -1",
    "self._contour_points = np.concatenate([left_side, right_side[::-1]])",
]


def check_assembly(init):
    """the four statements that build `_contour_points` from the enumerated right half"""
    body = _body(init)
    idx = next((i for i, s in enumerate(body) if _same(s, ASSEMBLY[0])), None)
    if idx is None:
        raise Gap("assembly: `right_side = np.array(list(self._enumerate_contour_points()))` not found")
    for k, src in enumerate(ASSEMBLY):
        if idx + k >= len(body) or not _same(body[idx + k], src):
            raise Gap(f"assembly statement {k}: expected `{src}`")
    for s in body[idx + len(ASSEMBLY):]:
        for t in ast.walk(s):
            if isinstance(t, (ast.Assign, ast.AugAssign)):
                for tg in (t.targets if isinstance(t, ast.Assign) else [t.target]):
                    if "_contour_points" in ast.unparse(tg) or "right_side" in ast.unparse(tg):
                        raise Gap("contour points modified after assembly")


# ----------------------------------------------------------------------------------------------------------------
# roll
# ----------------------------------------------------------------------------------------------------------------
def _col_of(n, base):
    """`<base>[:, k]` -> k"""
    if isinstance(n, ast.Subscript) and isinstance(n.slice, ast.Tuple) and len(n.slice.elts) == 2:
        s, k = n.slice.elts
        if isinstance(s, ast.Slice) and s.lower is None and s.upper is None and s.step is None \
                and isinstance(k, ast.Constant) and isinstance(k.value, int) and ast.unparse(n.value) == base:
            return k.value
    return None


class _GridTr(pyexpr.ExprTranslator):
    """element formula of `surface_y`: `self.contour_points[:, k]` -> cz/cy, `self.surface_x` -> sx,
    `X.reshape(-1, 1)` marks X as varying along axis 0"""

    def __init__(self, locals_):
        super().__init__("self", locals_, ())
        self.axis0 = []      # variables seen under reshape(-1, 1)
        self.depth = 0

    def tr(self, n):
        k = _col_of(n, "self.contour_points")
        if k is not None:
            return ("var", ["cz", "cy"][k]) if k in (0, 1) else (_ for _ in ()).throw(pyexpr.Untranslatable("column"))
        if isinstance(n, ast.Call) and isinstance(n.func, ast.Attribute) and n.func.attr == "reshape":
            if [ast.unparse(a) for a in n.args] != ["-1", "1"] or n.keywords:
                raise pyexpr.Untranslatable("reshape other than (-1, 1)")
            e = self.tr(n.func.value)
            self.axis0 += pyexpr.expr_vars(e)
            return e
        p = pyexpr.attr_path(n)
        if p == ["self", "surface_x"]:
            return ("var", "sx")
        return super().tr(n)


def _fn_def(tree, name, decorator_hook):
    for n in tree.body:
        if isinstance(n, ast.FunctionDef):
            for d in n.decorator_list:
                info = pyexpr._decorator_info(d)
                if info and info[0] == "Roll" and info[1] == decorator_hook and (name is None or n.name == name):
                    return n
    raise Gap(f"no implementation of Roll.{decorator_hook}")


def extract_surface_z(tree):
    fn = _fn_def(tree, None, "surface_z")
    body = _body(fn)
    if len(body) == 1 and isinstance(body[0], ast.Return):
        k = _col_of(body[0].value, "self.contour_points")
        if k is not None:
            return k
    raise Gap("surface_z is not `return self.contour_points[:, k]`")


def extract_surface_y(tree):
    fn = _fn_def(tree, None, "surface_y")
    locals_ = {}
    tr = _GridTr(locals_)
    for st in _body(fn):
        if isinstance(st, ast.Assign) and len(st.targets) == 1 and isinstance(st.targets[0], ast.Name):
            tr.locals[st.targets[0].id] = tr.tr(st.value)
            continue
        if isinstance(st, ast.Return):
            e = tr.tr(st.value)
            vs = set(pyexpr.expr_vars(e))
            if "cz" in vs:
                raise Gap("surface_y depends on the contour abscissa")
            if not {"cy", "sx"} <= vs:
                raise Gap("surface_y does not combine contour ordinates with surface_x")
            if "cy" not in tr.axis0 or "sx" in tr.axis0:
                raise Gap("surface_y: axis 0 is not the contour vertex (reshape(-1, 1) of the contour term expected)")
            return e
        raise Gap(f"surface_y statement `{ast.unparse(st)[:60]}`")
    raise Gap("surface_y has no return")


def extract_surface_x(tree):
    """-> dict(guard, angle_set, angle_default, specs=[(start, stop, endpoint)], count, outer)"""
    fn = _fn_def(tree, None, "surface_x")
    body = _body(fn)
    if len(body) != 3:
        raise Gap("surface_x: expected angle assignment, points assignment, return")
    s0, s1, s2 = body
    if not (isinstance(s0, ast.Assign) and len(s0.targets) == 1 and isinstance(s0.targets[0], ast.Name)
            and isinstance(s0.value, ast.IfExp)):
        raise Gap("surface_x: first statement is not `<angle> = a if g else b`")
    aname = s0.targets[0].id
    guard = pyexpr.tr_guard(s0.value.test)
    if guard[0] == "opaque":
        raise Gap(f"surface_x guard `{guard[1]}`")
    tr = pyexpr.ExprTranslator("self", {}, ())
    a_set, a_def = tr.tr(s0.value.body), tr.tr(s0.value.orelse)
    if not (isinstance(s1, ast.Assign) and len(s1.targets) == 1 and isinstance(s1.targets[0], ast.Name)
            and _np_call(s1.value, "concatenate") and len(s1.value.args) == 1 and isinstance(s1.value.args[0], ast.List)):
        raise Gap("surface_x: second statement is not `points = np.concatenate([...])`")
    pname = s1.targets[0].id
    tr2 = pyexpr.ExprTranslator("self", {aname: ("var", "pca")}, ())
    specs, count = [], None
    for c in s1.value.args[0].elts:
        if not _np_call(c, "linspace") or len(c.args) != 3:
            raise Gap(f"surface_x: `{ast.unparse(c)}` is not a linspace")
        kws = {k.arg: k.value for k in c.keywords}
        if not set(kws) <= {"endpoint"}:
            raise Gap("surface_x: linspace keywords")
        endpoint = True
        if "endpoint" in kws:
            if not isinstance(kws["endpoint"], ast.Constant) or not isinstance(kws["endpoint"].value, bool):
                raise Gap("surface_x: endpoint")
            endpoint = kws["endpoint"].value
        cn = pyexpr.attr_path(c.args[2])
        if cn is None or cn[0] != "Config":
            raise Gap("surface_x: sample count")
        cn = ".".join(cn)
        if count not in (None, cn):
            raise Gap("surface_x: different sample counts")
        count = cn
        specs.append((tr2.tr(c.args[0]), tr2.tr(c.args[1]), endpoint))
    if not isinstance(s2, ast.Return):
        raise Gap("surface_x: no return")
    mirror = ast.parse(f"np.concatenate([-{pname}[::-1], {pname}[1:]])").body[0].value

    class _Outer(pyexpr.ExprTranslator):
        hits = 0

        def tr(self, n):
            if _dump(n) == _dump(mirror):
                _Outer.hits += 1
                return ("var", "t")
            return super().tr(n)
    outer = _Outer("self", {}, ()).tr(s2.value)
    if _Outer.hits != 1:
        raise Gap("surface_x: the argument is not `np.concatenate([-points[::-1], points[1:]])`")
    return dict(guard=guard, angle_set=a_set, angle_default=a_def, specs=specs, count=count, outer=outer)


INTERP = [
    None,       # `x = <conversion of x>`   (read into `interp_x_ops`, see `_arg_ops`)
    None,       # `z = <conversion of z>`   (read into `interp_z_ops`)
    "g = np.meshgrid(x, z)",
    "xz = np.column_stack([g[0].flat, g[1].flat])",
    "y = interpn((self.surface_x, self.surface_z), self.surface_y.T, xz)",
    "return y.reshape(z.size, x.size)",
]


def check_interpolation(tree):
    """-> (what happens to the position `x`, what happens to the position `z`) before they reach `np.meshgrid` / `interpn`
    (`ArgOp` names, execution order); the rest of the body is compared statement by statement: `np.meshgrid(x, z)` + the
    column stack = one query point per (z, x) pair, z-major; `interpn` on the axes `(surface_x, surface_z)` with `surface_y.T`;
    the result reshaped to one ROW per z, one column per x"""
    fn = _method(_cls(tree, "Roll"), "surface_interpolation")
    if [a.arg for a in fn.args.args] != ["self", "x", "z"] or fn.args.vararg or fn.args.kwarg or fn.args.kwonlyargs \
            or fn.decorator_list:
        raise Gap("surface_interpolation is not a plain method of `x`, `z`")
    body = _body(fn)
    if len(body) != len(INTERP):
        raise Gap("surface_interpolation: statement count")
    ops = {}
    for st, var in zip(body[:2], ("x", "z")):
        if not (isinstance(st, ast.Assign) and len(st.targets) == 1 and isinstance(st.targets[0], ast.Name)
                and st.targets[0].id == var):
            raise Gap(f"surface_interpolation: expected `{var} = <conversion of {var}>`, found `{ast.unparse(st)[:80]}`")
        try:
            ops[var] = _arg_ops(st.value, var)
        except Gap as ex:
            raise Gap(f"surface_interpolation: {ex}")
    for st, src in zip(body[2:], INTERP[2:]):
        if not _same(st, src):
            raise Gap(f"surface_interpolation: expected `{src}`, found `{ast.unparse(st)[:80]}`")
    imp = [n for n in tree.body if isinstance(n, ast.ImportFrom) and n.module == "scipy.interpolate"
           and any(a.name == "interpn" and a.asname is None for a in n.names)]
    if not imp:
        raise Gap("interpn is not scipy.interpolate.interpn")
    return ops["x"], ops["z"]


# ----------------------------------------------------------------------------------------------------------------
# what a Roll object remembers between two calls (private instance attributes outside the hook cache, module-level state)
# ----------------------------------------------------------------------------------------------------------------
def _is_docstring(st):
    return isinstance(st, ast.Expr) and isinstance(st.value, ast.Constant) and isinstance(st.value.value, str)


def _private_self_names(node):
    """every `self._x` mentioned anywhere below `node` (attribute reads, writes, method calls), dunder names excluded"""
    out = []
    for n in ast.walk(node):
        a = _self_attr(n) if isinstance(n, ast.Attribute) else None
        if a is not None and a.startswith("_") and not (a.startswith("__") and a.endswith("__")):
            out.append(a)
    return out


def _self_none_assign(st):
    """`self._x = None` -> "_x" """
    if isinstance(st, ast.Assign) and len(st.targets) == 1 and isinstance(st.value, ast.Constant) and st.value.value is None:
        a = _self_attr(st.targets[0])
        if a is not None and a.startswith("_"):
            return a
    return None


def extract_roll_state(rtree, htree):
    """-> dict(private, resets, resets_before, resets_after, reset_order, empties_first, memo_fields, methods, hook_reads),
    list of gaps.

    roll.py: the module holds nothing but imports, `__all__` and the class; `Roll.__init__` creates private attributes only as
    `self._x = None`; `Roll.reevaluate_cache` is ONE `super().reevaluate_cache()` and `self._x = None` statements before and / or after
    it (which attribute is emptied before, which after the hook values are re-evaluated is recorded: `resets_before`,
    `resets_after`, `reset_order` = before / after / both / none); every other method / property either mentions no `self._…` at all (pure) or has the memo shape
    `if self._f: return self._f` / `self._f = <expr without self._…>` / `return self._f`; decorators other than `property`,
    `global` / `nonlocal`, assignments to other attributes of `self` are outside the subset.
    hookimpls.py: the module holds nothing but imports and functions registered on hooks of `Roll`; none of them mentions a
    private attribute; which of them read a method / property of the class is recorded."""
    gaps = []
    for st in rtree.body:
        ok = isinstance(st, (ast.Import, ast.ImportFrom)) or _is_docstring(st) \
            or (isinstance(st, ast.ClassDef) and st.name == "Roll") \
            or (isinstance(st, ast.Assign) and len(st.targets) == 1 and isinstance(st.targets[0], ast.Name)
                and st.targets[0].id == "__all__")
        if not ok:
            gaps.append(f"{RR}: module-level statement outside the subset (state outside the object?): "
                        f"`{ast.unparse(st)[:60]}`")
    cls = _cls(rtree, "Roll")
    methods_ast = {}
    for st in cls.body:
        if isinstance(st, ast.FunctionDef):
            for d in st.decorator_list:
                if not (isinstance(d, ast.Name) and d.id == "property"):
                    gaps.append(f"{RR}: Roll.{st.name}: decorator `{ast.unparse(d)[:40]}`")
            methods_ast[st.name] = st
        elif _is_docstring(st):
            continue
        elif isinstance(st, (ast.Assign, ast.AnnAssign)) and isinstance(st.value, ast.Call) \
                and isinstance(st.value.func, ast.Subscript) and isinstance(st.value.func.value, ast.Name) \
                and st.value.func.value.id == "Hook" and not st.value.args and not st.value.keywords:
            continue
        else:
            gaps.append(f"{RR}: class-level statement outside the subset: `{ast.unparse(st)[:60]}`")
    for fn in methods_ast.values():
        for n in ast.walk(fn):
            if isinstance(n, (ast.Global, ast.Nonlocal)):
                gaps.append(f"{RR}: Roll.{fn.name}: `{ast.unparse(n)}`")
    # __init__
    private = []
    init = methods_ast.pop("__init__", None)
    if init is None:
        gaps.append(f"{RR}: Roll.__init__ not found")
    else:
        for st in _body(init):
            a = _self_none_assign(st)
            if a is not None:
                private.append(a)
            elif _same(st, "self.__dict__.update(kwargs)") or _same(st, "super().__init__()") or _same(st, "self.groove = groove"):
                continue
            else:
                gaps.append(f"{RR}: Roll.__init__: statement outside the subset: `{ast.unparse(st)[:60]}`")
    # reevaluate_cache: `self._x = None` statements around ONE `super().reevaluate_cache()`; which of them stand before it
    # (the hook functions then find nothing remembered when the cached hook values are re-evaluated) and which after it (what
    # was remembered meanwhile is dropped again) is recorded - one attribute may be in both lists
    resets_before, resets_after = [], []
    rc = methods_ast.pop("reevaluate_cache", None)
    if rc is None:
        gaps.append(f"{RR}: Roll.reevaluate_cache not found")
    else:
        body = _body(rc)
        sup = [i for i, st in enumerate(body) if _same(st, "super().reevaluate_cache()")]
        if len(sup) != 1:
            gaps.append(f"{RR}: Roll.reevaluate_cache: `super().reevaluate_cache()` must occur exactly once")
        for i, st in enumerate(body):
            a = _self_none_assign(st)
            if a is not None:
                if len(sup) == 1:
                    dst = resets_before if i < sup[0] else resets_after
                    if a not in dst:
                        dst.append(a)
            elif i not in sup:
                gaps.append(f"{RR}: Roll.reevaluate_cache: statement outside the subset: `{ast.unparse(st)[:60]}`")
    resets = resets_before + [a for a in resets_after if a not in resets_before]
    order = ("both" if resets_before and resets_after else "before" if resets_before else "after" if resets_after else "none")
    # the other methods / properties
    methods, memo_fields = [], {}
    for name, fn in methods_ast.items():
        if name.startswith("__") and name.endswith("__"):
            gaps.append(f"{RR}: Roll.{name}: special method outside the subset")
            continue
        body = _body(fn)
        priv = _private_self_names(fn)
        writes = [sub for n in ast.walk(fn) if isinstance(n, (ast.Assign, ast.AugAssign, ast.AnnAssign))
                  for tgt in (n.targets if isinstance(n, ast.Assign) else [n.target])
                  for sub in ast.walk(tgt) if isinstance(sub, ast.Attribute) and _self_attr(sub) is not None]
        if not priv:
            if writes:
                gaps.append(f"{RR}: Roll.{name} assigns to an attribute of the roll")
            else:
                methods.append((name, ("pure",)))
            continue
        f = None
        if len(body) == 3 and isinstance(body[0], ast.If) and not body[0].orelse and len(body[0].body) == 1 \
                and isinstance(body[0].body[0], ast.Return) and isinstance(body[1], ast.Assign) and len(body[1].targets) == 1 \
                and isinstance(body[2], ast.Return):
            f = _self_attr(body[1].targets[0])
            same = f is not None and f.startswith("_") and _self_attr(body[0].test) == f \
                and _self_attr(body[0].body[0].value) == f and _self_attr(body[2].value) == f \
                and not _private_self_names(body[1].value)
            if not same:
                f = None
        if f is None:
            gaps.append(f"{RR}: Roll.{name} uses private attributes {sorted(set(priv))} outside the memo shape")
            continue
        reads = sorted({_self_attr(n) for n in ast.walk(body[1].value) if isinstance(n, ast.Attribute)
                        and _self_attr(n) is not None})
        dep = "shape" if reads and set(reads) <= {"contour_points"} else "all"
        if memo_fields.get(f, dep) != dep:
            gaps.append(f"{RR}: private attribute {f} is filled from different data by different methods")
            continue
        memo_fields[f] = dep
        methods.append((name, ("memo", f)))
    # hook functions of the roll
    names = {m for m, _ in methods}
    hook_reads = []
    for st in htree.body:
        if isinstance(st, (ast.Import, ast.ImportFrom)) or _is_docstring(st):
            continue
        hook = None
        if isinstance(st, ast.FunctionDef) and len(st.decorator_list) == 1:
            info = pyexpr._decorator_info(st.decorator_list[0])
            if info and info[0] == "Roll":
                hook = info[1]
        if hook is None:
            gaps.append(f"{RH}: module-level statement outside the subset (state outside the object?): "
                        f"`{ast.unparse(st)[:60]}`")
            continue
        if _private_self_names(st) or any(isinstance(n, (ast.Global, ast.Nonlocal)) for n in ast.walk(st)):
            gaps.append(f"{RH}: hook function {st.name} uses private attributes of the roll / global names")
        for n in ast.walk(st):
            a = _self_attr(n) if isinstance(n, ast.Attribute) else None
            if a in names and (hook, a) not in hook_reads:
                hook_reads.append((hook, a))
    # is everything a remembering method keeps emptied BEFORE the hook values are re-evaluated (`RollTables.emptiesFirst`)?
    empties_first = all(k[1] in resets_before for _, k in methods if k[0] == "memo")
    return dict(private=private, resets=resets, resets_before=resets_before, resets_after=resets_after, reset_order=order,
                empties_first=empties_first, memo_fields=sorted(memo_fields.items()), methods=methods,
                hook_reads=hook_reads), gaps


def lean_roll_tables(rs):
    def q(x):
        return '"' + x + '"'
    return ("{ privateFields := [" + ", ".join(q(f) for f in rs["private"]) + "],\n    resetsBefore := ["
            + ", ".join(q(f) for f in rs["resets_before"]) + "],\n    resetsAfter := ["
            + ", ".join(q(f) for f in rs["resets_after"]) + "],\n    memoFields := ["
            + ", ".join(f"({q(f)}, .{d})" for f, d in rs["memo_fields"]) + "],\n    methods := ["
            + ", ".join(f"({q(m)}, " + (".pure" if k[0] == "pure" else f".memo {q(k[1])}") + ")" for m, k in rs["methods"])
            + "],\n    hookReads := [" + ", ".join(f"({q(h)}, {q(m)})" for h, m in rs["hook_reads"]) + "] }")


# ----------------------------------------------------------------------------------------------------------------
# spline groove
# ----------------------------------------------------------------------------------------------------------------
class _LTr:
    """terms over the columns of the local array `contour_points`"""

    def __init__(self, locals_=None):
        self.locals = dict(locals_ or {})

    def tr(self, n):
        if isinstance(n, ast.Constant) and isinstance(n.value, int) and not isinstance(n.value, bool) and n.value >= 0:
            return ("nat", n.value)
        if isinstance(n, ast.Constant) and isinstance(n.value, float) and n.value > 0 and n.value != float("inf"):
            c = pyexpr.const(n.value)             # ("dec", m, e) = m * 10^-e, or ("nat", m)
            return c if c[0] in ("dec", "nat") else self._gap(n)
        if _np_call(n, "ptp") and len(n.args) == 1 and not n.keywords:
            k = _col_of(n.args[0], "contour_points")
            if k in (0, 1):
                return ("sub", ("colMax", k), ("colMin", k))          # np.ptp = max - min
        if (_np_call(n, "max") or _np_call(n, "amax")) and len(n.args) == 1 and not n.keywords \
                and _same(n.args[0], "np.ptp(contour_points, axis=0)"):
            # the larger of the two column extents of the (n, 2) array
            return ("max", ("sub", ("colMax", 0), ("colMin", 0)), ("sub", ("colMax", 1), ("colMin", 1)))
        if isinstance(n, ast.BinOp):
            ops = {ast.Add: "add", ast.Sub: "sub", ast.Mult: "mul", ast.Div: "div"}
            if type(n.op) in ops:
                return (ops[type(n.op)], self.tr(n.left), self.tr(n.right))
        if isinstance(n, ast.Name) and n.id in self.locals:
            return self.locals[n.id]
        for fname, tag in (("mean", "colMean"), ("min", "colMin"), ("max", "colMax"), ("amin", "colMin"),
                           ("amax", "colMax")):
            if _np_call(n, fname) and len(n.args) == 1 and not n.keywords:
                k = _col_of(n.args[0], "contour_points")
                if k in (0, 1):
                    return (tag, k)
        if isinstance(n, ast.Subscript) and ast.unparse(n.value) == "contour_points" and isinstance(n.slice, ast.Tuple) \
                and len(n.slice.elts) == 2:
            i, k = (ast.unparse(e) for e in n.slice.elts)
            if k in ("0", "1") and i in ("0", "-1"):
                return ("first" if i == "0" else "last", int(k))
        return self._gap(n)

    def _gap(self, n):
        raise Gap(f"spline term `{ast.unparse(n)[:60]}`")


def lean_lterm(e):
    k = e[0]
    if k in ("colMean", "colMin", "colMax", "first", "last", "nat"):
        return f"(.{k} {e[1]})"
    if k == "dec":
        return f"(.dec {e[1]} {e[2]})"
    return f"(.{k} {lean_lterm(e[1])} {lean_lterm(e[2])})"


def lean_face(ft):
    """face test ("isclose",) | ("within", lterm) -> Lean `FaceTest`"""
    return ".isclose" if ft[0] == "isclose" else f"(.within {lean_lterm(ft[1])})"


# The face test `F(y)` ("does the ordinate y lie on the face line y = 0?") occurs in three statements; the translator reads
# WHICH test it is (`FaceTest` of the model) and requires all of them to use the same one:
#   np.isclose(<y>, 0)                              -> ("isclose",)          numpy's defaults, absolute 1e-8
#   np.abs(<y>) <= <tolerance term>                 -> ("within", <LTerm>)   tolerance = a term over the array as given
#   <mask>[...]  with  <mask> = F(contour_points[:, 1]) assigned before   -> the test of the mask
STRIP2_SLICE = "if inner.size:\n    contour_points = contour_points[inner[0] - 1:inner[-1] + 2]"
ENDS_RAISE = "raise ValueError('first and last element of contour_points should have y coordinate equal to 0')"
# statements that give the local name an array of its own (ownership of the vertex array, `ArrOp.copy`)
COPIES = ["contour_points = contour_points.copy()", "contour_points = np.copy(contour_points)",
          "contour_points = np.array(contour_points)"]
INTERP1D = ("self._local_depth = scipy.interpolate.interp1d(contour_points[:, 0], contour_points[:, 1], "
            "fill_value='extrapolate')")


class _Face:
    """recognises the face test applied to one selection of the ordinates: "0" / "-1" (one vertex), ":" (the column),
    "roll1" / "roll-1" (the column rolled by one).  `masks`: local name -> face test of a boolean array over the column"""

    SEL = {"contour_points[0, 1]": "0", "contour_points[-1, 1]": "-1", "contour_points[:, 1]": ":",
           "np.roll(contour_points[:, 1], 1)": "roll1", "np.roll(contour_points[:, 1], -1)": "roll-1"}

    def __init__(self, tr):
        self.tr = tr
        self.masks = {}
        self.used = set()

    def _sel(self, n):
        for src, sel in self.SEL.items():
            if _same(n, src):
                return sel
        return None

    def test(self, n):
        """-> (face test, selection) or None"""
        if isinstance(n, ast.Expr):
            n = n.value
        if _np_call(n, "isclose") and len(n.args) == 2 and not n.keywords and _same(n.args[1], "0"):
            sel = self._sel(n.args[0])
            return (("isclose",), sel) if sel else None
        if isinstance(n, ast.Compare) and len(n.ops) == 1 and isinstance(n.ops[0], ast.LtE) \
                and _np_call(n.left, "abs") and len(n.left.args) == 1 and not n.left.keywords:
            sel = self._sel(n.left.args[0])
            if sel:
                return ("within", self.tr.tr(n.comparators[0])), sel
            return None
        if isinstance(n, ast.Name) and n.id in self.masks:
            self.used.add(n.id)
            return self.masks[n.id], ":"
        if isinstance(n, ast.Subscript) and isinstance(n.value, ast.Name) and n.value.id in self.masks \
                and ast.unparse(n.slice) in ("0", "-1"):
            self.used.add(n.value.id)
            return self.masks[n.value.id], ast.unparse(n.slice)
        return None


def _not_of(n):
    return n.operand if isinstance(n, ast.UnaryOp) and isinstance(n.op, ast.Not) else None


def extract_spline(tree):
    """-> dict(centre, half_width, width, usable_default, depth) as LTerm tuples, `strip` kind, `face` = the face test
    (("isclose",) | ("within", LTerm over the array as given)), `array_ops` = what happens to the identity of the array
    behind the local name `contour_points`, in statement order (`ArrOp` of the model: asarray / view / select / copy /
    write / store); shape checks of the rest"""
    cls = _cls(tree, "SplineGroove")
    init = _method(cls, "__init__")
    body = _body(init)
    out = {}
    tr = _LTr()
    face = _Face(tr)
    faces = []               # every face test met (all must be the same one)
    tol_locals = set()
    seen = set()
    ops = []
    for st in body:
        if _same(st, "contour_points = np.asarray(contour_points, dtype='float64')"):
            if ops:
                raise Gap("spline: asarray is not the first statement on contour_points")
            seen.add("asarray")
            ops.append("asarray")
            continue
        if any(_same(st, c) for c in COPIES):
            if "asarray" not in seen:
                raise Gap("spline: copy before asarray")
            ops.append("copy")
            continue
        if isinstance(st, ast.If) and isinstance(st.test, ast.Compare) and "contour_points" in ast.unparse(st.test) \
                and ("ndim" in ast.unparse(st.test) or "shape" in ast.unparse(st.test)) \
                and len(st.body) == 1 and isinstance(st.body[0], ast.Raise):
            continue
        # --- locals of the face test: `<name> = <tolerance term>` and `<name> = F(contour_points[:, 1])`; they are computed
        #     from the array as given, i.e. before stripping / centring
        if isinstance(st, ast.Assign) and len(st.targets) == 1 and isinstance(st.targets[0], ast.Name) \
                and st.targets[0].id not in ("contour_points", "half_width", "inner") and "asarray" in seen \
                and "strip" not in seen and "inner" not in seen and "centre" not in out:
            name = st.targets[0].id
            ft = face.test(st.value)
            if ft is not None and ft[1] == ":":
                face.masks[name] = ft[0]
                continue
            if name not in tr.locals and name not in face.masks:
                tr.locals[name] = tr.tr(st.value)       # Gap if it is not a list term
                tol_locals.add(name)
                continue
        # --- validation of the end ordinates: `if not F(y[0]) or not F(y[-1]): raise ValueError(...)`
        if isinstance(st, ast.If) and isinstance(st.test, ast.BoolOp) and isinstance(st.test.op, ast.Or) \
                and len(st.test.values) == 2 and len(st.body) == 1 and isinstance(st.body[0], ast.Raise) and not st.orelse \
                and "strip" not in seen and "inner" not in seen and "ends" not in seen:
            a, b = (_not_of(v) for v in st.test.values)
            fa, fb = (face.test(a) if a is not None else None), (face.test(b) if b is not None else None)
            if fa and fb and fa[1] == "0" and fb[1] == "-1":
                if not (isinstance(st.body[0].exc, ast.Call) and ast.unparse(st.body[0].exc.func) == "ValueError"):
                    raise Gap("spline: the end-ordinate validation does not raise ValueError")
                faces += [fa[0], fb[0]]
                seen.add("ends")
                continue
        # --- legacy stripping: mask "both cyclic neighbours on the face line"
        if isinstance(st, ast.Assign) and len(st.targets) == 1 and ast.unparse(st.targets[0]) == "contour_points" and isinstance(st.value, ast.Subscript) \
                and _same(st.value.value, "contour_points") and _np_call(st.value.slice, "logical_not") \
                and len(st.value.slice.args) == 1 and isinstance(st.value.slice.args[0], ast.BinOp) \
                and isinstance(st.value.slice.args[0].op, ast.BitAnd):
            fa, fb = face.test(st.value.slice.args[0].left), face.test(st.value.slice.args[0].right)
            if not (fa and fb and fa[1] == "roll1" and fb[1] == "roll-1"):
                raise Gap(f"spline: statement `{ast.unparse(st)[:80]}`")
            if "centre" in out or "strip" in seen:
                raise Gap("spline: stripping after centring")
            faces += [fa[0], fb[0]]
            seen.add("strip")
            out["strip"] = "bothNeighbours"
            ops.append("select")
            continue
        # --- stripping of the face runs: `inner = np.flatnonzero(np.logical_not(F(y)))`, then the slice
        if isinstance(st, ast.Assign) and len(st.targets) == 1 and ast.unparse(st.targets[0]) == "inner" and _np_call(st.value, "flatnonzero") \
                and len(st.value.args) == 1 and not st.value.keywords and _np_call(st.value.args[0], "logical_not") \
                and len(st.value.args[0].args) == 1 and not st.value.args[0].keywords:
            fa = face.test(st.value.args[0].args[0])
            if not (fa and fa[1] == ":"):
                raise Gap(f"spline: statement `{ast.unparse(st)[:80]}`")
            if "centre" in out or "strip" in seen or "inner" in seen:
                raise Gap("spline: stripping order")
            faces.append(fa[0])
            seen.add("inner")
            continue
        if _dump(st) == _dump(ast.parse(STRIP2_SLICE).body[0]):
            if "centre" in out or "strip" in seen or "inner" not in seen:
                raise Gap("spline: stripping order")
            seen.add("strip")
            out["strip"] = "faceRuns"
            ops.append("view")
            continue
        if isinstance(st, ast.AugAssign) and isinstance(st.op, ast.Sub) and _col_of(st.target, "contour_points") == 0:
            if "centre" in out or "strip" not in seen:
                raise Gap("spline: centring order")
            out["centre"] = tr.tr(st.value)
            ops.append("write")
            continue
        if isinstance(st, ast.Assign) and len(st.targets) == 1:
            tg = ast.unparse(st.targets[0])
            if tg == "half_width":
                if "centre" not in out:
                    raise Gap("spline: half_width before centring")
                out["half_width"] = tr.tr(st.value)
                tr.locals["half_width"] = out["half_width"]
                continue
            if tg == "self._width":
                out["width"] = tr.tr(st.value)
                continue
            if tg == "self._depth":
                out["depth"] = tr.tr(st.value)
                continue
            if tg == "self._contour_points":
                if ast.unparse(st.value) != "contour_points" or "centre" not in out:
                    raise Gap("spline: _contour_points")
                seen.add("points")
                ops.append("store")
                continue
            if tg in ("self._contour_line", "self._cross_section", "self._classifiers"):
                continue
            if tg == "self._local_depth":
                if not _same(st, INTERP1D) or "centre" not in out:
                    raise Gap("spline: interp1d call")
                seen.add("interp1d")
                continue
        if isinstance(st, ast.If) and ast.unparse(st.test) == "usable_width" and len(st.body) == 1 and len(st.orelse) == 1 \
                and _same(st.body[0], "self._usable_width = usable_width") and isinstance(st.orelse[0], ast.Assign) \
                and ast.unparse(st.orelse[0].targets[0]) == "self._usable_width":
            out["usable_default"] = tr.tr(st.orelse[0].value)
            continue
        raise Gap(f"spline: statement `{ast.unparse(st)[:80]}`")
    for need in ("asarray", "ends", "strip", "points", "interp1d"):
        if need not in seen:
            raise Gap(f"spline: {need} step not found")
    for need in ("centre", "half_width", "width", "usable_default", "depth"):
        if need not in out:
            raise Gap(f"spline: {need} not found")
    ld = _method(cls, "local_depth")
    if not (len(_body(ld)) == 1 and _same(_body(ld)[0], "return self._local_depth(z)")):
        raise Gap("spline: local_depth")
    for prop, attr in (("usable_width", "_usable_width"), ("width", "_width"), ("depth", "_depth"),
                       ("contour_points", "_contour_points")):
        m = _method(cls, prop)
        if not (len(_body(m)) == 1 and _same(_body(m)[0], f"return self.{attr}")):
            raise Gap(f"spline: property {prop}")
    if any(f != faces[0] for f in faces):
        raise Gap("spline: the face tests of the end-ordinate validation and of the boundary stripping differ: "
                  + " / ".join(sorted({lean_face(f) for f in faces})))
    for name in sorted(set(face.masks) - face.used):
        raise Gap(f"spline: face mask `{name}` is not what the validation / stripping read")
    out["face"] = faces[0]
    used_locals = set()
    if faces[0][0] == "within":
        # which tolerance locals the face test reads (a local that is bound but never read is no part of the model)
        used_locals = {n.id for st in body for n in ast.walk(st) if isinstance(n, ast.Name) and isinstance(n.ctx, ast.Load)}
    for name in sorted(tol_locals - used_locals):
        raise Gap(f"spline: local `{name}` is bound but not read")
    out["array_ops"] = ops
    return out


# ----------------------------------------------------------------------------------------------------------------
# emission
# ----------------------------------------------------------------------------------------------------------------
PLACEHOLDER = '(.var "<untranslatable>")'


def emit(ctx, reset_first_required=False, depth_float_required=False):
    """writes Gen/C10.lean; returns a dict with everything extracted (used by the harness for the correspondence).
    `reset_first_required` (driver/props/c10.py `RESET_FIRST_REQUIRED`): `Roll.reevaluate_cache` must empty what the roll
    remembers BEFORE the hook values are re-evaluated - any other statement order is a gap then."""
    info = {"gaps": []}

    def gap(what):
        info["gaps"].append(what)
        ctx.tie_breaks.append("translator: " + what)

    L = ["import PyrollModel.GrooveRep", "import PyrollModel.RollObject",
         "/- GENERATED by driver/translate/c10_depth.py from the working tree on every run - do not edit. -/",
         "namespace Gen.C10", "open GrooveRep RollObject", ""]
    le = pyexpr.lean_expr

    # --- generic elongation groove -------------------------------------------------------------------------
    chain, cgaps = groove.extract_chain(_repo())
    for g in cgaps:
        gap(f"{GE}: chain entry outside the subset: {g}")
    names = [n for n, _ in chain]
    info["chain"] = chain
    L.append(f"/-! junction chain of `GenericElongationGroove.__init__` ({GE}) -/")
    for n, e in chain:
        L.append(f"def {n} : Expr := {le(e)}")
    L.append("def chain : List (String × Expr) := [" + ", ".join(f'("{n}", {n})' for n in names) + "]")
    L.append("")
    getree = _parse(GE)
    try:
        gcls = _cls(getree, "GenericElongationGroove")
    except Gap as ex:
        gap(f"{GE}: {ex}")
        gcls = ast.ClassDef(name="GenericElongationGroove", body=[], decorator_list=[], bases=[], keywords=[])
    fns, fgaps = extract_contour_fns(gcls, names)
    for g in fgaps:
        gap(f"{GE}: {g}")
    info["fns"] = fns
    L.append("/-! the contour-line methods, over the variable `z` -/")
    for k in sorted(fns):
        L.append(f"def fn{k} : Expr := {le(fns[k])}")
    L.append("def fns : List (String × Expr) := [" + ", ".join(f'("{k}", fn{k})' for k in sorted(fns)) + "]")
    L.append("")

    def ref(n):
        n2 = n.lstrip("_")
        if n2 in names:
            return n2
        gap(f"{GE}: self.{n} is not a junction of the chain")
        return PLACEHOLDER

    def fref(n):
        if n in fns:
            return "fn" + n
        gap(f"{GE}: self.{n} is not a translated contour-line method")
        return PLACEHOLDER

    try:
        arg_ops, pieces, dflt = extract_local_depth(gcls)
    except Gap as ex:
        gap(f"{GE}: local_depth: {ex}")
        arg_ops, pieces, dflt = [], [], None
    use_abs = "abs" in arg_ops
    if depth_float_required and "asFloat" not in arg_ops:
        gap(f"{GE}: local_depth hands its argument to np.piecewise without converting it to float64 (np.piecewise takes the "
            f"dtype of its result from that argument; conversions read: {arg_ops}; required: DEPTH_FLOAT_REQUIRED)")
    info["local_depth"] = (use_abs, pieces, dflt)
    info["depth_arg_ops"] = arg_ops
    L.append("/-! `local_depth`: what happens to the argument before `np.piecewise` (in execution order), the `np.piecewise` table -/")
    L.append("def depth_arg_ops : List ArgOp := [" + ", ".join("." + o for o in arg_ops) + "]")
    L.append("/-- driver/props/c10.py `DEPTH_FLOAT_REQUIRED`: must `local_depth` convert its argument to float64? -/")
    L.append(f"def depth_float_required : Bool := {'true' if depth_float_required else 'false'}")
    L.append(f"def depth_abs : Bool := {'true' if use_abs else 'false'}")
    L.append("def pieces : List Piece := [" + ",\n    ".join(
        "⟨%s, %s, %s⟩" % ("none" if lo is None else f"some {ref(lo)}", ref(hi), fref(f)) for lo, hi, f in pieces) + "]")
    L.append(f"def depth_default : Expr := {fref(dflt) if dflt else PLACEHOLDER}")
    L.append("")
    try:
        segs, count = extract_enumerate(gcls)
    except Gap as ex:
        gap(f"{GE}: _enumerate_contour_points: {ex}")
        segs, count = [], None
    info["segments"], info["arc_count"] = segs, count
    items = []
    for s in segs:
        if s[0] == "pt":
            items.append(f".pt {ref(s[1])} {ref(s[2])}")
        elif s[0] == "ptIf":
            items.append(f".ptIf {ref(s[1])} {ref(s[2])} {ref(s[3])} {ref(s[4])}")
        else:
            items.append(f".arc {ref(s[1])} {ref(s[2])} {ref(s[3])} {ref(s[4])} {fref(s[5])}")
    L.append("/-! `_enumerate_contour_points`: what is sampled between which junctions -/")
    L.append("def segments : List Seg := [" + ",\n    ".join(items) + "]")
    L.append(f'def arc_count_name : String := "{count or ""}"')
    try:
        check_assembly(_method(gcls, "__init__"))
        L.append("def assembly_ok : Bool := true")
    except Gap as ex:
        gap(f"{GE}: {ex}")
        L.append("def assembly_ok : Bool := false")
    L.append("")

    # --- roll ---------------------------------------------------------------------------------------------------
    L.append(f"/-! roll ({RH}, {RR}) -/")
    idx = {}
    for impl in pyexpr.extract_hookimpls(os.path.join(_repo(), RH), module_name=RH):
        idx.setdefault(impl.hook, []).append(impl)
    for hook, lname in (("contour_points", "roll_contour_points"), ("min_radius", "roll_min_radius"),
                        ("max_radius", "roll_max_radius")):
        impls = idx.get(hook, [])
        if len(impls) != 1 or impls[0].gap or len(impls[0].alts) != 1 or impls[0].alts[0][2] != "expr" \
                or impls[0].alts[0][0] != ("tt",):
            gap(f"{RH}: Roll.{hook} is not one unguarded closed formula")
            L.append(f"def {lname} : Expr := {PLACEHOLDER}")
        else:
            info[lname] = impls[0].alts[0][1]
            L.append(f"def {lname} : Expr := {le(impls[0].alts[0][1])}")
    rtree = _parse(RH)
    try:
        k = extract_surface_z(rtree)
        info["surface_z_col"] = k
        L.append(f"def surface_z_col : Nat := {k}")
    except Gap as ex:
        gap(f"{RH}: {ex}")
        L.append("def surface_z_col : Nat := 99")
    try:
        sy = extract_surface_y(rtree)
        info["surface_y"] = sy
        L.append(f"def surface_y : Expr := {le(sy)}")
    except (Gap, pyexpr.Untranslatable) as ex:
        gap(f"{RH}: surface_y: {ex}")
        L.append(f"def surface_y : Expr := {PLACEHOLDER}")
    try:
        sx = extract_surface_x(rtree)
        info["surface_x"] = sx
        L.append(f"def surface_x_guard : Guard := {pyexpr.lean_guard(sx['guard'])}")
        L.append(f"def surface_x_angle_set : Expr := {le(sx['angle_set'])}")
        L.append(f"def surface_x_angle_default : Expr := {le(sx['angle_default'])}")
        L.append("def surface_x_specs : List LinSpec := [" + ", ".join(
            "⟨%s, %s, %s⟩" % (le(a), le(b), "true" if ep else "false") for a, b, ep in sx["specs"]) + "]")
        L.append(f"def surface_x_outer : Expr := {le(sx['outer'])}")
        L.append(f'def surface_x_count_name : String := "{sx["count"]}"')
    except (Gap, pyexpr.Untranslatable) as ex:
        gap(f"{RH}: surface_x: {ex}")
        L.append("def surface_x_guard : Guard := .opaque \"untranslatable\"")
        L.append(f"def surface_x_angle_set : Expr := {PLACEHOLDER}")
        L.append(f"def surface_x_angle_default : Expr := {PLACEHOLDER}")
        L.append("def surface_x_specs : List LinSpec := []")
        L.append(f"def surface_x_outer : Expr := {PLACEHOLDER}")
        L.append('def surface_x_count_name : String := ""')
    try:
        ox, oz = check_interpolation(_parse(RR))
        L.append("/-- `interpn((surface_x, surface_z), surface_y.T, ...)`: first axis = grid abscissa -/")
        L.append("def interp_grid_transposed : Bool := true")
        info["interp_ok"] = True
    except Gap as ex:
        gap(f"{RR}: {ex}")
        ox, oz = [], []
        L.append("def interp_grid_transposed : Bool := false")
    info["interp_arg_ops"] = (ox, oz)
    L.append("/-- what `surface_interpolation(x, z)` does to the two positions before `np.meshgrid` / `interpn` (execution order); "
             "the result has one row per `z`, one column per `x` (`y.reshape(z.size, x.size)` of the z-major query list) -/")
    L.append("def interp_x_ops : List ArgOp := [" + ", ".join("." + o for o in ox) + "]")
    L.append("def interp_z_ops : List ArgOp := [" + ", ".join("." + o for o in oz) + "]")
    L.append("/-- what a `Roll` keeps on the object between two calls besides the hook cache: private attributes of `__init__`, "
             "the ones `reevaluate_cache` empties before resp. after the hook values are re-evaluated (`super().reevaluate_cache()`), "
             "which methods remember their result where, which hook functions read such a method -/")
    try:
        rs, rgaps = extract_roll_state(_parse(RR), rtree)
    except Gap as ex:
        rs, rgaps = dict(private=[], resets=[], resets_before=[], resets_after=[], reset_order=None, empties_first=None,
                         memo_fields=[], methods=[], hook_reads=[]), [f"{RR}: {ex}"]
    if reset_first_required and not rs["empties_first"]:
        rgaps.append(f"{RR}: Roll.reevaluate_cache does not empty everything the roll remembers before the hook values are "
                     f"re-evaluated (statement order read: {rs['reset_order']}; required: RESET_FIRST_REQUIRED)")
    for g in rgaps:
        gap(g)
    info["roll_state"] = rs
    L.append("def roll_tables : RollTables :=\n  " + lean_roll_tables(rs))
    L.append(f"def roll_state_ok : Bool := {'false' if rgaps else 'true'}")
    L.append("/-- driver/props/c10.py `RESET_FIRST_REQUIRED`: must `Roll.reevaluate_cache` empty what the roll remembers before "
             "the hook values are re-evaluated? -/")
    L.append(f"def roll_reset_first_required : Bool := {'true' if reset_first_required else 'false'}")
    L.append("")
    L.append(f"/-! entry point ({SY}) -/")
    ep = [i for i in pyexpr.extract_hookimpls(os.path.join(_repo(), SY), module_name=SY) if i.hook == "entry_point"]
    if len(ep) != 1 or ep[0].gap or len(ep[0].alts) != 1 or ep[0].alts[0][2] != "expr":
        gap(f"{SY}: SymmetricRollPass.entry_point is not one closed formula")
        L.append(f"def entry_point : Expr := {PLACEHOLDER}")
    else:
        info["entry_point"] = ep[0].alts[0][1]
        L.append(f"def entry_point : Expr := {le(ep[0].alts[0][1])}")
    L.append("")

    # --- spline -------------------------------------------------------------------------------------------------
    L.append(f"/-! spline groove ({SP}) -/")
    try:
        sp = extract_spline(_parse(SP))
        info["spline"] = sp
        for k in ("centre", "half_width", "width", "usable_default", "depth"):
            L.append(f"def spline_{k} : LTerm := {lean_lterm(sp[k])}")
        L.append(f"def spline_strip : StripKind := .{sp['strip']}")
        L.append("/-- how `SplineGroove.__init__` decides that an ordinate lies on the face line (one test for the validation of the "
                 "end ordinates and for the boundary stripping; a tolerance term is evaluated on the array as given) -/")
        L.append(f"def spline_face : FaceTest := {lean_face(sp['face'])}")
        L.append("/-- what happens to the array behind the local name `contour_points`, in statement order -/")
        L.append("def spline_array_ops : List ArrOp := [" + ", ".join("." + o for o in sp["array_ops"]) + "]")
        L.append("def spline_shape_ok : Bool := true")
    except Gap as ex:
        gap(f"{SP}: {ex}")
        for k in ("centre", "half_width", "width", "usable_default", "depth"):
            L.append(f"def spline_{k} : LTerm := (.nat 0)")
        L.append("def spline_strip : StripKind := .bothNeighbours")
        L.append("def spline_face : FaceTest := .isclose")
        L.append("def spline_array_ops : List ArrOp := []")
        L.append("def spline_shape_ok : Bool := false")
    L.append("")
    L.append("/-- closed formulas by name (for the Float evaluation driver) -/")
    L.append("def table : List (String × Expr) := chain ++ fns ++ [(\"roll_min_radius\", roll_min_radius), "
             "(\"roll_max_radius\", roll_max_radius), (\"surface_y\", surface_y), "
             "(\"surface_x_angle_set\", surface_x_angle_set), (\"surface_x_angle_default\", surface_x_angle_default), "
             "(\"surface_x_outer\", surface_x_outer), (\"entry_point\", entry_point)]")
    L.append("")
    L.append("end Gen.C10")
    text = "\n".join(L) + "\n"
    changed = pyexpr.write_if_changed(os.path.join(LEAN_DIR, "PyrollModel", "Gen", "C10.lean"), text)
    ctx.notes.setdefault("generated", {})["Gen/C10.lean"] = {"chain": len(chain), "pieces": len(pieces),
                                                              "segments": len(segs), "rewritten": changed}
    return info
