"""(T) extractor for the groove solver module and the solver-backed groove constructors (property C04).

A small symbolic executor over a whitelisted python subset.  A function is executed once per *None-pattern* of its
optional parameters (which of them are `None`); every other parameter is a free variable.  The result of one
execution is an `Outcome`:

    kind == "raise"   exception class name
    kind == "return"  {key: Expr}  (the `dict(...)` the solver returns, or the keyword arguments of the
                      `super().__init__(...)` / `GenericElongationGroove.__init__(self, ...)` call of a constructor)
    oracles           the numeric root finders met on the way, each with the *inlined* residual:
                        root_scalar(f, bracket=(a, b)).root -> variable "root",    residual [Expr] over "_x0"
                        root(f, x0)  ... sol.x[i]           -> variables "root<i>", residual vector over "_x<i>"
                                                               (a list of (guard, [Expr]) when `f` branches)
                        fixed_point(f, start)               -> variable "fp",      map [Expr] over "_x0"
                      Their contract (DESIGN.md section 3): the returned value is a root of the residual (inside the
                      bracket for root_scalar; a fixed point of the map for fixed_point) or the call raises.

Whitelisted statements: `def` (closures, inlined at the call with *late binding* like python), assignments to plain
names, attribute stores `self.<name> = <value>` of a constructor (recorded in `Outcome.stores`: the values the object keeps
beyond what it hands to the base constructor - translated further by `c04_stored.py`; execution continues after the base
constructor call, and `self.<name>` may be read back once stored / handed to the base constructor), `if` on None-ness / truthiness of parameters (decided by the pattern), `if not sol.success: raise` (part of
the oracle contract), `if a > b` on translated expressions inside a residual (-> guarded alternatives), `raise`,
`return dict(...)`, `return <expr>`, `return np.array([...])`, docstrings.  Whitelisted expressions: those of
`pyexpr.ExprTranslator`, calls of local closures, constant subscripts of vector parameters.  Values outside the
subset become `Opaque`; an opaque value may only flow into a root-finder *bracket* or *start value* (recorded as
text).  Anything else raises `Untranslatable`, which `emit` turns into `ctx.tie_breaks` entries.
"""
import ast
import itertools
import os

from . import pyexpr
from .pyexpr import Untranslatable
from ..core import LEAN_DIR, REPO

GROOVES = os.path.join("pyroll", "core", "grooves")


class Opaque:
    def __init__(self, src):
        self.src = src

    def __repr__(self):
        return f"Opaque({self.src!r})"


class Closure:
    def __init__(self, node, defaults=()):
        self.node = node
        self.defaults = list(defaults)      # values of the default expressions, evaluated where the `def` stands


class Helper(Closure):
    """a plain module-level function (no decorator): called by value, its body sees the module's names only"""

    def __init__(self, node, defaults, module_env):
        super().__init__(node, defaults)
        self.module_env = module_env


class Vec(list):
    """a python-level vector of Expr (np.array([...]) / the vector argument of a residual)"""


class SolObj:
    """the object returned by scipy.optimize.root"""

    def __init__(self, n):
        self.n = n


class SolverDict(dict):
    """the dict returned by a solver call inside a constructor: key -> ("var", "sol.<key>")"""


class Cases(list):
    """[(guard, value)] - a residual that branches on a comparison of expressions"""


class Outcome:
    def __init__(self, kind, value=None, oracles=None, calls=None, notes=None):
        self.kind = kind            # "raise" | "return"
        self.value = value          # exception name | {key: Expr}
        self.oracles = oracles or []
        self.calls = calls or []    # solver calls met in a constructor: (solver name, {param: Expr|None})
        self.notes = notes or []
        self.stores = {}            # constructor: {attribute: Expr | None | Opaque | ...} stored with `self.<attribute> = ...`

    def signature(self):
        return (self.kind, repr(self.value), repr([(o["kind"], o["residual"]) for o in self.oracles]))


class _Return(Exception):
    def __init__(self, value):
        self.value = value


class _Raise(Exception):
    def __init__(self, name):
        self.name = name


class Exec(pyexpr.ExprTranslator):
    def __init__(self, env, solver_keys=None):
        super().__init__("self", {}, ())
        self.env = env
        self.oracles = []
        self.calls = []
        self.notes = []
        self.solver_keys = solver_keys or {}
        self.depth = 0
        self.stores = {}            # constructor: attribute name -> value stored on the object (`self._tip_angle = ...`)
        self.init_value = None      # constructor: keyword arguments of the base constructor call, once it has been met

    # ---- expressions ----------------------------------------------------------------------------------
    def tr(self, n):
        if isinstance(n, ast.Name):
            if n.id not in self.env:
                raise Untranslatable(f"name {n.id}")
            v = self.env[n.id]
            if v is None:
                raise Untranslatable(f"{n.id} is None in an arithmetic expression")
            if isinstance(v, Opaque):
                raise Untranslatable(f"opaque value {n.id} = {v.src} used in an expression")
            if isinstance(v, tuple):
                return v
            raise Untranslatable(f"{n.id} is not a scalar expression")
        if isinstance(n, ast.Subscript):
            base = self.value(n.value) if isinstance(n.value, (ast.Name, ast.Attribute)) else None
            if isinstance(base, (Vec, SolverDict)) and isinstance(n.slice, ast.Constant):
                try:
                    return base[n.slice.value]
                except (IndexError, KeyError):
                    raise Untranslatable(f"subscript {ast.unparse(n)} out of range")
            raise Untranslatable(f"subscript {ast.unparse(n)}")
        if isinstance(n, ast.Call) and isinstance(n.func, ast.Name) and isinstance(self.env.get(n.func.id), Closure):
            if any(kw.arg is None for kw in n.keywords) or any(isinstance(a, ast.Starred) for a in n.args):
                raise Untranslatable(f"* / ** in the call of {n.func.id}")
            v = self.inline(self.env[n.func.id], [self.value(a) for a in n.args],
                            {kw.arg: self.value(kw.value) for kw in n.keywords})
            if isinstance(v, tuple):
                return v
            raise Untranslatable(f"call of {n.func.id} does not give a scalar")
        if isinstance(n, ast.Call) and isinstance(n.func, ast.Name) and n.func.id == "deg2rad" and len(n.args) == 1:
            return ("mul", self.tr(n.args[0]), ("div", ("pi",), ("nat", 180)))
        if isinstance(n, ast.Call) and isinstance(n.func, ast.Name) and n.func.id == "rad2deg" and len(n.args) == 1:
            return ("mul", self.tr(n.args[0]), ("div", ("nat", 180), ("pi",)))
        if isinstance(n, ast.Attribute):
            p = pyexpr.attr_path(n)
            if p is not None and p[0] == "self" and len(p) == 2:
                # a constructor reading back what it (or the base constructor it has called) stored on the object
                v = self.env.get("self." + p[1])
                if isinstance(v, tuple):
                    return v
                raise Untranslatable(f"self.{p[1]} read where no translatable value has been stored on the object")
        return super().tr(n)

    def value(self, n):
        """python-level value of an expression node: Expr | None | Opaque | Vec | SolObj | SolverDict | Closure"""
        if isinstance(n, ast.Constant) and n.value is None:
            return None
        if isinstance(n, ast.Name) and n.id in self.env and not isinstance(self.env[n.id], tuple):
            return self.env[n.id]
        # sol.x -> Vec of root variables
        if isinstance(n, ast.Attribute) and isinstance(n.value, ast.Name) and isinstance(self.env.get(n.value.id), SolObj):
            if n.attr == "x":
                return Vec([("var", f"root{i}") for i in range(self.env[n.value.id].n)])
            raise Untranslatable(f"attribute {n.attr} of the root() result")
        if isinstance(n, ast.Call):
            f = n.func
            # root_scalar(f, bracket=(a, b)).root is handled at the Attribute level below
            if isinstance(f, ast.Name) and f.id == "root" and len(n.args) == 2:
                return self.oracle_root(n)
            if isinstance(f, ast.Name) and f.id == "fixed_point" and len(n.args) == 2:
                return self.oracle_fixed_point(n)
            if pyexpr.attr_path(f) == ["np", "array"] and len(n.args) == 1 and isinstance(n.args[0], ast.List):
                return Vec([self.tr(e) for e in n.args[0].elts])
            if isinstance(f, ast.Name) and f.id in self.solver_keys:
                return self.solver_call(n)
        if isinstance(n, ast.Attribute) and n.attr == "root" and isinstance(n.value, ast.Call) \
                and isinstance(n.value.func, ast.Name) and n.value.func.id == "root_scalar":
            return self.oracle_root_scalar(n.value)
        try:
            return self.tr(n)
        except Untranslatable as ex:
            return Opaque(ast.unparse(n)[:160] + f"   [{ex}]")

    # ---- oracles --------------------------------------------------------------------------------------
    def _closure_arg(self, node):
        if isinstance(node, ast.Name) and isinstance(self.env.get(node.id), Closure):
            return self.env[node.id]
        raise Untranslatable(f"root finder applied to {ast.unparse(node)} which is not a local function")

    def _text(self, node):
        v = self.value(node)
        return v if isinstance(v, tuple) else ("text", ast.unparse(node))

    def oracle_root_scalar(self, call):
        if len(call.args) != 1 or [k.arg for k in call.keywords] != ["bracket"]:
            raise Untranslatable("root_scalar call shape")
        br = call.keywords[0].value
        if not (isinstance(br, ast.Tuple) and len(br.elts) == 2):
            raise Untranslatable("root_scalar bracket shape")
        res = self.inline(self._closure_arg(call.args[0]), [("var", "_x0")])
        if not isinstance(res, tuple):
            raise Untranslatable("root_scalar residual is not a scalar expression")
        self.oracles.append({"kind": "root_scalar", "vars": ["root"], "residual": [res],
                             "bracket": [self._text(br.elts[0]), self._text(br.elts[1])]})
        return ("var", "root")

    def oracle_root(self, call):
        x0 = call.args[1]
        if not (pyexpr.attr_path(getattr(x0, "func", None)) == ["np", "array"] and isinstance(x0.args[0], ast.List)):
            raise Untranslatable("root start vector shape")
        n = len(x0.args[0].elts)
        res = self.inline(self._closure_arg(call.args[0]), [Vec([("var", f"_x{i}") for i in range(n)])])
        if isinstance(res, Cases):
            if not all(isinstance(v, Vec) and len(v) == n for _, v in res):
                raise Untranslatable("root residual branches are not vectors of the right length")
            residual = Cases([(g, list(v)) for g, v in res])
        elif isinstance(res, Vec) and len(res) == n:
            residual = list(res)
        else:
            raise Untranslatable("root residual is not a vector of the right length")
        self.oracles.append({"kind": "root", "vars": [f"root{i}" for i in range(n)], "residual": residual,
                             "start": [self._text(e) for e in x0.args[0].elts]})
        return SolObj(n)

    def oracle_fixed_point(self, call):
        res = self.inline(self._closure_arg(call.args[0]), [("var", "_x0")])
        if not isinstance(res, tuple):
            raise Untranslatable("fixed_point map is not a scalar expression")
        self.oracles.append({"kind": "fixed_point", "vars": ["fp"], "residual": [res],
                             "start": [("text", ast.unparse(call.args[1]))]})
        return ("var", "fp")

    def solver_call(self, call):
        name = call.func.id
        params, keys = self.solver_keys[name]
        args = {}
        for i, a in enumerate(call.args):
            if i >= len(params) or isinstance(a, ast.Starred):
                raise Untranslatable(f"positional argument #{i} of {name} has no parameter to bind to")
            args[params[i]] = self.value(a)
        for kw in call.keywords:
            if kw.arg is None:
                raise Untranslatable("** in a solver call")
            args[kw.arg] = self.value(kw.value)
        for k, v in args.items():
            if not (v is None or isinstance(v, tuple)):
                raise Untranslatable(f"solver argument {k} outside the subset")
        self.calls.append((name, args))
        return SolverDict({k: ("var", f"sol.{k}") for k in keys})

    # ---- closures -------------------------------------------------------------------------------------
    def inline(self, clo, args, kwargs=None):
        fn = clo.node
        kwargs = kwargs or {}
        names = [p.arg for p in fn.args.args]
        if fn.args.vararg or fn.args.kwarg or fn.args.kwonlyargs or fn.args.posonlyargs or len(args) > len(names) \
                or len(clo.defaults) != len(fn.args.defaults):
            raise Untranslatable(f"closure {fn.name}: unsupported signature / arity")
        # python's binding rules: positional, then keywords, then the defaults of the trailing parameters
        bound = dict(zip(names, args))
        for k, v in kwargs.items():
            if k not in names or k in bound:
                raise Untranslatable(f"closure {fn.name}: keyword argument {k} does not bind")
            bound[k] = v
        for p, d in zip(names[len(names) - len(clo.defaults):], clo.defaults):
            bound.setdefault(p, d)
        if len(bound) != len(names):
            raise Untranslatable(f"closure {fn.name}: unsupported signature / arity")
        self.depth += 1
        if self.depth > 8:
            raise Untranslatable("closure nesting too deep")
        saved = self.env
        if isinstance(clo, Helper):
            self.env = dict(clo.module_env)  # a module-level function does not see the caller's locals
        else:
            self.env = dict(saved)           # late binding: the closure sees the caller's *current* bindings
        self.env.update(bound)
        try:
            return self.block_value(fn.body)
        finally:
            self.env = saved
            self.depth -= 1

    def block_value(self, stmts):
        """value returned by a closure body (Expr | Vec | Cases)"""
        for i, st in enumerate(stmts):
            if isinstance(st, ast.Expr) and isinstance(st.value, ast.Constant):
                continue
            if isinstance(st, ast.Assign) and len(st.targets) == 1 and isinstance(st.targets[0], ast.Name):
                self.env[st.targets[0].id] = self.value(st.value)
                continue
            if isinstance(st, ast.Return) and st.value is not None:
                v = self.value(st.value)
                if isinstance(v, Opaque):
                    raise Untranslatable(f"closure returns a value outside the subset: {v.src}")
                return v
            if isinstance(st, ast.If) and isinstance(st.test, ast.Compare) and len(st.test.ops) == 1 \
                    and isinstance(st.test.ops[0], (ast.Gt, ast.Lt, ast.GtE, ast.LtE)) and st.orelse \
                    and i == len(stmts) - 1:
                op = {ast.Gt: "gt", ast.Lt: "lt", ast.GtE: "ge", ast.LtE: "le"}[type(st.test.ops[0])]
                g = (op, self.tr(st.test.left), self.tr(st.test.comparators[0]))
                saved = self.env
                self.env = dict(saved)
                a = self.block_value(st.body)
                self.env = dict(saved)
                b = self.block_value(st.orelse)
                self.env = saved
                if isinstance(a, Cases) or isinstance(b, Cases):
                    raise Untranslatable("nested branching in a residual")
                return Cases([(g, a), (("not", g), b)])
            raise Untranslatable(f"statement {type(st).__name__} in a closure: {ast.unparse(st)[:80]}")
        raise Untranslatable("closure falls off its end")

    # ---- statements of the function itself ------------------------------------------------------------
    def cond(self, t):
        """decide a test from the None-pattern: True / False"""
        if isinstance(t, ast.BoolOp):
            vals = [self.cond(v) for v in t.values]
            return all(vals) if isinstance(t.op, ast.And) else any(vals)
        if isinstance(t, ast.UnaryOp) and isinstance(t.op, ast.Not):
            if isinstance(t.operand, ast.Attribute) and t.operand.attr == "success" \
                    and isinstance(t.operand.value, ast.Name) and isinstance(self.env.get(t.operand.value.id), SolObj):
                self.notes.append("`if not sol.success: raise` is part of the oracle contract (returns a root or raises)")
                return False
            return not self.cond(t.operand)
        if isinstance(t, ast.Compare) and len(t.ops) == 1 and isinstance(t.ops[0], (ast.Is, ast.IsNot)) \
                and isinstance(t.comparators[0], ast.Constant) and t.comparators[0].value is None \
                and isinstance(t.left, ast.Name) and t.left.id in self.env:
            isnone = self.env[t.left.id] is None
            return isnone if isinstance(t.ops[0], ast.Is) else not isnone
        if isinstance(t, ast.Name) and t.id in self.env:
            # truthiness of a parameter: None is falsy; a supplied number is taken to be non-zero (noted)
            if self.env[t.id] is not None:
                self.notes.append(f"truthiness test of `{t.id}`: a supplied value is assumed non-zero")
            return self.env[t.id] is not None
        raise Untranslatable(f"test outside the subset: {ast.unparse(t)[:100]}")

    def block(self, stmts):
        for st in stmts:
            if isinstance(st, ast.Expr) and isinstance(st.value, ast.Constant):
                continue
            if isinstance(st, ast.FunctionDef):
                self.env[st.name] = Closure(st, [self.value(d) for d in st.args.defaults])
                continue
            if isinstance(st, ast.Assign) and len(st.targets) == 1:
                t = st.targets[0]
                if isinstance(t, ast.Name):
                    self.env[t.id] = self.value(st.value)
                    continue
                p = pyexpr.attr_path(t)
                if p is not None and p[0] == "self" and len(p) == 2:
                    # constructor: attribute store (self._tip_depth = tip_depth) - no effect on the plumbing; recorded in
                    # `stores` (-> c04_stored.py: the values the object hands out through its public properties)
                    v = self.value(st.value)
                    self.env["self." + p[1]] = v
                    self.stores[p[1]] = v
                    continue
            if isinstance(st, ast.If) and isinstance(st.test, ast.Compare) and len(st.test.ops) == 1 \
                    and isinstance(st.test.ops[0], (ast.Gt, ast.Lt, ast.GtE, ast.LtE)) and not st.orelse \
                    and len(st.body) == 1 and isinstance(st.body[0], ast.Raise):
                # a numeric rejection test (`if sol["flank_angle"] > np.pi / 2: raise ...`): recorded, execution continues
                self.notes.append("rejects when " + ast.unparse(st.test))
                self.tr(st.test.left), self.tr(st.test.comparators[0])
                continue
            if isinstance(st, ast.If):
                if self.cond(st.test):
                    self.block(st.body)
                else:
                    self.block(st.orelse)
                continue
            if isinstance(st, ast.Raise):
                exc = st.exc
                name = exc.func.id if isinstance(exc, ast.Call) and isinstance(exc.func, ast.Name) else \
                    (exc.id if isinstance(exc, ast.Name) else "Exception")
                raise _Raise(name)
            if isinstance(st, ast.Return) and isinstance(st.value, ast.Call) and isinstance(st.value.func, ast.Name) \
                    and st.value.func.id == "dict" and not st.value.args:
                out = {}
                for kw in st.value.keywords:
                    v = self.value(kw.value)
                    if not isinstance(v, tuple):
                        raise Untranslatable(f"returned value {kw.arg} outside the subset: {v!r}")
                    out[kw.arg] = v
                raise _Return(out)
            if isinstance(st, ast.Expr) and isinstance(st.value, ast.Call) and self._is_super_init(st.value.func):
                if self.init_value is not None:
                    raise Untranslatable("second call of the base constructor")
                self.init_value = self.init_kwargs(st.value)
                # execution continues: statements after the call may store further values on the object; what the base
                # constructor was handed under keyword k is what it keeps as attribute k (K-checked: `plumb_*.<k>` vs the
                # attribute of the finished groove), so `self.k` may be read back from here on
                for k, e in self.init_value.items():
                    self.env.setdefault("self." + k, e)
                continue
            raise Untranslatable(f"statement {type(st).__name__}: {ast.unparse(st)[:100]}")

    @staticmethod
    def _is_super_init(f):
        if isinstance(f, ast.Attribute) and f.attr == "__init__":
            v = f.value
            if isinstance(v, ast.Call) and isinstance(v.func, ast.Name) and v.func.id == "super":
                return True
            if isinstance(v, ast.Name) and v.id == "GenericElongationGroove":
                return True
        return False

    def init_kwargs(self, call):
        out = {}
        for a in call.args:
            if not (isinstance(a, ast.Name) and a.id == "self"):
                raise Untranslatable("positional argument in the base constructor call")
        for kw in call.keywords:
            if kw.arg is None:
                v = self.value(kw.value)
                if isinstance(v, SolverDict):
                    for k, e in v.items():
                        out[k] = e
                    continue
                if isinstance(kw.value, ast.Name) and kw.value.id == "kwargs":
                    continue                      # pass-through of pad / rel_pad / classifiers
                raise Untranslatable(f"** of {ast.unparse(kw.value)} in the base constructor call")
            v = self.value(kw.value)
            if not isinstance(v, tuple):
                raise Untranslatable(f"base constructor argument {kw.arg} outside the subset: {v!r}")
            out[kw.arg] = v
        return out


def module_constants(tree, skip=()):
    """module-level `NAME = <expr>` with a translatable right-hand side (MIN_ANGLE, MAX_ANGLE) and the module's plain
    helper functions (`def` without decorator, not one of `skip`): a call of such a helper from a solver, a closure or a
    constructor is inlined (arguments bound by position / keyword / default, body executed in the module's scope), so that
    moving a formula into a shared helper neither opens a translator gap nor hides what is handed to it."""
    ex = Exec({})
    for st in tree.body:
        if isinstance(st, ast.Assign) and len(st.targets) == 1 and isinstance(st.targets[0], ast.Name) \
                and st.targets[0].id.isupper():
            v = ex.value(st.value)
            if isinstance(v, tuple):
                ex.env[st.targets[0].id] = v
    env = ex.env
    for st in tree.body:
        if isinstance(st, ast.FunctionDef) and not st.decorator_list and st.name not in skip:
            # defaults are evaluated when the `def` is executed; the body looks names up when it is called: `env` is shared
            env[st.name] = Helper(st, [ex.value(d) for d in st.args.defaults], env)
    return env


def run_pattern(fn, pattern, optional, solver_keys=None, consts=None):
    """execute `fn` with the parameters in `optional` bound to None where pattern[name] is True"""
    env = dict(consts or {})
    for a in fn.args.args + fn.args.kwonlyargs:
        if a.arg == "self":
            continue
        env[a.arg] = None if (a.arg in optional and pattern.get(a.arg)) else ("var", a.arg)
    ex = Exec(env, solver_keys)
    try:
        ex.block(fn.body)
        if ex.init_value is not None:           # a constructor: ran to its end after calling the base constructor
            oc = Outcome("return", ex.init_value, ex.oracles, ex.calls, ex.notes)
        else:
            oc = Outcome("raise", "falls-off-the-end", ex.oracles, ex.calls, ex.notes)
    except _Raise as r:
        oc = Outcome("raise", r.name, ex.oracles, ex.calls, ex.notes)
    except _Return as r:
        oc = Outcome("return", r.value, ex.oracles, ex.calls, ex.notes)
    oc.stores = dict(ex.stores)
    return oc


def optional_params(fn):
    """parameters annotated Optional[...] or defaulting to None"""
    out = []
    args = fn.args.args
    defaults = [None] * (len(args) - len(fn.args.defaults)) + list(fn.args.defaults)
    for a, d in zip(args, defaults):
        ann = ast.unparse(a.annotation) if a.annotation is not None else ""
        if ann.startswith("Optional") or (isinstance(d, ast.Constant) and d.value is None):
            out.append(a.arg)
    return out


def numeric_defaults(fn):
    """[(parameter, expr)] for the parameters with a numeric literal default (`r4: float = 0`)"""
    args = fn.args.args
    defaults = [None] * (len(args) - len(fn.args.defaults)) + list(fn.args.defaults)
    out = []
    for a, d in zip(args, defaults):
        if isinstance(d, ast.Constant) and isinstance(d.value, (int, float)) and not isinstance(d.value, bool):
            out.append((a.arg, pyexpr.const(d.value)))
    return out


def _parse(rel, repo=None):
    path = os.path.join(repo or REPO, GROOVES, rel)
    return ast.parse(open(path).read())


# ---------------------------------------------------------------------------------------------------------
# what is extracted
# ---------------------------------------------------------------------------------------------------------
SHORT = {"ground_width": "gw", "even_ground_width": "egw", "usable_width": "uw", "flank_angle": "fa",
         "flank_width": "fw", "flank_height": "fh", "flank_length": "fl", "r2": "r2", "depth": "depth",
         "width": "width", "tip_depth": "td", "tip_angle": "ta"}

# canonical (admissible, per the docstrings) patterns: name -> set of parameters that are None
def _box_patterns():
    opt = ["ground_width", "even_ground_width", "usable_width", "flank_angle"]
    adm = {}
    for given in (("usable_width", "ground_width"), ("usable_width", "even_ground_width"), ("usable_width", "flank_angle"),
                  ("ground_width", "flank_angle"), ("even_ground_width", "flank_angle")):
        adm["box_" + "_".join(SHORT[g] for g in given)] = {o: o not in given for o in opt}
    return opt, adm


FLANK = ["flank_angle", "flank_width", "flank_height", "flank_length"]


def _r124_patterns():
    opt = ["r2", "depth", "width"] + FLANK
    adm = {}
    for unknown in ("width", "depth", "r2"):
        for mode in [None] + FLANK:
            pat = {o: True for o in opt}
            for k in ("r2", "depth", "width"):
                pat[k] = (k == unknown)
            if mode:
                pat[mode] = False
            adm[f"r124_{SHORT[unknown]}None_{SHORT[mode] if mode else 'free'}"] = pat
    return opt, adm


def _r12x_patterns(prefix):
    opt = list(FLANK)
    adm = {}
    for mode in [None] + FLANK:
        pat = {o: True for o in opt}
        if mode:
            pat[mode] = False
        adm[f"{prefix}_{SHORT[mode] if mode else 'free'}"] = pat
    return opt, adm


def _diamond_patterns():
    opt = ["usable_width", "tip_depth", "tip_angle"]
    adm = {}
    for unknown in opt:
        adm[f"diamond_{SHORT[unknown]}None"] = {o: o == unknown for o in opt}
    return opt, adm


SOLVERS = {"solve_box_like": _box_patterns, "solve_r124": _r124_patterns,
           "solve_r123": lambda: _r12x_patterns("r123"), "solve_r1234": lambda: _r12x_patterns("r1234")}

# solver-backed classes: (relative file, class name)
CLASSES = [("rounds/round.py", "RoundGroove"), ("rounds/false_round.py", "FalseRoundGroove"),
           ("ovals/circular_oval.py", "CircularOvalGroove"), ("ovals/flat_oval.py", "FlatOvalGroove"),
           ("ovals/oval_3radii.py", "Oval3RadiiGroove"), ("ovals/oval_3radii_flanked.py", "Oval3RadiiFlankedGroove"),
           ("ovals/upset_oval.py", "UpsetOvalGroove"),
           ("ovals/constricted_circular_oval.py", "ConstrictedCircularOvalGroove"),
           ("ovals/swedish_oval.py", "SwedishOvalGroove"),
           ("ovals/constricted_swedish_oval.py", "ConstrictedSwedishOvalGroove"),
           ("boxes/box.py", "BoxGroove"), ("boxes/constricted_box.py", "ConstrictedBoxGroove"),
           ("hexagonal.py", "HexagonalGroove"), ("diamonds/diamond.py", "DiamondGroove"),
           ("diamonds/gothic.py", "GothicGroove"), ("equivalent_ripped_groove.py", "EquivalentRibbedGroove")]


def all_patterns(opt):
    for bits in itertools.product([False, True], repeat=len(opt)):
        yield dict(zip(opt, bits))


def pattern_str(opt, pat):
    return " ".join(f"{o}={'None' if pat[o] else 'x'}" for o in opt)


def extract_solvers(repo=None):
    """{solver: {"params", "optional", "keys", "canonical": {name: Outcome}, "table": [(pattern_str, label)], "gaps"}}"""
    tree = _parse("generic_elongation_solvers.py", repo)
    fns = {n.name: n for n in tree.body if isinstance(n, ast.FunctionDef)}
    consts = module_constants(tree, skip=SOLVERS)
    out = {}
    for sname, patf in SOLVERS.items():
        info = {"canonical": {}, "table": [], "gaps": [], "params": [], "optional": [], "keys": []}
        out[sname] = info
        fn = fns.get(sname)
        if fn is None:
            info["gaps"].append(f"{sname} not found in generic_elongation_solvers.py")
            continue
        opt, adm = patf()
        info["params"] = [a.arg for a in fn.args.args]
        info["optional"] = opt
        info["defaults"] = numeric_defaults(fn)
        declared = optional_params(fn)
        if sorted(declared) != sorted(opt):
            info["gaps"].append(f"{sname}: optional parameters are {declared}, the extractor expects {opt}")
        sigs = {}
        for name, pat in adm.items():
            try:
                oc = run_pattern(fn, pat, opt, None, consts)
            except Untranslatable as ex:
                info["gaps"].append(f"{sname} [{pattern_str(opt, pat)}]: {ex}")
                continue
            info["canonical"][name] = oc
            if oc.kind == "return":
                sigs.setdefault(oc.signature(), name)
                for k in oc.value:
                    if k not in info["keys"]:
                        info["keys"].append(k)
            else:
                info["gaps"].append(f"{sname} [{pattern_str(opt, pat)}]: admissible pattern raises {oc.value}")
        for pat in all_patterns(opt):
            try:
                oc = run_pattern(fn, pat, opt, None, consts)
            except Untranslatable as ex:
                label = "untranslatable"
                if any(pat == p for p in adm.values()):
                    pass
                info["table"].append((pattern_str(opt, pat), label))
                continue
            if oc.kind == "raise":
                label = "raise:" + oc.value
            else:
                label = "ret:" + sigs.get(oc.signature(), "noncanonical")
            info["table"].append((pattern_str(opt, pat), label))
    return out


def extract_classes(solvers, repo=None):
    """{class: {"optional", "deg": [...], "patterns": {pattern_str: Outcome}, "gaps"}}"""
    solver_keys = {s: (i["params"], i["keys"]) for s, i in solvers.items()}
    out = {}
    for rel, cname in CLASSES:
        info = {"file": rel, "patterns": {}, "gaps": [], "optional": [], "params": []}
        out[cname] = info
        try:
            tree = _parse(rel, repo)
            cls = next(n for n in tree.body if isinstance(n, ast.ClassDef) and n.name == cname)
            fn = next(n for n in cls.body if isinstance(n, ast.FunctionDef) and n.name == "__init__")
        except (OSError, StopIteration):
            info["gaps"].append(f"class {cname} / its __init__ not found in {rel}")
            continue
        opt = optional_params(fn)
        info["optional"] = opt
        info["params"] = [a.arg for a in fn.args.args if a.arg != "self"]
        consts = module_constants(tree, skip=solver_keys)
        for pat in all_patterns(opt):
            try:
                oc = run_pattern(fn, pat, opt, solver_keys, consts)
            except Untranslatable as ex:
                info["gaps"].append(f"{cname}.__init__ [{pattern_str(opt, pat)}]: {ex}")
                continue
            info["patterns"][pattern_str(opt, pat)] = oc
    return out


# ---------------------------------------------------------------------------------------------------------
# Lean emission
# ---------------------------------------------------------------------------------------------------------
def lean_guard(g):
    if g[0] == "not":
        return "not " + lean_guard(g[1])
    return f"{g[0]}"


def _cases(residual):
    """[(suffix, guard text, [Expr])]"""
    if isinstance(residual, Cases):
        return [("a" if i == 0 else "b", g, v) for i, (g, v) in enumerate(residual)]
    return [("", None, residual)]


def guard_str(g):
    if g is None:
        return ""
    if g[0] == "not":
        return "not(" + guard_str(g[1]) + ")"
    return f"{g[0]}({pyexpr.lean_expr(g[1])}, {pyexpr.lean_expr(g[2])})"


def emit(ctx, pid="C04", repo=None):
    solvers = extract_solvers(repo)
    classes = extract_classes(solvers, repo)
    L = ["import PyrollModel.Expr",
         "/- GENERATED by driver/translate/c04_solvers.py from pyroll/core/grooves/generic_elongation_solvers.py and the",
         "   solver-backed groove constructors - do not edit.",
         "   Naming: <solver>_<pattern>_<returned key> : the closed form returned for that None-pattern;",
         "           <solver>_<pattern>_res<i>[a|b]    : i-th component of the inlined residual handed to the numeric root",
         "                                               finder (variables `_x<i>`; a/b = the two branches of a branching",
         "                                               residual); the value the root finder returns is the variable",
         "                                               `root` / `root<i>` / `fp` in the closed forms. -/",
         f"namespace Gen.{pid}", ""]
    table = []
    for sname, info in solvers.items():
        for g in info["gaps"]:
            ctx.tie_breaks.append("translator: " + g)
        L.append(f"/-! ### {sname} -/")
        for name, oc in info["canonical"].items():
            if oc.kind != "return":
                continue
            L.append(f"-- {name}: " + pattern_str(info["optional"], SOLVERS[sname]()[1][name]))
            for oi, o in enumerate(oc.oracles):
                tag = "" if oi == 0 else f"o{oi + 1}_"
                for suf, g, vec in _cases(o["residual"]):
                    if g is not None:
                        L.append(f"-- branch {suf}: {guard_str(g)}")
                    for i, e in enumerate(vec):
                        dn = f"{name}_{tag}{'map' if o['kind'] == 'fixed_point' else 'res'}{i}{suf}"
                        L.append(f"def {dn} : Expr := {pyexpr.lean_expr(e)}")
                        table.append(dn)
                extra = o.get("bracket") or o.get("start")
                L.append(f"-- oracle {o['kind']} -> {' '.join(o['vars'])}; "
                         f"{'bracket' if 'bracket' in o else 'start'}: "
                         + ", ".join(pyexpr.lean_expr(b) if b[0] != "text" else "`" + b[1] + "`" for b in extra))
            for k, e in oc.value.items():
                dn = f"{name}_{k}"
                L.append(f"def {dn} : Expr := {pyexpr.lean_expr(e)}")
                table.append(dn)
            L.append("")
        short = sname.replace("solve_", "")
        L.append(f"/-- numeric defaults of the parameters of `{sname}` -/")
        L.append(f"def {short}_defaults : List (String × Expr) := [" + ", ".join(
            f"({pyexpr.lean_str(k)}, {pyexpr.lean_expr(e)})" for k, e in info.get("defaults", [])) + "]")
        L.append(f"/-- decision table of `{sname}`: None-pattern of the optional parameters -> outcome -/")
        L.append(f"def {short}_decision : List (String × String) := [")
        L.append(",\n".join(f"  ({pyexpr.lean_str(p)}, {pyexpr.lean_str(lbl)})" for p, lbl in info["table"]) + "]")
        L.append("")
    # constructors
    L.append("/-! ### constructor plumbing: keyword arguments handed to `GenericElongationGroove.__init__`")
    L.append("     (variables: the constructor's own parameters; `sol.<key>`: the value returned by the solver call) -/")
    for cname, info in classes.items():
        for g in info["gaps"]:
            ctx.tie_breaks.append("translator: " + g)
        i = 0
        for pstr, oc in info["patterns"].items():
            if oc.kind != "return":
                continue
            i += 1
            dn = f"plumb_{cname}" + (f"_{i}" if len([o for o in info["patterns"].values() if o.kind == "return"]) > 1 else "")
            oc.lean_name = dn
            L.append(f"-- {cname}({pstr})" + "".join(
                f"; calls {s}(" + ", ".join(f"{k}={'None' if v is None else pyexpr.lean_expr(v)}" for k, v in a.items()) + ")"
                for s, a in oc.calls))
            L.append(f"def {dn} : List (String × Expr) := [" + ", ".join(
                f"({pyexpr.lean_str(k)}, {pyexpr.lean_expr(e)})" for k, e in oc.value.items()) + "]")
            for s, a in oc.calls:
                L.append(f"def {dn}_call : String × List (String × Option Expr) := ({pyexpr.lean_str(s)}, [" + ", ".join(
                    f"({pyexpr.lean_str(k)}, {'none' if v is None else 'some ' + pyexpr.lean_expr(v)})" for k, v in a.items()) + "])")
        L.append("")
    L.append("def table : List (String × Expr) := [" + ", ".join(f"(\"{n}\", {n})" for n in table) + "]")
    L.append("")
    plumbs = [(oc.lean_name, bool(oc.calls), cname) for cname, info in classes.items()
              for oc in info["patterns"].values() if oc.kind == "return"]
    L.append("/-- the keyword arguments of every constructor pattern, by name -/")
    L.append("def plumbing : List (String × List (String × Expr)) := [" + ", ".join(
        f"(\"{n}\", {n})" for n, _, _ in plumbs) + "]")
    L.append("/-- the solver-call arguments of every constructor pattern (absent = `None`) -/")
    L.append("def plumbingCalls : List (String × List (String × Option Expr)) := [" + ", ".join(
        f"(\"{n}_call\", {n}_call.2)" for n, c, _ in plumbs if c) + "]")
    for cname in classes:
        L.append(f"def plumbs_{cname} : List (List (String × Expr)) := [" + ", ".join(
            n for n, _, c in plumbs if c == cname) + "]")
    for cname in classes:
        L.append(f"def calls_{cname} : List (List (String × Option Expr)) := [" + ", ".join(
            f"{n}_call.2" for n, c, k in plumbs if k == cname and c) + "]")
    L.append("/-- `table` plus every plumbing entry as `<plumb name>.<keyword>` (for the Float evaluation driver) -/")
    L.append("def fullTable : List (String × Expr) :=")
    L.append("  table ++ plumbing.flatMap (fun p => p.2.map (fun kv => (p.1 ++ \".\" ++ kv.1, kv.2)))")
    L.append("    ++ plumbingCalls.flatMap (fun p => p.2.filterMap (fun kv => kv.2.map (fun e => (p.1 ++ \".\" ++ kv.1, e))))")
    L.append("")
    L.append(f"end Gen.{pid}")
    text = "\n".join(L) + "\n"
    changed = pyexpr.write_if_changed(os.path.join(LEAN_DIR, "PyrollModel", "Gen", f"{pid}.lean"), text)
    ctx.notes.setdefault("generated", {})[f"Gen/{pid}.lean"] = {"defs": len(table), "rewritten": changed}
    return solvers, classes
