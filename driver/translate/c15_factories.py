"""(T) extractor for the profile factories (property C15): pyroll/core/profile/profile.py -> lean/PyrollModel/Gen/C15.lean.

Per factory (`RoundProfile`, `BoxProfile`, `DiamondProfile`, `SquareProfile`, `HexagonProfile` `__init__`, and the class methods
`Profile.from_groove`, `Profile.from_polygon`) a whitelisted statement walk produces the tables of `PyrollModel/Factory.lean`:

    groups     `if a is not None and b is None: b = e … elif …: … else: raise TypeError(...)`
    rejectIf   `if c1 or c2 or …: raise ValueError(...)`          (comparisons of translated expressions)
    require    `if not (c1 and c2 and …): raise ValueError(...)`
    attrs      `self._x = <expr>`
    vertices   `line = LinearRing(np.array([(u, v), …]) * <scalar | (sx, sy)>)`  /  `center = Point((0, 0))`
    buffer     `polygon = polygon.buffer(e)` / `circle = center.buffer(e)`
    classifiers, kwargs forwarding from the final `super().__init__(cross_section=refine_cross_section(X), classifiers={…}, **kwargs)`
    from_groove additionally: warnIf, yoff of `translate`, the half turn `rotate(…, angle=180, origin=(0, 0))`, the late width check,
    `clip_by_rect(poly, lo, -math.inf, hi, math.inf)`, an optional `if not polygon.is_valid: raise ValueError`.
    from_polygon: the ordered list of `if [not] cross_section.<pred>: raise ValueError` tests, and that the polygon is passed through.
    `Profile.round/square/box/diamond/hexagon` must forward their parameters positionally and `**kwargs` to the class;
    `Profile.__init__` must be `self.t = 0; self.__dict__.update(kwargs); super().__init__()`.

AST node types are whitelisted; any other statement raises `Untranslatable`, recorded as a translator gap (broken tie).
"""
import ast
import os

from . import pyexpr
from .pyexpr import Untranslatable, ExprTranslator, lean_expr, lean_str
from ..core import LEAN_DIR, REPO

SRC = os.path.join("pyroll", "core", "profile", "profile.py")
CLASSES = [("round", "RoundProfile"), ("box", "BoxProfile"), ("diamond", "DiamondProfile"),
           ("square", "SquareProfile"), ("hexagon", "HexagonProfile")]
CMP = {ast.LtE: "le", ast.Lt: "lt", ast.GtE: "ge", ast.Gt: "gt"}


class Spec:
    def __init__(self, name):
        self.name = name
        self.params = []          # [(name, has_default_None | "required" | default value)]
        self.groups = []          # [[(given, absent, [(name, expr)])]]
        self.reject_if = []       # [(lhs, op, rhs)]
        self.require = []
        self.vertices = []        # [(ex, ey)]
        self.buffer = ("nat", 0)
        self.attrs = []           # [(attr, expr)]
        self.classifiers = []
        self.kwargs_forwarded = False
        self.refined = False
        # from_groove only
        self.warn_if = []
        self.yoff = None
        self.half_turn = False
        self.late_reject = []
        self.clip = None
        self.clip_y_unbounded = False
        self.validity_checked = False
        self.classifiers_from_groove = False


def _is_doc(st):
    return isinstance(st, ast.Expr) and isinstance(st.value, ast.Constant) and isinstance(st.value.value, str)


def _none_test(n, params):
    """`a is not None and b is None …` -> (given, absent) or None"""
    parts = n.values if isinstance(n, ast.BoolOp) and isinstance(n.op, ast.And) else [n]
    given, absent = [], []
    for p in parts:
        if not (isinstance(p, ast.Compare) and len(p.ops) == 1 and isinstance(p.left, ast.Name)
                and isinstance(p.comparators[0], ast.Constant) and p.comparators[0].value is None
                and isinstance(p.ops[0], (ast.Is, ast.IsNot))):
            return None
        if p.left.id not in params:
            return None
        (absent if isinstance(p.ops[0], ast.Is) else given).append(p.left.id)
    return given, absent


def _raises(body, exc):
    if len(body) != 1 or not isinstance(body[0], ast.Raise):
        return False
    e = body[0].exc
    if isinstance(e, ast.Call):
        e = e.func
    return isinstance(e, ast.Name) and e.id == exc


class _Walker:
    def __init__(self, spec, params, self_name):
        self.spec = spec
        self.params = params
        self.self_name = self_name
        self.locals = {}
        self.geometry_started = False
        self.shape_vars = {}     # local name -> kind ("ring", "polygon", "point", "buffered", "contour", "clipped")

    def tr(self, n):
        loc = dict(self.locals)
        for obj in ("groove", "poly"):
            loc.setdefault(obj, ("var", obj))
        return ExprTranslator(self.self_name or "self", loc, self.params).tr(n)

    def cmp(self, n):
        if not (isinstance(n, ast.Compare) and len(n.ops) == 1 and type(n.ops[0]) in CMP):
            raise Untranslatable(f"range test {ast.unparse(n)}")
        return (self.tr(n.left), CMP[type(n.ops[0])], self.tr(n.comparators[0]))

    def cmps(self, n, op):
        if isinstance(n, ast.BoolOp):
            if not isinstance(n.op, op):
                raise Untranslatable(f"mixed boolean range test {ast.unparse(n)}")
            return [self.cmp(v) for v in n.values]
        return [self.cmp(n)]

    # ---- statements ------------------------------------------------------------------------------------
    def chain(self, st):
        arms = []
        cur = st
        while True:
            pat = _none_test(cur.test, self.params)
            if pat is None:
                raise Untranslatable(f"resolution test {ast.unparse(cur.test)}")
            assigns = []
            loc = dict(self.locals)
            for b in cur.body:
                if not (isinstance(b, ast.Assign) and len(b.targets) == 1 and isinstance(b.targets[0], ast.Name)):
                    raise Untranslatable(f"statement in a resolution arm: {ast.unparse(b)[:60]}")
                # arms read parameters and names assigned earlier in the same arm as VARIABLES (sequential rebinding
                # is done by the model: Factory.applyAssigns), so nothing is inlined here
                e = ExprTranslator(self.self_name or "self", {"groove": ("var", "groove")},
                                   set(self.params) | {a for a, _ in assigns}).tr(b.value)
                assigns.append((b.targets[0].id, e))
            arms.append((pat[0], pat[1], assigns))
            if len(cur.orelse) == 1 and isinstance(cur.orelse[0], ast.If):
                cur = cur.orelse[0]
                continue
            if not _raises(cur.orelse, "TypeError"):
                raise Untranslatable("resolution chain does not end in `else: raise TypeError`")
            break
        for (_, _, assigns) in arms:
            for (n, _) in assigns:
                self.params.add(n)
        self.spec.groups.append(arms)

    def stmt(self, st):
        sp = self.spec
        if _is_doc(st):
            return
        if isinstance(st, ast.If):
            if _none_test(st.test, self.params) is not None and st.orelse:
                if self.geometry_started:
                    raise Untranslatable("argument resolution after the geometry was built")
                return self.chain(st)
            if _raises(st.body, "ValueError") and not st.orelse:
                t = st.test
                if isinstance(t, ast.UnaryOp) and isinstance(t.op, ast.Not) and isinstance(t.operand, ast.Attribute) \
                        and t.operand.attr == "is_valid" and isinstance(t.operand.value, ast.Name) \
                        and self.shape_vars.get(t.operand.value.id) == "clipped":
                    sp.validity_checked = True
                    return
                if isinstance(t, ast.UnaryOp) and isinstance(t.op, ast.Not):
                    cs = self.cmps(t.operand, ast.And)
                    if self.geometry_started:
                        raise Untranslatable("`if not (...)` range test after the geometry was built")
                    sp.require += cs
                    return
                cs = self.cmps(t, ast.Or)
                (sp.late_reject if self.geometry_started else sp.reject_if).extend(cs)
                return
            if len(st.body) == 1 and isinstance(st.body[0], ast.Expr) and isinstance(st.body[0].value, ast.Call) \
                    and ast.unparse(st.body[0].value.func).endswith("logger.warning") and not st.orelse:
                sp.warn_if += self.cmps(st.test, ast.Or)
                return
            raise Untranslatable(f"if statement: {ast.unparse(st.test)[:80]}")
        if isinstance(st, ast.Assign) and len(st.targets) == 1:
            tg, v = st.targets[0], st.value
            if isinstance(tg, ast.Attribute) and isinstance(tg.value, ast.Name) and tg.value.id == self.self_name:
                sp.attrs.append((tg.attr, self.tr(v)))
                return
            if isinstance(tg, ast.Name):
                return self.assign(tg.id, v)
        if isinstance(st, ast.Expr) and isinstance(st.value, ast.Call):
            return self.final(st.value, is_super=True)
        if isinstance(st, ast.Return) and isinstance(st.value, ast.Call):
            return self.final(st.value, is_super=False)
        raise Untranslatable(f"statement {type(st).__name__}: {ast.unparse(st)[:80]}")

    def assign(self, name, v):
        sp = self.spec
        if isinstance(v, ast.Call):
            f = ast.unparse(v.func)
            if f == "LinearRing" and len(v.args) == 1 and not v.keywords:
                sp.vertices = self.ring(v.args[0])
                self.shape_vars[name] = "ring"
                self.geometry_started = True
                return
            if f == "Point" and len(v.args) == 1 and ast.unparse(v.args[0]) == "(0, 0)":
                sp.vertices = [(("nat", 0), ("nat", 0))]
                self.shape_vars[name] = "point"
                self.geometry_started = True
                return
            if f == "Polygon" and len(v.args) == 1 and isinstance(v.args[0], ast.Name) \
                    and self.shape_vars.get(v.args[0].id) == "ring":
                self.shape_vars[name] = "polygon"
                return
            if isinstance(v.func, ast.Attribute) and v.func.attr == "buffer" and isinstance(v.func.value, ast.Name) \
                    and self.shape_vars.get(v.func.value.id) in ("polygon", "point") and len(v.args) == 1 and not v.keywords:
                sp.buffer = self.tr(v.args[0])
                self.shape_vars[name] = "buffered"
                return
            # ---- from_groove pipeline
            if f == "translate" and len(v.args) == 1 and ast.unparse(v.args[0]) == "groove.contour_line" \
                    and [k.arg for k in v.keywords] == ["yoff"]:
                sp.yoff = self.tr(v.keywords[0].value)
                self.shape_vars[name] = "upper"
                self.geometry_started = True
                return
            if f == "rotate" and len(v.args) == 1 and isinstance(v.args[0], ast.Name) \
                    and self.shape_vars.get(v.args[0].id) == "upper" \
                    and sorted((k.arg, ast.unparse(k.value)) for k in v.keywords) == [("angle", "180"), ("origin", "(0, 0)")]:
                sp.half_turn = True
                self.shape_vars[name] = "lower"
                return
            if f == "Polygon" and len(v.args) == 1 and isinstance(v.args[0], ast.Call) \
                    and ast.unparse(v.args[0].func) == "np.concatenate":
                inner = v.args[0].args[0]
                names = [ast.unparse(e) for e in getattr(inner, "elts", [])]
                kinds = [self.shape_vars.get(n.split(".")[0]) for n in names]
                if kinds == ["upper", "lower"] and all(n.endswith(".coords") for n in names):
                    self.shape_vars[name] = "contour"
                    return
            if f == "clip_by_rect" and len(v.args) == 5 and isinstance(v.args[0], ast.Name) \
                    and self.shape_vars.get(v.args[0].id) == "contour":
                sp.clip = (self.tr(v.args[1]), self.tr(v.args[3]))
                sp.clip_y_unbounded = (ast.unparse(v.args[2]), ast.unparse(v.args[4])) == ("-math.inf", "math.inf")
                if not sp.clip_y_unbounded:
                    raise Untranslatable("clip_by_rect with bounded y range")
                self.shape_vars[name] = "clipped"
                return
            if f in ("LinearRing", "Point", "Polygon", "translate", "rotate", "clip_by_rect") or f.endswith(".buffer"):
                raise Untranslatable(f"geometry call outside the recognised forms: {ast.unparse(v)[:100]}")
        # plain local
        self.locals[name] = self.tr(v)

    def ring(self, n):
        """np.array([(u, v), …]) * scale"""
        if not (isinstance(n, ast.BinOp) and isinstance(n.op, ast.Mult) and isinstance(n.left, ast.Call)
                and ast.unparse(n.left.func) == "np.array" and len(n.left.args) == 1
                and isinstance(n.left.args[0], (ast.List, ast.Tuple))):
            raise Untranslatable(f"LinearRing argument {ast.unparse(n)[:80]}")
        if isinstance(n.right, ast.Tuple):
            if len(n.right.elts) != 2:
                raise Untranslatable("scale tuple of length != 2")
            sx, sy = self.tr(n.right.elts[0]), self.tr(n.right.elts[1])
        else:
            sx = sy = self.tr(n.right)
        out = []
        for p in n.left.args[0].elts:
            if not (isinstance(p, ast.Tuple) and len(p.elts) == 2):
                raise Untranslatable("vertex that is not a pair")
            out.append((("mul", self.tr(p.elts[0]), sx), ("mul", self.tr(p.elts[1]), sy)))
        return out

    def final(self, call, is_super):
        sp = self.spec
        f = ast.unparse(call.func)
        if f not in ("super().__init__", "cls"):
            raise Untranslatable(f"call statement {ast.unparse(call)[:80]}")
        if call.args:
            raise Untranslatable("positional arguments to the Profile constructor")
        kw = {k.arg: k.value for k in call.keywords}
        sp.kwargs_forwarded = None in kw and ast.unparse(kw[None]) == "kwargs"
        if set(kw) != {"cross_section", "classifiers", None}:
            raise Untranslatable(f"constructor keywords {sorted(map(str, kw))}")
        cs = kw["cross_section"]
        if isinstance(cs, ast.Call) and ast.unparse(cs.func) == "refine_cross_section" and len(cs.args) == 1:
            sp.refined = True
            cs = cs.args[0]
        if not (isinstance(cs, ast.Name) and self.shape_vars.get(cs.id) in ("buffered", "clipped")):
            raise Untranslatable(f"cross_section={ast.unparse(cs)} is not the buffered / clipped polygon")
        cl = kw["classifiers"]
        if isinstance(cl, ast.Set) and all(isinstance(e, ast.Constant) and isinstance(e.value, str) for e in cl.elts):
            sp.classifiers = sorted(e.value for e in cl.elts)
        elif ast.unparse(cl) == "set(groove.classifiers)":
            sp.classifiers_from_groove = True
        else:
            raise Untranslatable(f"classifiers={ast.unparse(cl)}")
        self.done = True


def _params(fn, skip):
    a = fn.args
    names = [x.arg for x in a.args][skip:]
    defaults = [None] * (len(names) - len(a.defaults)) + list(a.defaults)
    out = []
    for n, d in zip(names, defaults):
        if d is None:
            out.append((n, "required"))
        elif isinstance(d, ast.Constant) and d.value is None:
            out.append((n, "optional"))
        elif isinstance(d, ast.Constant) and isinstance(d.value, (int, float)):
            out.append((n, d.value))
        else:
            raise Untranslatable(f"default of {n}")
    if a.vararg or a.kwonlyargs or not a.kwarg or a.kwarg.arg != "kwargs":
        raise Untranslatable("signature is not (…, **kwargs)")
    return out


def extract_spec(fn, name, self_name, skip, extra_free=()):
    sp = Spec(name)
    sp.params = _params(fn, skip)
    w = _Walker(sp, {n for n, _ in sp.params} | set(extra_free), self_name)
    w.done = False
    for st in fn.body:
        if w.done:
            raise Untranslatable("statements after the constructor call")
        w.stmt(st)
    if not w.done:
        raise Untranslatable("no constructor call found")
    return sp


def extract_from_polygon(fn):
    checks = []
    passthrough = False
    for st in fn.body:
        if _is_doc(st):
            continue
        if isinstance(st, ast.If) and _raises(st.body, "ValueError") and not st.orelse:
            t = st.test
            flag = True                      # raise when the predicate is True
            if isinstance(t, ast.UnaryOp) and isinstance(t.op, ast.Not):
                flag, t = False, t.operand
            src = ast.unparse(t)
            if src in ("cross_section.is_simple", "cross_section.is_valid", "cross_section.is_empty"):
                checks.append((src.split(".")[1], flag))
                continue
            if src == "len(cross_section.interiors) > 0":
                checks.append(("has_interiors", flag))
                continue
            raise Untranslatable(f"from_polygon test {src}")
        if isinstance(st, ast.Return) and isinstance(st.value, ast.Call) and ast.unparse(st.value.func) == "cls":
            kw = {k.arg: ast.unparse(k.value) for k in st.value.keywords}
            if kw != {"cross_section": "cross_section", "classifiers": "set(classifiers)", None: "kwargs"}:
                raise Untranslatable(f"from_polygon constructor call {kw}")
            passthrough = True
            continue
        raise Untranslatable(f"from_polygon statement {ast.unparse(st)[:80]}")
    if not passthrough:
        raise Untranslatable("from_polygon does not return cls(cross_section=cross_section, …)")
    return checks


def extract_forward(fn, cls_name):
    """`return XProfile(p1, p2, …, **kwargs)` with the method's own parameters in order"""
    body = [s for s in fn.body if not _is_doc(s)]
    names = [x.arg for x in fn.args.args][1:]
    if len(body) == 1 and isinstance(body[0], ast.Return) and isinstance(body[0].value, ast.Call):
        c = body[0].value
        if ast.unparse(c.func) == cls_name and [ast.unparse(a) for a in c.args] == names \
                and [(k.arg, ast.unparse(k.value)) for k in c.keywords] == [(None, "kwargs")]:
            return names
    raise Untranslatable(f"Profile.{fn.name} does not forward its parameters to {cls_name}")


def extract_init(fn):
    body = [ast.unparse(s) for s in fn.body if not _is_doc(s)]
    if body != ["self.t = 0", "self.__dict__.update(kwargs)", "super().__init__()"]:
        raise Untranslatable(f"Profile.__init__ body {body}")
    return [("t", 0)]


def extract_all(repo=None):
    path = os.path.join(repo or REPO, SRC)
    tree = ast.parse(open(path).read())
    classes = {n.name: n for n in tree.body if isinstance(n, ast.ClassDef)}
    funcs = {n.name: n for n in tree.body if isinstance(n, ast.FunctionDef)}
    res = {"specs": {}, "gaps": [], "forwards": {}, "from_polygon": None, "from_groove": None, "init": None,
           "refine": None}

    def meth(cls, name):
        for n in classes[cls].body:
            if isinstance(n, ast.FunctionDef) and n.name == name:
                return n
        raise Untranslatable(f"{cls}.{name} not found")

    for name, cls in CLASSES:
        try:
            if cls not in classes:
                raise Untranslatable(f"class {cls} not found")
            res["specs"][name] = extract_spec(meth(cls, "__init__"), name, "self", 1)
            res["forwards"][name] = extract_forward(meth("Profile", name), cls)
            if [n for n, _ in res["specs"][name].params] != res["forwards"][name]:
                raise Untranslatable(f"Profile.{name} and {cls}.__init__ take different parameters")
        except Untranslatable as ex:
            res["gaps"].append(f"{name}: {ex}")
    for key, fn, ex_fn in (("from_groove", "from_groove", lambda f: extract_spec(f, "from_groove", None, 2)),
                           ("from_polygon", "from_polygon", extract_from_polygon),
                           ("init", "__init__", extract_init)):
        try:
            res[key] = ex_fn(meth("Profile", fn))
        except Untranslatable as ex:
            res["gaps"].append(f"{key}: {ex}")
    # refine_cross_section: must only segmentize (adds collinear vertices) or return its argument
    try:
        body = [ast.unparse(s) for s in funcs["refine_cross_section"].body if not _is_doc(s)]
        if body != ["if Config.PROFILE_CONTOUR_REFINEMENT < 1:\n    return cross_section",
                    "return cross_section.segmentize(cross_section.boundary.length / Config.PROFILE_CONTOUR_REFINEMENT)"]:
            raise Untranslatable(f"refine_cross_section body changed: {body}")
        res["refine"] = True
    except (KeyError, Untranslatable) as ex:
        res["gaps"].append(f"refine_cross_section: {ex}")
    return res


# ---- Lean emission ---------------------------------------------------------------------------------------

def _strs(xs):
    return "[" + ", ".join(lean_str(x) for x in xs) + "]"


def _check(c):
    return f"{{ lhs := {lean_expr(c[0])}, op := .{c[1]}, rhs := {lean_expr(c[2])} }}"


def _checks(cs, ind):
    if not cs:
        return "[]"
    return "[\n" + ",\n".join(" " * ind + _check(c) for c in cs) + "]"


def lean_spec(sp, ind=4):
    pad = " " * ind
    groups = []
    for g in sp.groups:
        arms = []
        for (given, absent, assigns) in g:
            a = ", ".join(f"({lean_str(n)}, {lean_expr(e)})" for n, e in assigns)
            arms.append(f"{pad}    {{ given := {_strs(given)}, absent := {_strs(absent)},\n{pad}      assigns := [{a}] }}")
        groups.append("[\n" + ",\n".join(arms) + "]")
    verts = ",\n".join(f"{pad}  ({lean_expr(x)}, {lean_expr(y)})" for x, y in sp.vertices)
    attrs = ", ".join(f"({lean_str(n)}, {lean_expr(e)})" for n, e in sp.attrs)
    return ("{ name := %s,\n%sgroups := [%s],\n%srejectIf := %s,\n%srequire := %s,\n%svertices := [%s],\n%sbuffer := %s,\n"
            "%sattrs := [%s],\n%sclassifiers := %s }"
            % (lean_str(sp.name), pad, (",\n" + pad + "  ").join(groups), pad, _checks(sp.reject_if, ind + 2), pad,
               _checks(sp.require, ind + 2), pad, ("\n" + verts) if verts else "", pad, lean_expr(sp.buffer), pad, attrs, pad,
               _strs(sp.classifiers)))


def emit(ctx, repo=None):
    res = extract_all(repo)
    for g in res["gaps"]:
        ctx.tie_breaks.append("C15 translator: " + g)
    L = ["import PyrollModel.Factory",
         "/- GENERATED by driver/translate/c15_factories.py from pyroll/core/profile/profile.py - do not edit.",
         "   One `Factory.Spec` per profile factory: argument-resolution chains, range checks, core-polygon vertices (already",
         "   shrunk by the corner radius), buffer distance, remembered attributes, classifiers. -/",
         "namespace Gen.C15", ""]
    names = []
    for name, cls in CLASSES:
        sp = res["specs"].get(name)
        if sp is None:
            continue
        ps = ", ".join(f"{n}={d}" for n, d in sp.params)
        L.append(f"/-- `{cls}.__init__({ps}, **kwargs)`; kwargs forwarded: {sp.kwargs_forwarded}; refined: {sp.refined} -/")
        L.append(f"def {name}_spec : Factory.Spec :=\n  {lean_spec(sp)}")
        L.append("")
        names.append(name)
    L.append("def all : List Factory.Spec := [" + ", ".join(n + "_spec" for n in names) + "]")
    L.append("")
    L.append("/-- parameters of each factory in positional order with their default: `none` = required, `some \"None\"` = alternative -/")
    rows = []
    for name in names:
        sp = res["specs"][name]
        ps = ", ".join("(%s, %s)" % (lean_str(n), "none" if d == "required" else
                                      ("some \"None\"" if d == "optional" else f"some {lean_str(repr(d))}")) for n, d in sp.params)
        rows.append(f"  ({lean_str(name)}, [{ps}])")
    L.append("def signatures : List (String × List (String × Option String)) := [\n" + ",\n".join(rows) + "]")
    L.append("")
    L.append("/-- `Profile.<name>(…)` forwards exactly these parameters positionally, and `**kwargs`, to the class -/")
    L.append("def forwards : List (String × List String) := [" + ", ".join(
        f"({lean_str(n)}, {_strs(v)})" for n, v in res["forwards"].items()) + "]")
    L.append("def kwargsForwarded : List (String × Bool) := [" + ", ".join(
        f"({lean_str(n)}, {'true' if res['specs'][n].kwargs_forwarded else 'false'})" for n in names) + "]")
    L.append("")
    fg = res["from_groove"]
    if fg is not None:
        if fg.yoff is None or fg.clip is None or not fg.half_turn:
            ctx.tie_breaks.append("C15 translator: from_groove: translate/rotate/clip_by_rect pipeline not recognised")
        else:
            L.append("/-- `Profile.from_groove(groove, width=None, filling=None, height=None, gap=None, **kwargs)`: upper contour = "
                     "`translate(groove.contour_line, yoff)`,\n    lower = its half turn about the origin, clipped to "
                     "`[clipLo, clipHi] × (-inf, inf)`; classifiers copied from the groove -/")
            L.append("def from_groove_spec : Factory.Spec :=\n  " + lean_spec(fg) + "\n")
            L.append("def from_groove : Factory.GrooveSpec :=\n  { spec := from_groove_spec,\n"
                     f"    warnIf := {_checks(fg.warn_if, 6)},\n    yoff := {lean_expr(fg.yoff)},\n"
                     f"    lateReject := {_checks(fg.late_reject, 6)},\n    clipLo := {lean_expr(fg.clip[0])},\n"
                     f"    clipHi := {lean_expr(fg.clip[1])},\n"
                     f"    validityChecked := {'true' if fg.validity_checked else 'false'} }}")
            L.append("")
    if res["from_polygon"] is not None:
        L.append("/-- `Profile.from_polygon`: tests in source order, (predicate, value on which ValueError is raised); the polygon is "
                 "handed to the constructor unchanged -/")
        L.append("def from_polygon_checks : List (String × Bool) := [" + ", ".join(
            f"({lean_str(n)}, {'true' if f else 'false'})" for n, f in res["from_polygon"]) + "]")
        L.append("")
    if res["init"] is not None:
        L.append("/-- `Profile.__init__(**kwargs)`: presets assigned before `self.__dict__.update(kwargs)` -/")
        L.append("def init_presets : List (String × Nat) := [" + ", ".join(
            f"({lean_str(n)}, {v})" for n, v in res["init"]) + "]")
        L.append("")
    L.append("end Gen.C15")
    pyexpr.write_if_changed(os.path.join(LEAN_DIR, "PyrollModel", "Gen", "C15.lean"), "\n".join(L) + "\n")
    return res
