"""(T) for C03: the LOOKUP ORDER of `create_groove_by_type_name` (pyroll/core/grooves/__init__.py)
-> lean/PyrollModel/Gen/C03Factory.lean (`steps : List FStep`, interpreted by `GrooveWF.runSteps`,
lean/PyrollModel/GrooveWFFactory.lean).

WHICH name is looked up (regex, title(), suffix) is read by `c03_validate.extract_factory` into `Gen.C03.factory`; here the
statement list of the function is read, statement by statement, against a whitelist of AST shapes (`N` = the function's first
parameter, `K` = its `**` parameter, `C` = the candidate variable, `M`/`L` = loop variables, `S` a string literal):

    import …                                                                     (skipped: `re`, `sys`)
    C = getattr(sys.modules[__name__], N, None)                                  -> getPkg
    if isinstance(C, type) and issubclass(C, GrooveBase): return C(**K)          -> returnIfGroove
    N = re.sub(<literal>, <lambda>, N.title() | N);  N = N if N.endswith(S) else N + S     -> normalise (the pair, in this order)
    C = None                                                                     -> clear
    [if not C:] for M in [reversed]([list](sys.modules.values())): <loop body>   -> scan guarded rev grooveOnly keep
         loop body   C = getattr(M, N, None); if C: break                                     (any truthy attribute, keep = false)
                     L = getattr(M, N, None); if L: C = L; break                              (any truthy attribute, keep = true)
                     L = getattr(M, N, None); if isinstance(L, type) and issubclass(L, GrooveBase): C = L; break   (groove classes only)
                     (the last form also with L = C: keep = false)
    if not C: raise ValueError(…)                                                -> raiseIfNone
    return C(**K)                                                                -> returnCand

Anything else is reported as a gap (-> ctx.tie_breaks) and ends the translated list at that statement.  The generated list is
executed against the real function by the harness on every run (worlds of stub modules, `lookup` op of the model driver).
"""
import ast
import os

from . import pyexpr
from ..core import LEAN_DIR, REPO

SRC = os.path.join("pyroll", "core", "grooves", "__init__.py")
FUNCTION = "create_groove_by_type_name"


def _dump(src):
    t = ast.parse(src).body[0]
    return ast.dump(t.value if isinstance(t, ast.Expr) else t)


def _is(node, src):
    return ast.dump(node) == _dump(src)


def _name(node, name):
    return isinstance(node, ast.Name) and node.id == name


def _groove_test(node, var):
    return _is(node, f"isinstance({var}, type) and issubclass({var}, GrooveBase)")


def _scan(loop, N, C, guarded, gaps):
    """`for M in …: …` -> ("scan", guarded, rev, grooveOnly, keep) | None"""
    if not (isinstance(loop, ast.For) and isinstance(loop.target, ast.Name) and not loop.orelse):
        return None
    M = loop.target.id
    it = ast.unparse(loop.iter).replace(" ", "")
    orders = {"reversed(sys.modules.values())": True, "reversed(list(sys.modules.values()))": True,
              "sys.modules.values()": False, "list(sys.modules.values())": False}
    if it not in orders:
        gaps.append(f"factory lookup: loop over `{ast.unparse(loop.iter)}` outside the subset")
        return None
    rev = orders[it]
    body = loop.body
    if len(body) != 2 or not (isinstance(body[0], ast.Assign) and len(body[0].targets) == 1
                              and isinstance(body[0].targets[0], ast.Name) and isinstance(body[1], ast.If)) or body[1].orelse:
        return None
    L = body[0].targets[0].id
    if not _is(body[0].value, f"getattr({M}, {N}, None)"):
        return None
    test, then = body[1].test, body[1].body
    if _is(test, L):
        groove_only = False
    elif _groove_test(test, L):
        groove_only = True
    else:
        return None
    if L == C and len(then) == 1 and isinstance(then[0], ast.Break):
        return ("scan", guarded, rev, groove_only, False)
    if L != C and len(then) == 2 and _is(then[0], f"{C} = {L}") and isinstance(then[1], ast.Break):
        return ("scan", guarded, rev, groove_only, True)
    return None


def extract_steps(repo=None, gaps=None):
    """-> list of steps (tuples), in statement order"""
    gaps = gaps if gaps is not None else []
    tree = ast.parse(open(os.path.join(repo or REPO, SRC)).read())
    fn = next((n for n in tree.body if isinstance(n, ast.FunctionDef) and n.name == FUNCTION), None)
    if fn is None:
        gaps.append(f"factory lookup: {FUNCTION} not found")
        return []
    if not fn.args.args or fn.args.kwarg is None or fn.args.vararg is not None or len(fn.args.args) != 1 or fn.args.kwonlyargs:
        gaps.append(f"factory lookup: signature `{ast.unparse(fn.args)}` is not (type_name, **kwargs)")
        return []
    N, K = fn.args.args[0].arg, fn.args.kwarg.arg
    body = list(fn.body)
    if body and isinstance(body[0], ast.Expr) and isinstance(body[0].value, ast.Constant) and isinstance(body[0].value.value, str):
        body = body[1:]                                      # docstring
    # the candidate variable: target of the first `… = getattr(…)` / `… = None` at statement level
    C = next((st.targets[0].id for st in body if isinstance(st, ast.Assign) and len(st.targets) == 1
              and isinstance(st.targets[0], ast.Name) and st.targets[0].id != N), None)
    if C is None:
        gaps.append("factory lookup: no candidate variable found")
        return []
    steps = []
    i = 0
    while i < len(body):
        st = body[i]
        nxt = body[i + 1] if i + 1 < len(body) else None
        step = None
        if isinstance(st, (ast.Import, ast.ImportFrom)):
            names = [a.name for a in st.names]
            if isinstance(st, ast.Import) and all(n in ("re", "sys") for n in names):
                i += 1
                continue
        elif _is(st, f"{C} = getattr(sys.modules[__name__], {N}, None)"):
            step = ("getPkg",)
        elif isinstance(st, ast.If) and not st.orelse and _groove_test(st.test, C) and len(st.body) == 1 \
                and _is(st.body[0], f"return {C}(**{K})"):
            step = ("returnIfGroove",)
        elif _is(st, f"{C} = None"):
            step = ("clear",)
        elif isinstance(st, ast.Assign) and len(st.targets) == 1 and _name(st.targets[0], N) and isinstance(st.value, ast.Call) \
                and pyexpr.attr_path(st.value.func) == ["re", "sub"] and len(st.value.args) == 3 and not st.value.keywords \
                and (_is(st.value.args[2], f"{N}.title()") or _is(st.value.args[2], N)) \
                and nxt is not None and isinstance(nxt, ast.Assign) and len(nxt.targets) == 1 and _name(nxt.targets[0], N) \
                and isinstance(nxt.value, ast.IfExp) and isinstance(nxt.value.test, ast.Call) and len(nxt.value.test.args) == 1 \
                and isinstance(nxt.value.test.args[0], ast.Constant) and isinstance(nxt.value.test.args[0].value, str) \
                and _is(nxt.value, f"{N} if {N}.endswith({nxt.value.test.args[0].value!r}) else {N} + {nxt.value.test.args[0].value!r}"):
            step = ("normalise",)
            i += 1                                           # the pair
        elif isinstance(st, ast.If) and not st.orelse and _is(st.test, f"not {C}") and len(st.body) == 1 \
                and isinstance(st.body[0], ast.For):
            step = _scan(st.body[0], N, C, True, gaps)
        elif isinstance(st, ast.For):
            step = _scan(st, N, C, False, gaps)
        elif isinstance(st, ast.If) and not st.orelse and _is(st.test, f"not {C}") and len(st.body) == 1 \
                and isinstance(st.body[0], ast.Raise) and isinstance(st.body[0].exc, ast.Call) \
                and _is(st.body[0].exc.func, "ValueError"):
            step = ("raiseIfNone",)
        elif _is(st, f"return {C}(**{K})"):
            step = ("returnCand",)
        if step is None:
            gaps.append(f"factory lookup: statement `{ast.unparse(st).splitlines()[0][:90]}` (line {st.lineno}) outside the subset")
            break
        steps.append(step)
        i += 1
    return steps


def lean_step(s):
    if s[0] == "scan":
        return "(.scan " + " ".join(str(bool(b)).lower() for b in s[1:]) + ")"
    return "." + s[0]


def emit(ctx, pid="C03", repo=None):
    gaps = []
    steps = extract_steps(repo, gaps)
    for g in gaps:
        ctx.tie_breaks.append("translator: " + g)
    L = ["import PyrollModel.GrooveWFFactory",
         "/- GENERATED by driver/translate/c03_factory.py from `create_groove_by_type_name` "
         "(pyroll/core/grooves/__init__.py) - do not edit. -/",
         f"namespace Gen.{pid}Factory", "open GrooveWF", "",
         "/-- the statement list of `create_groove_by_type_name`, in source order -/",
         "def steps : List FStep := [" + ", ".join(lean_step(s) for s in steps) + "]", "",
         f"end Gen.{pid}Factory"]
    changed = pyexpr.write_if_changed(os.path.join(LEAN_DIR, "PyrollModel", "Gen", f"{pid}Factory.lean"), "\n".join(L) + "\n")
    ctx.notes.setdefault("generated", {})[f"Gen/{pid}Factory.lean"] = {"steps": len(steps), "rewritten": changed}
    return steps
