"""(T) for C06: who re-evaluates which hook cache between the iterations of `Unit.solve`.

The disk elements of a roll pass take their length from a HELPER object of the pass (`roll_pass.roll.contact_length`, the
working roll); what they read is the roll's hook cache.  That they add up to the pass' length - also when the same pass
object is solved again for another billet - rests on `self.reevaluate_cache()` in the loop of `Unit.solve` reaching the
roll.  Which statements that call executes is decided by the class hierarchy (`super()` chains along the C3 MRO), so this
module reads, by AST pattern (whitelisted shapes; anything else is a `<missing>` marker and a tie break):

  every class of pyroll/core/**.py (module level and nested; bases resolved through the module's imports and the
  enclosing class bodies)                                       -> (qualified name, bases)
  every `def reevaluate_cache(self)` of these classes           -> its statements, normalised:
        `super().reevaluate_cache()`                               "super"
        `self.<attr>.reevaluate_cache()`                           "refresh:<attr>"
        `self.<attr> = None`                                       "reset:<attr>"      (a private memo is dropped)
        the loop of `HookHost.reevaluate_cache` (every cached name gets the result of its hook again)   "own"
  the C3 linearisation of every class derived from `HookHost`   -> `mros` (computed here from the bases read from the
                                                                   source; compared with `cls.__mro__` at run time, K)
  the helper objects the translated formulas read through the unit (`roll_pass.<attr>.<hook>` with <attr> not a
  profile)                                                      -> `helperReads` (formula, attr, hook)
  the class of such a helper (`self.<attr> = self.<Cls>(…)` in an `__init__` of the unit classes)  -> `helperClass`

`lean/PyrollModel/Refresh.lean` executes these lists (`effects`: what one call of `reevaluate_cache` on an object of a
class does, in order); `PyrollProps/C06.lean` proves `refresh_certificate` about them by `decide`.
"""
import ast
import os

from .pyexpr import Untranslatable, attr_path, lean_str, expr_vars

ROOT = "HookHost"


def _modules(repo):
    base = os.path.join(repo, "pyroll", "core")
    for d, _, files in sorted(os.walk(base)):
        for f in sorted(files):
            if f.endswith(".py"):
                path = os.path.join(d, f)
                yield os.path.relpath(path, base), path


def _own_loop(st):
    """for N in list(self.__cache__.keys()): HOOK = getattr(type(self), N); self.__cache__[N] = HOOK.get_result(self)"""
    if not (isinstance(st, ast.For) and not st.orelse and isinstance(st.target, ast.Name) and len(st.body) == 2):
        return False
    if ast.unparse(st.iter) not in ("list(self.__cache__.keys())", "list(self.__cache__)", "tuple(self.__cache__)",
                                    "tuple(self.__cache__.keys())"):
        return False
    n = st.target.id
    a, b = st.body
    if not (isinstance(a, ast.Assign) and len(a.targets) == 1 and isinstance(a.targets[0], ast.Name)):
        return False
    h = a.targets[0].id
    return ast.unparse(a.value) == f"getattr(type(self), {n})" and ast.unparse(b) == f"self.__cache__[{n}] = {h}.get_result(self)"


def _reeval_stmt(st, fn_name):
    if isinstance(st, ast.Expr) and isinstance(st.value, ast.Call) and not st.value.args and not st.value.keywords:
        f = st.value.func
        if isinstance(f, ast.Attribute) and f.attr == fn_name:
            if isinstance(f.value, ast.Call) and isinstance(f.value.func, ast.Name) and f.value.func.id == "super" \
                    and not f.value.args:
                return "super"
            p = attr_path(f.value)
            if p is not None and len(p) >= 2 and p[0] == "self":
                return "refresh:" + ".".join(p[1:])
    if isinstance(st, ast.Assign) and len(st.targets) == 1 and isinstance(st.value, ast.Constant) and st.value.value is None:
        p = attr_path(st.targets[0])
        if p is not None and len(p) >= 2 and p[0] == "self":
            return "reset:" + ".".join(p[1:])
    if _own_loop(st):
        return "own"
    raise Untranslatable("statement of reevaluate_cache: " + ast.unparse(st)[:80])


def class_table(repo, gaps):
    """{qualified name: {"bases": [...], "reeval": [...] | None, "file": rel, "helpers": {attr: class attribute name}}}"""
    raw = []          # (rel, qualname, ClassDef, enclosing qualname | None, local scope names at module level)
    tops = {}
    for rel, path in _modules(repo):
        tree = ast.parse(open(path).read())
        alias = {}
        for st in tree.body:
            if isinstance(st, ast.ImportFrom):
                for a in st.names:
                    alias[a.asname or a.name] = a.name

        def visit(body, outer):
            for st in body:
                if isinstance(st, ast.ClassDef):
                    q = st.name if outer is None else outer + "." + st.name
                    raw.append((rel, q, st, outer, alias))
                    if outer is None:
                        tops.setdefault(st.name, []).append(rel)
                    visit(st.body, q)
        visit(tree.body, None)
    names = {q for (_, q, _, _, _) in raw}
    table = {}
    for rel, q, node, outer, alias in raw:
        def resolve(b):
            p = attr_path(b)
            if p is None:
                return "ext:" + ast.unparse(b)[:40]
            # a bare name inside a class body: a nested class of the enclosing classes first
            scope = outer
            while scope is not None:
                cand = scope + "." + ".".join(p)
                if cand in names and cand != q:
                    return cand
                scope = scope.rsplit(".", 1)[0] if "." in scope else None
            head = alias.get(p[0], p[0])
            cand = ".".join([head] + p[1:])
            if cand in names:
                if len(tops.get(head, [])) > 1:
                    raise Untranslatable(f"class name {head} is defined in several modules: {tops[head]}")
                return cand
            return "ext:" + ".".join(p)
        try:
            bases = [resolve(b) for b in node.bases]
        except Untranslatable as ex:
            gaps.append(f"{q}: {ex}")
            bases = ["<missing>"]
        reeval = None
        helpers = {}
        for st in node.body:
            if isinstance(st, ast.FunctionDef) and st.name == "reevaluate_cache":
                body = [s for s in st.body if not (isinstance(s, ast.Expr) and isinstance(s.value, ast.Constant))]
                try:
                    if len(st.args.args) != 1 or st.decorator_list:
                        raise Untranslatable("signature of reevaluate_cache")
                    reeval = [_reeval_stmt(s, "reevaluate_cache") for s in body]
                except Untranslatable as ex:
                    gaps.append(f"{q}.reevaluate_cache ({rel}): {ex}")
                    reeval = ["<missing>"]
            if isinstance(st, ast.FunctionDef) and st.name == "__init__":
                for s in ast.walk(st):
                    # self.<attr> = self.<Cls>(…): a helper object made from a class attribute of the unit
                    if isinstance(s, ast.Assign) and len(s.targets) == 1 and isinstance(s.value, ast.Call):
                        t, f = attr_path(s.targets[0]), attr_path(s.value.func)
                        if t and f and len(t) == 2 and len(f) == 2 and t[0] == "self" and f[0] == "self" and f[1][:1].isupper():
                            helpers[t[1]] = f[1]
        if q in table:
            gaps.append(f"class {q} is defined twice ({table[q]['file']}, {rel})")
        table[q] = {"bases": bases, "reeval": reeval, "file": rel, "helpers": helpers}
    return table


def c3(table, q, seen=()):
    """C3 linearisation over the table; external bases (ABC, Generic, …) are leaves without bases"""
    if q in seen:
        raise Untranslatable("inheritance cycle at " + q)
    bases = table[q]["bases"] if q in table else []
    seqs = [c3(table, b, seen + (q,)) for b in bases] + [list(bases)]
    out = [q]
    seqs = [list(s) for s in seqs if s]
    while seqs:
        for s in seqs:
            head = s[0]
            if not any(head in t[1:] for t in seqs):
                break
        else:
            raise Untranslatable("no C3 linearisation for " + q)
        out.append(head)
        seqs = [[x for x in s if x != head] for s in seqs]
        seqs = [s for s in seqs if s]
    return out


def refresh_skeleton(repo, gaps, formulas=None):
    """-> dict(bodies=[(class, [stmt])], mros=[(class, [class…])] of every class derived from HookHost (externals dropped),
    helper_reads=[(formula, attr, hook)], helper_class=[(unit class, attr, class of the helper)])"""
    table = class_table(repo, gaps)
    if ROOT not in table:
        raise Untranslatable(f"class {ROOT} not found")
    mros = []
    for q in sorted(table):
        try:
            m = c3(table, q)
        except Untranslatable as ex:
            gaps.append(str(ex))
            continue
        if ROOT in m:
            mros.append((q, [c for c in m if not c.startswith("ext:")]))
    derived = {q for q, _ in mros}
    bodies = [(q, table[q]["reeval"]) for q in sorted(table) if table[q]["reeval"] is not None and q in derived]
    mro_of = dict(mros)
    helper_class = []
    for q, m in mros:
        # the class attribute a helper is made from, looked up along the MRO like python does: `self.Roll` on a TwoRollPass
        # is TwoRollPass.Roll
        for c in m:
            for attr, cls_attr in sorted(table[c]["helpers"].items()):
                if any(a == attr for (qq, a, _) in helper_class if qq == q):
                    continue
                found = next((k + "." + cls_attr for k in m if k + "." + cls_attr in table), None)
                if found is not None:
                    helper_class.append((q, attr, found))
    helper_reads = []
    for name, impl in sorted((formulas or {}).items()):
        for (g, e, kind) in impl.alts:
            if kind != "expr":
                continue
            for v in sorted(set(expr_vars(e))):
                seg = v.split(".")
                # `roll_pass.<attr>.<hook>`: a value read THROUGH the unit on another object of it (not a profile)
                if len(seg) >= 3 and seg[0] in ("roll_pass", "parent", "unit") and seg[1] not in ("in_profile", "out_profile"):
                    helper_reads.append((name, seg[1], ".".join(seg[2:])))
    return {"bodies": bodies, "mros": mros, "helper_reads": helper_reads, "helper_class": helper_class,
            "mro_of": mro_of, "table": table}


def emit(repo, tie_breaks, formulas=None):
    gaps = []
    try:
        sk = refresh_skeleton(repo, gaps, formulas)
    except Untranslatable as ex:
        gaps.append(str(ex))
        sk = {"bodies": [("<missing>", ["<missing>"])], "mros": [], "helper_reads": [], "helper_class": [], "mro_of": {},
              "table": {}}
    for g in gaps:
        tie_breaks.append("translator: cache re-evaluation skeleton: " + g)

    def strs(xs):
        return "[" + ", ".join(lean_str(x) for x in xs) + "]"

    def stmts(xs):
        return "[" + ", ".join("(%s, %s)" % tuple(lean_str(y) for y in (x.split(":", 1) + [""])[:2]) for x in xs) + "]"
    # the linearisations that matter here: the unit classes and the classes of their helper objects
    wanted = {q for q, m in sk["mros"] if "Unit" in m} | {c for (_, _, c) in sk["helper_class"]}
    emitted = [(q, m) for q, m in sk["mros"] if q in wanted]
    sk["emitted_mros"] = emitted
    out = ["/-- `def reevaluate_cache(self)` of every class derived from `HookHost` that has one: normalised statements "
           "(kind, attribute): `super`; `refresh` = `self.<attr>.reevaluate_cache()`; `reset` = `self.<attr> = None`; `own` = the "
           "loop of `HookHost.reevaluate_cache` (every cached name gets the result of its hook again) -/",
           "def reevalBodies : List (String × List (String × String)) :=\n  [" +
           ",\n   ".join(f"({lean_str(q)}, {stmts(b)})" for q, b in sk["bodies"]) + "]",
           "/-- C3 linearisation (classes of pyroll/core only), from the bases written in the source, of every unit class and "
           "of the classes of their helper objects -/",
           "def mros : List (String × List String) :=\n  [" +
           ",\n   ".join(f"({lean_str(q)}, {strs(m)})" for q, m in emitted) + "]",
           "/-- values the translated formulas read through the unit on a helper object of it: (formula, attribute holding "
           "the helper, hook read on it) -/",
           "def helperReads : List (String × String × String) := [" +
           ", ".join(f"({lean_str(a)}, {lean_str(b)}, {lean_str(c)})" for a, b, c in sk["helper_reads"]) + "]",
           "/-- the class of such a helper (`self.<attr> = self.<Cls>(…)`, `<Cls>` looked up along the MRO): "
           "(unit class, attribute, helper class) -/",
           "def helperClass : List (String × String × String) :=\n  [" +
           ",\n   ".join(f"({lean_str(a)}, {lean_str(b)}, {lean_str(c)})" for a, b, c in sk["helper_class"]) + "]",
           ""]
    return "\n".join(out), sk
