"""(T) for C09: what pyexpr.py cannot read.

1. The placement of the roll contour in `TwoRollPass.contour_lines` / `ThreeRollPass.contour_lines`: a straight-line
   program over shapely's `translate`, `rotate(origin=(0, 0))`, `LineString(x.coords[::-1])`, ending in
   `MultiLineString([...])`.  Output: per returned line the list of affine operations (arguments as `Expr` tuples) applied
   to `self.roll.contour_line`, and the hooks of `self` that are read on the way (`self.gap`).
2. Hook implementations that measure a clipped line (`name = clip_by_rect(src, xmin, -math.inf, xmax, math.inf)` followed
   by arithmetic on `name.bounds[k]`): `height3`.  Output: the guarded alternatives like pyexpr's, with the variable
   `"<fn>:<name>.bounds[k]"` standing for the measured coordinate, plus the clip specifications.

3. Hook implementations that hand the opening to a helper (`return helpers.out_cross_section(self, self.usable_width)`):
   `usable_cross_section`, `usable_cross_section3`, and the helpers themselves (`Polygon(np.concatenate([cl.coords for cl in
   rp.contour_lines.geoms]))`, `clip_by_rect(poly, a, b, c, d)`, `rotate(poly, angle=, origin=(0, 0))`, `for _ in range(N)`,
   `remove_repeated_points(poly, tolerance=<= 1e-9 * poly.length)`, `return refine_cross_section(poly)`).  Output: the term
   the caller hands over for EVERY parameter of the helper (an omitted argument is replaced by the parameter's default:
   a translatable default expression, or `None` with the idiom `if p is None: p = <term>` at the top of the helper) and the
   helper's steps with loops unrolled, over the parameter variables `"<helper>:<parameter>"`.

AST node types are whitelisted; anything else raises `Untranslatable` (recorded by the caller as a tie break).
"""
import ast
import os

from . import pyexpr
from .pyexpr import Untranslatable, ExprTranslator

SRC_ROLL = ("roll",)


def _is_self_attr(n, *path):
    p = pyexpr.attr_path(n)
    return p is not None and p == ["self"] + list(path)


def _shapely_names(tree):
    """names bound by `from shapely... import translate, rotate, LineString, MultiLineString, clip_by_rect`"""
    names = {}
    for node in tree.body:
        if isinstance(node, ast.ImportFrom) and node.module and node.module.split(".")[0] == "shapely":
            for a in node.names:
                names[a.asname or a.name] = a.name
    return names


class Placement:
    def __init__(self):
        self.lines = []      # [(python variable name, [op, ...])]  op = ("translate", ex, ey) | ("rotate", e) | ("reverse",)
        self.reads = []      # hooks of self read while building (variables without a dot), in order of occurrence
        self.lineno = 0


def extract_contour_lines(path, class_name):
    src = open(path).read()
    tree = ast.parse(src)
    shp = _shapely_names(tree)
    cls = next((n for n in tree.body if isinstance(n, ast.ClassDef) and n.name == class_name), None)
    if cls is None:
        raise Untranslatable(f"class {class_name} not found")
    fn = next((n for n in cls.body if isinstance(n, ast.FunctionDef) and n.name == "contour_lines"), None)
    if fn is None:
        raise Untranslatable(f"{class_name}.contour_lines not found")
    if not any(isinstance(d, ast.Name) and d.id == "property" for d in fn.decorator_list):
        raise Untranslatable("contour_lines is not a property")
    out = Placement()
    out.lineno = fn.lineno
    geoms = {}      # python name -> op list
    locals_ = {}
    result = None

    def src_ops(n):
        if _is_self_attr(n, "roll", "contour_line"):
            return []
        if isinstance(n, ast.Name) and n.id in geoms:
            return list(geoms[n.id])
        raise Untranslatable(f"geometry source {ast.unparse(n)}")

    def tr(n):
        return ExprTranslator("self", locals_).tr(n)

    def geom_call(call):
        f = call.func
        if not isinstance(f, ast.Name):
            raise Untranslatable(f"call {ast.unparse(f)}")
        real = shp.get(f.id)
        if real == "translate":
            if len(call.args) != 1:
                raise Untranslatable("translate with positional offsets")
            kw = {k.arg: k.value for k in call.keywords}
            if set(kw) - {"xoff", "yoff"}:
                raise Untranslatable("translate keyword " + ",".join(sorted(set(kw) - {"xoff", "yoff"})))
            ex = tr(kw["xoff"]) if "xoff" in kw else ("nat", 0)
            ey = tr(kw["yoff"]) if "yoff" in kw else ("nat", 0)
            return src_ops(call.args[0]) + [("translate", ex, ey)]
        if real == "rotate":
            kw = {k.arg: k.value for k in call.keywords}
            args = list(call.args)
            if len(args) == 2:
                kw["angle"] = args[1]
            elif len(args) != 1:
                raise Untranslatable("rotate arguments")
            if set(kw) != {"angle", "origin"}:
                raise Untranslatable("rotate needs exactly angle= and origin=")
            o = kw["origin"]
            if not (isinstance(o, ast.Tuple) and len(o.elts) == 2 and
                    all(isinstance(e, ast.Constant) and e.value == 0 and not isinstance(e.value, bool) for e in o.elts)):
                raise Untranslatable("rotate origin is not (0, 0)")
            return src_ops(args[0]) + [("rotate", tr(kw["angle"]))]
        if real == "LineString":
            # LineString(x.coords[::-1])
            if len(call.args) == 1 and not call.keywords and isinstance(call.args[0], ast.Subscript):
                sub = call.args[0]
                sl = sub.slice
                if isinstance(sub.value, ast.Attribute) and sub.value.attr == "coords" and isinstance(sl, ast.Slice) \
                        and sl.lower is None and sl.upper is None and isinstance(sl.step, ast.UnaryOp) \
                        and isinstance(sl.step.op, ast.USub) and isinstance(sl.step.operand, ast.Constant) \
                        and sl.step.operand.value == 1:
                    return src_ops(sub.value.value) + [("reverse",)]
            raise Untranslatable("LineString(...) other than coords[::-1]")
        raise Untranslatable(f"call {f.id}")

    for st in fn.body:
        if isinstance(st, ast.Expr) and isinstance(st.value, ast.Constant) and isinstance(st.value.value, str):
            continue
        # memoisation: if self._contour_lines: return self._contour_lines
        if isinstance(st, ast.If) and _is_self_attr(st.test, "_contour_lines") and not st.orelse and len(st.body) == 1 \
                and isinstance(st.body[0], ast.Return) and _is_self_attr(st.body[0].value, "_contour_lines"):
            continue
        if isinstance(st, ast.Assign) and len(st.targets) == 1:
            t = st.targets[0]
            if isinstance(t, ast.Name):
                if isinstance(st.value, ast.Call) and isinstance(st.value.func, ast.Name) and st.value.func.id in shp:
                    geoms[t.id] = geom_call(st.value)
                    locals_.pop(t.id, None)
                else:
                    locals_[t.id] = tr(st.value)
                    geoms.pop(t.id, None)
                continue
            if _is_self_attr(t, "_contour_lines"):
                v = st.value
                if isinstance(v, ast.Call) and isinstance(v.func, ast.Name) and shp.get(v.func.id) == "MultiLineString" \
                        and len(v.args) == 1 and isinstance(v.args[0], ast.List) and not v.keywords:
                    result = []
                    for e in v.args[0].elts:
                        if not (isinstance(e, ast.Name) and e.id in geoms):
                            raise Untranslatable("MultiLineString element " + ast.unparse(e))
                        result.append((e.id, list(geoms[e.id])))
                    continue
                raise Untranslatable("self._contour_lines = " + ast.unparse(v)[:80])
        if isinstance(st, ast.Return) and _is_self_attr(st.value, "_contour_lines") and result is not None:
            break
        raise Untranslatable(f"statement in contour_lines: {ast.unparse(st)[:80]}")
    else:
        raise Untranslatable("contour_lines does not return self._contour_lines")
    out.lines = result
    seen = []
    for (_, ops) in result:
        for op in ops:
            for e in op[1:]:
                for v in pyexpr.expr_vars(e):
                    if "." not in v and v not in seen:
                        seen.append(v)
    out.reads = seen
    return out


def lean_op(op):
    if op[0] == "translate":
        return f"(.translate {pyexpr.lean_expr(op[1])} {pyexpr.lean_expr(op[2])})"
    if op[0] == "rotate":
        return f"(.rotate {pyexpr.lean_expr(op[1])})"
    return ".reverse"


# ---- implementations measuring a clipped line -------------------------------------------------------------------

def _is_inf(n, sign):
    """`math.inf` / `-math.inf` / np.inf"""
    if sign < 0:
        return isinstance(n, ast.UnaryOp) and isinstance(n.op, ast.USub) and _is_inf(n.operand, 1)
    p = pyexpr.attr_path(n)
    return p in (["math", "inf"], ["np", "inf"], ["numpy", "inf"])


def extract_clip_impl(path, fn_name, module_name):
    """-> (HookImpl with alts filled, [clip specs]) ; clip spec = (var_prefix, src, xmin_expr, xmax_expr)
    src = ("roll",) | ("line", i)"""
    src = open(path).read()
    tree = ast.parse(src)
    shp = _shapely_names(tree)
    for node in tree.body:
        if isinstance(node, ast.FunctionDef) and node.name == fn_name:
            for dec in node.decorator_list:
                info = pyexpr._decorator_info(dec)
                if info is not None:
                    break
            else:
                continue
            break
    else:
        raise Untranslatable(f"{fn_name} not found")
    impl = pyexpr.HookImpl()
    impl.module = module_name
    impl.host, impl.hook, impl.tier, impl.wrapper = info
    impl.fn = fn_name
    impl.lineno = node.lineno
    impl.wants_cycle = any(a.arg == "cycle" for a in node.args.args)
    self_name = node.args.args[0].arg
    clips = []

    def clip_src(n):
        p = pyexpr.attr_path(n)
        if p == [self_name, "roll", "contour_line"]:
            return SRC_ROLL
        if p is not None and len(p) == 3 and p[0] == self_name and p[1] == "contour_lines" and p[2].startswith("geoms["):
            return ("line", int(p[2][6:-1]))
        raise Untranslatable("clip source " + ast.unparse(n))

    def block(stmts, guard, locals_):
        locals_ = dict(locals_)
        for st in stmts:
            if isinstance(st, ast.Expr) and isinstance(st.value, ast.Constant) and isinstance(st.value.value, str):
                continue
            if isinstance(st, ast.Assign) and len(st.targets) == 1 and isinstance(st.targets[0], ast.Name):
                name = st.targets[0].id
                v = st.value
                if isinstance(v, ast.Call) and isinstance(v.func, ast.Name) and shp.get(v.func.id) == "clip_by_rect":
                    if len(v.args) != 5 or v.keywords:
                        raise Untranslatable("clip_by_rect arguments")
                    if not (_is_inf(v.args[2], -1) and _is_inf(v.args[4], 1)):
                        raise Untranslatable("clip_by_rect window is bounded in y")
                    tr = ExprTranslator(self_name, locals_)
                    var = f"{fn_name}:{name}"
                    clips.append((var, clip_src(v.args[0]), tr.tr(v.args[1]), tr.tr(v.args[3])))
                    locals_[name] = ("var", var)
                    continue
                locals_[name] = ExprTranslator(self_name, locals_).tr(v)
                continue
            if isinstance(st, ast.Return):
                if st.value is None or (isinstance(st.value, ast.Constant) and st.value.value is None):
                    impl.alts.append((guard, None, "none"))
                else:
                    impl.alts.append((guard, ExprTranslator(self_name, locals_).tr(st.value), "expr"))
                return True
            if isinstance(st, ast.If) and not st.orelse:
                g = pyexpr.tr_guard(st.test, self_name, locals_)
                if g[0] == "opaque":
                    raise Untranslatable("guard " + g[1])
                g_and = g if guard == ("tt",) else ("and", guard, g)
                if not block(st.body, g_and, locals_):
                    raise Untranslatable("if without return")
                ng = ("not", g)
                guard = ng if guard == ("tt",) else ("and", guard, ng)
                continue
            raise Untranslatable(f"statement {type(st).__name__}: {ast.unparse(st)[:60]}")
        impl.alts.append((guard, None, "none"))
        return True

    block(node.body, ("tt",), {})
    return impl, clips


def lean_clip(c):
    var, src, lo, hi = c
    s = ".rollContour" if src == SRC_ROLL else f"(.passLine {src[1]})"
    return f"{{ name := {pyexpr.lean_str(var)}, src := {s}, xmin := {pyexpr.lean_expr(lo)}, xmax := {pyexpr.lean_expr(hi)} }}"


def clip_vars(impl, clips, base_index):
    """[(variable, clip index, k)] for the `.bounds[k]` variables the formulas of `impl` mention"""
    out = []
    for (g, e, kind) in impl.alts:
        if kind != "expr":
            continue
        for v in pyexpr.expr_vars(e):
            for ci, c in enumerate(clips):
                if v.startswith(c[0] + ".bounds[") and v.endswith("]"):
                    item = (v, base_index + ci, int(v[len(c[0]) + 8:-1]))
                    if item not in out:
                        out.append(item)
                    break
                elif v.startswith(c[0] + "."):
                    raise Untranslatable(f"clipped line used other than through .bounds[k]: {v}")
    return out


# ---- hook implementations handing the opening to a cross-section helper ------------------------------------------

class Helper:
    def __init__(self):
        self.fn = ""
        self.lineno = 0
        self.pass_name = "rp"
        self.params = []        # python names after the pass
        self.defaults = {}      # python name -> Expr tuple over the attribute paths of the pass (effective default)
        self.ops = []           # ("clip", xmin, ymin, xmax, ymax) with None = infinite | ("rotate", angle)


class HelperCall:
    def __init__(self):
        self.host = self.hook = self.fn = self.helper = self.helper_rel = ""
        self.lineno = 0
        self.positional = []    # Expr tuples after `self`
        self.keywords = {}      # name -> Expr tuple
        self.args = []          # filled by bind(): [(parameter variable, Expr tuple)]
        self.defaulted = []     # parameters whose value is the helper's default


def param_var(helper_fn, name):
    return f"{helper_fn}:{name}"


def _body(fn):
    return [st for st in fn.body
            if not (isinstance(st, ast.Expr) and isinstance(st.value, ast.Constant) and isinstance(st.value.value, str))]


def extract_helper_call(path, host, hook, rel):
    """the implementation registered on `<host>.<hook>` in `path` must be `return <helpers>.<fn>(self, <terms>...)`"""
    tree = ast.parse(open(path).read())
    found = []
    for node in tree.body:
        if isinstance(node, ast.FunctionDef):
            for dec in node.decorator_list:
                info = pyexpr._decorator_info(dec)
                if info is not None and info[0] == host and info[1] == hook:
                    found.append((node, info))
    if len(found) != 1:
        raise Untranslatable(f"{len(found)} implementations of {host}.{hook} in pyroll/core/{rel}")
    node, info = found[0]
    if info[2] != 1 or info[3]:
        raise Untranslatable(f"{node.name} is registered tryfirst/trylast/wrapper")
    if len(node.args.args) != 1 or node.args.vararg or node.args.kwarg or node.args.kwonlyargs:
        raise Untranslatable(f"{node.name} takes more than the pass")
    self_name = node.args.args[0].arg
    body = _body(node)
    if len(body) != 1 or not isinstance(body[0], ast.Return) or not isinstance(body[0].value, ast.Call):
        raise Untranslatable(f"{node.name} is not a single `return <helper>(self, ...)`")
    call = body[0].value
    # which function is called: `<module alias>.<fn>` with `from . import <module>` / `from .<module> import <fn>`
    mods, names = {}, {}
    for imp in tree.body:
        if isinstance(imp, ast.ImportFrom) and imp.level == 1:
            for a in imp.names:
                if imp.module is None:
                    mods[a.asname or a.name] = a.name
                else:
                    names[a.asname or a.name] = (imp.module, a.name)
    f = call.func
    if isinstance(f, ast.Attribute) and isinstance(f.value, ast.Name) and f.value.id in mods:
        module, fn = mods[f.value.id], f.attr
    elif isinstance(f, ast.Name) and f.id in names:
        module, fn = names[f.id]
    else:
        raise Untranslatable(f"{node.name} calls {ast.unparse(f)}, not a function of a sibling module")
    out = HelperCall()
    out.host, out.hook, out.fn, out.lineno = host, hook, node.name, node.lineno
    out.helper = fn
    out.helper_rel = os.path.join(os.path.dirname(rel), module.replace(".", "/") + ".py")
    if not call.args or not (isinstance(call.args[0], ast.Name) and call.args[0].id == self_name):
        raise Untranslatable(f"{node.name}: the first argument of {fn} is not the pass")
    if any(isinstance(a, ast.Starred) for a in call.args) or any(k.arg is None for k in call.keywords):
        raise Untranslatable(f"{node.name}: star arguments")
    tr = ExprTranslator(self_name, {})
    out.positional = [tr.tr(a) for a in call.args[1:]]
    out.keywords = {k.arg: tr.tr(k.value) for k in call.keywords}
    return out


def _is_none(n):
    return isinstance(n, ast.Constant) and n.value is None


def extract_helper(path, fn_name):
    tree = ast.parse(open(path).read())
    shp = _shapely_names(tree)
    imported = {}
    for imp in tree.body:
        if isinstance(imp, ast.ImportFrom):
            for a in imp.names:
                imported[a.asname or a.name] = a.name
    node = next((n for n in tree.body if isinstance(n, ast.FunctionDef) and n.name == fn_name), None)
    if node is None:
        raise Untranslatable(f"helper {fn_name} not found")
    if node.decorator_list:
        raise Untranslatable(f"helper {fn_name} is decorated")
    a = node.args
    if a.vararg or a.kwarg or a.kwonlyargs or a.posonlyargs or not a.args:
        raise Untranslatable(f"helper {fn_name}: parameter kinds")
    h = Helper()
    h.fn, h.lineno = fn_name, node.lineno
    h.pass_name = a.args[0].arg
    h.params = [x.arg for x in a.args[1:]]
    n_def = len(a.defaults)
    if n_def > len(h.params):
        raise Untranslatable(f"helper {fn_name}: the pass parameter has a default")
    none_default = set()
    for name, d in zip(h.params[len(h.params) - n_def:], a.defaults):
        if _is_none(d):
            none_default.add(name)
        else:
            try:
                h.defaults[name] = ExprTranslator(h.pass_name, {}).tr(d)
            except Untranslatable as ex:
                raise Untranslatable(f"helper {fn_name}: default of parameter {name}: {ex}")
    locals_ = {n: ("var", param_var(fn_name, n)) for n in h.params}
    body = _body(node)
    # `if p is None: p = <term>` at the top: the effective default of p
    while body and isinstance(body[0], ast.If):
        st = body[0]
        t = st.test
        ok = (isinstance(t, ast.Compare) and len(t.ops) == 1 and isinstance(t.ops[0], ast.Is) and isinstance(t.left, ast.Name)
              and _is_none(t.comparators[0]) and not st.orelse and len(st.body) == 1 and isinstance(st.body[0], ast.Assign)
              and len(st.body[0].targets) == 1 and isinstance(st.body[0].targets[0], ast.Name)
              and st.body[0].targets[0].id == t.left.id and t.left.id in none_default)
        if not ok:
            raise Untranslatable(f"helper {fn_name}: statement {ast.unparse(st)[:80]}")
        h.defaults[t.left.id] = ExprTranslator(h.pass_name, {}).tr(st.body[0].value)
        none_default.discard(t.left.id)
        body = body[1:]
    if none_default:
        raise Untranslatable(f"helper {fn_name}: parameter(s) {sorted(none_default)} default to None")
    poly = [None]

    def tr(n):
        return ExprTranslator(h.pass_name, locals_).tr(n)

    def bound(n, sign):
        return None if _is_inf(n, sign) else tr(n)

    def is_poly(n):
        return isinstance(n, ast.Name) and n.id == poly[0]

    def step(st, loop_var=None):
        if not (isinstance(st, ast.Assign) and len(st.targets) == 1 and is_poly(st.targets[0])
                and isinstance(st.value, ast.Call) and isinstance(st.value.func, ast.Name)):
            raise Untranslatable(f"helper {fn_name}: statement {ast.unparse(st)[:80]}")
        v = st.value
        if loop_var is not None and any(isinstance(x, ast.Name) and x.id == loop_var for x in ast.walk(v)):
            raise Untranslatable(f"helper {fn_name}: the loop variable is used")
        real = shp.get(v.func.id)
        if real == "clip_by_rect":
            if len(v.args) != 5 or v.keywords or not is_poly(v.args[0]):
                raise Untranslatable(f"helper {fn_name}: clip_by_rect arguments")
            return [("clip", bound(v.args[1], -1), bound(v.args[2], -1), bound(v.args[3], 1), bound(v.args[4], 1))]
        if real == "rotate":
            kw = {k.arg: k.value for k in v.keywords}
            if len(v.args) != 1 or not is_poly(v.args[0]) or set(kw) != {"angle", "origin"}:
                raise Untranslatable(f"helper {fn_name}: rotate needs the polygon, angle= and origin=")
            o = kw["origin"]
            if not (isinstance(o, ast.Tuple) and len(o.elts) == 2 and
                    all(isinstance(e, ast.Constant) and e.value == 0 and not isinstance(e.value, bool) for e in o.elts)):
                raise Untranslatable(f"helper {fn_name}: rotate origin is not (0, 0)")
            return [("rotate", tr(kw["angle"]))]
        if real == "remove_repeated_points":
            # merges vertices closer than the tolerance: below what any comparison of this check resolves when the tolerance
            # is at most 1e-9 of the polygon's own boundary length
            kw = {k.arg: k.value for k in v.keywords}
            t = kw.get("tolerance")
            ok = (len(v.args) == 1 and is_poly(v.args[0]) and set(kw) == {"tolerance"} and isinstance(t, ast.BinOp)
                  and isinstance(t.op, ast.Mult) and isinstance(t.left, ast.Constant) and isinstance(t.left.value, float)
                  and 0 <= t.left.value <= 1e-9 and pyexpr.attr_path(t.right) == [poly[0], "length"])
            if not ok:
                raise Untranslatable(f"helper {fn_name}: {ast.unparse(v)[:80]}")
            return []
        raise Untranslatable(f"helper {fn_name}: call {v.func.id}")

    if not body:
        raise Untranslatable(f"helper {fn_name}: empty")
    # poly = Polygon(np.concatenate([cl.coords for cl in rp.contour_lines.geoms]))
    st = body[0]
    ok = False
    if isinstance(st, ast.Assign) and len(st.targets) == 1 and isinstance(st.targets[0], ast.Name) \
            and isinstance(st.value, ast.Call) and isinstance(st.value.func, ast.Name) and shp.get(st.value.func.id) == "Polygon" \
            and len(st.value.args) == 1 and not st.value.keywords:
        c = st.value.args[0]
        if isinstance(c, ast.Call) and pyexpr.attr_path(c.func) in (["np", "concatenate"], ["numpy", "concatenate"]) \
                and len(c.args) == 1 and not c.keywords and isinstance(c.args[0], ast.ListComp):
            lc = c.args[0]
            if len(lc.generators) == 1 and not lc.generators[0].ifs and isinstance(lc.generators[0].target, ast.Name) \
                    and pyexpr.attr_path(lc.generators[0].iter) == [h.pass_name, "contour_lines", "geoms"] \
                    and pyexpr.attr_path(lc.elt) == [lc.generators[0].target.id, "coords"]:
                ok = True
    if not ok:
        raise Untranslatable(f"helper {fn_name}: the polygon is not built from all of {h.pass_name}.contour_lines: "
                             f"{ast.unparse(st)[:80]}")
    poly[0] = st.targets[0].id
    if poly[0] in h.params or poly[0] == h.pass_name:
        raise Untranslatable(f"helper {fn_name}: the polygon overwrites a parameter")
    returned = False
    for st in body[1:]:
        if returned:
            raise Untranslatable(f"helper {fn_name}: statement after return")
        if isinstance(st, ast.For):
            it = st.iter
            if not (isinstance(st.target, ast.Name) and not st.orelse and isinstance(it, ast.Call) and isinstance(it.func, ast.Name)
                    and it.func.id == "range" and len(it.args) == 1 and not it.keywords and isinstance(it.args[0], ast.Constant)
                    and isinstance(it.args[0].value, int) and not isinstance(it.args[0].value, bool)
                    and 0 <= it.args[0].value <= 12):
                raise Untranslatable(f"helper {fn_name}: loop {ast.unparse(st)[:60]}")
            once = []
            for inner in st.body:
                once += step(inner, st.target.id)
            h.ops += once * it.args[0].value
            continue
        if isinstance(st, ast.Return):
            v = st.value
            if isinstance(v, ast.Call) and isinstance(v.func, ast.Name) and imported.get(v.func.id) == "refine_cross_section" \
                    and len(v.args) == 1 and not v.keywords and is_poly(v.args[0]):
                returned = True
                h.returns_through = "refine_cross_section"
                continue
            if is_poly(v):
                returned = True
                h.returns_through = ""
                continue
            raise Untranslatable(f"helper {fn_name}: return {ast.unparse(v)[:60] if v else None}")
        h.ops += step(st)
    if not returned:
        raise Untranslatable(f"helper {fn_name}: does not return the polygon")
    return h


def bind(call, helper):
    """fill call.args: for every parameter of the helper the term it receives"""
    if len(call.positional) > len(helper.params):
        raise Untranslatable(f"{call.fn}: {len(call.positional)} arguments for {len(helper.params)} parameters of {helper.fn}")
    given = dict(zip(helper.params, call.positional))
    for k, v in call.keywords.items():
        if k not in helper.params or k in given:
            raise Untranslatable(f"{call.fn}: keyword {k} of {helper.fn}")
        given[k] = v
    call.args, call.defaulted = [], []
    for name in helper.params:
        if name in given:
            call.args.append((param_var(helper.fn, name), given[name]))
        elif name in helper.defaults:
            call.args.append((param_var(helper.fn, name), helper.defaults[name]))
            call.defaulted.append(name)
        else:
            raise Untranslatable(f"{call.fn}: parameter {name} of {helper.fn} receives nothing")


def _lean_opt(e):
    return "none" if e is None else f"(some {pyexpr.lean_expr(e)})"


def lean_rop(op):
    if op[0] == "clip":
        return "(.clip " + " ".join(_lean_opt(e) for e in op[1:]) + ")"
    return f"(.rotate {pyexpr.lean_expr(op[1])})"


def lean_helper(h):
    return ("{ fn := " + pyexpr.lean_str(h.fn) + ", params := [" + ", ".join(pyexpr.lean_str(param_var(h.fn, n)) for n in h.params)
            + "],\n      ops := [" + ",\n              ".join(lean_rop(o) for o in h.ops) + "] }")


def lean_call(c):
    return ("{ host := " + pyexpr.lean_str(c.host) + ", hook := " + pyexpr.lean_str(c.hook) + ", fn := " + pyexpr.lean_str(c.fn)
            + ", helper := " + pyexpr.lean_str(c.helper) + ",\n      args := ["
            + ", ".join(f"({pyexpr.lean_str(v)}, {pyexpr.lean_expr(e)})" for v, e in c.args) + "] }")


# ----------------------------------------------------------------------------------------------------------------------
# (4) where the placed vertex list comes from, and what `refine_cross_section` does to the answer of the helpers
# ----------------------------------------------------------------------------------------------------------------------
# `contour_lines` places `self.roll.contour_line` (pinned by `extract_contour_lines`).  Read here:
#   * the property `Roll.contour_line` (roll/roll.py): optional docstring, `if self._contour_line: return self._contour_line`,
#     `self._contour_line = LineString(self.contour_points)`, `return self._contour_line`  ->  `.lineOf (.hook "contour_points")`
#   * every hook implementation registered on `Roll.contour_points` (roll/hookimpls.py): `return self.groove.contour_points`
#     -> `.grooveContour`; anything else (guards, other attributes of the roll such as its width, arithmetic) -> `.opaque`
#   * `refine_cross_section` (profile/profile.py): `if Config.PROFILE_CONTOUR_REFINEMENT < N: return <param>` -> `.offBelow N`,
#     `return <param>.segmentize(<length>)` -> `.segmentize` (shapely: inserts vertices on the edges, the point set stays),
#     any other statement -> `.opaque`
# Output: lean/PyrollModel/Gen/C09Roll.lean (self-contained: the little term language is part of the generated text).

ROLL_LEAN_HEADER = '''/- GENERATED by driver/translate/c09_contours.py from /repo's working tree on every run - do not edit. -/
namespace Gen.C09Roll

/-- where a vertex list comes from -/
inductive Src where
  | grooveContour                 -- `self.groove.contour_points`
  | hook (name : String)          -- `self.<name>`: a hook of the roll (explicit value, else its implementations)
  | lineOf (s : Src)              -- `LineString(<s>)`: same vertices
  | opaque (what : String)        -- anything else
  deriving DecidableEq, Repr

/-- a statement of `refine_cross_section` -/
inductive RefineStep where
  | offBelow (n : Nat)            -- `if Config.PROFILE_CONTOUR_REFINEMENT < n: return cross_section`
  | segmentize                    -- `return cross_section.segmentize(<length>)`: vertices inserted on edges
  | opaque (what : String)        -- anything else
  deriving DecidableEq, Repr

/-- the point set of the polygon is the same after the step (shapely's `segmentize` only subdivides edges) -/
def RefineStep.keepsPointSet : RefineStep → Bool
  | .offBelow _ => true
  | .segmentize => true
  | .opaque _ => false

/-- the step that answers under configuration value `v` is reached (`none`: no statement returns) -/
def answering (v : Nat) : List RefineStep → Option RefineStep
  | [] => none
  | .offBelow n :: rest => if v < n then some (.offBelow n) else answering v rest
  | .segmentize :: _ => some .segmentize
  | .opaque w :: _ => some (.opaque w)

/-- the sources a roll WITHOUT an explicitly given value of the hook can answer with: one per implementation, in
    resolution order (first implementation that answers wins; these have no guards) -/
def resolve (impls : List (String × List Src)) : Nat → Src → List Src
  | 0, s => [s]
  | fuel + 1, .hook n => ((impls.filter (·.1 == n)).flatMap (·.2)).flatMap (resolve impls fuel)
  | fuel + 1, .lineOf s => (resolve impls fuel s).map .lineOf
  | _ + 1, s => [s]

'''


def _roll_src_of_impl(impl):
    alts = [(g, e, k) for (g, e, k) in (impl.alts or [])]
    if impl.gap is None and not impl.wrapper and alts == [(("tt",), ("var", "groove.contour_points"), "expr")]:
        return ("grooveContour",)
    return ("opaque", f"{impl.fn}: " + (impl.gap or "reads more than the groove's contour points"))


def extract_roll_source(core_dir):
    """-> {"contour_line": src, "contour_line_lineno": n, "impls": [(fn, lineno, src)]}"""
    from . import pyexpr
    out = {"contour_line": ("opaque", "Roll.contour_line not found"), "contour_line_lineno": 0, "impls": []}
    path = os.path.join(core_dir, "roll", "roll.py")
    tree = ast.parse(open(path).read())
    cls = next((n for n in tree.body if isinstance(n, ast.ClassDef) and n.name == "Roll"), None)
    fn = next((n for n in (cls.body if cls else []) if isinstance(n, ast.FunctionDef) and n.name == "contour_line"), None)
    if fn is not None:
        out["contour_line_lineno"] = fn.lineno
        body = list(fn.body)
        if body and isinstance(body[0], ast.Expr) and isinstance(body[0].value, ast.Constant) and isinstance(body[0].value.value, str):
            body = body[1:]
        want = ["if self._contour_line:\n    return self._contour_line",
                "self._contour_line = LineString(self.contour_points)",
                "return self._contour_line"]
        got = [ast.unparse(b) for b in body]
        is_prop = any(isinstance(d, ast.Name) and d.id == "property" for d in fn.decorator_list)
        if is_prop and got == want and _shapely_names(tree).get("LineString") == "LineString":
            out["contour_line"] = ("lineOf", ("hook", "contour_points"))
        else:
            out["contour_line"] = ("opaque", "Roll.contour_line: " + " ; ".join(got)[:120])
    hpath = os.path.join(core_dir, "roll", "hookimpls.py")
    for impl in pyexpr.extract_hookimpls(hpath, module_name="roll/hookimpls.py"):
        if impl.host == "Roll" and impl.hook == "contour_points":
            out["impls"].append((impl.fn, impl.lineno, _roll_src_of_impl(impl)))
    return out


def extract_refine(core_dir):
    """-> (lineno, [step]) of `refine_cross_section`"""
    path = os.path.join(core_dir, "profile", "profile.py")
    tree = ast.parse(open(path).read())
    fn = next((n for n in tree.body if isinstance(n, ast.FunctionDef) and n.name == "refine_cross_section"), None)
    if fn is None:
        return 0, [("opaque", "refine_cross_section not found")]
    a = fn.args
    if fn.decorator_list or a.vararg or a.kwarg or a.kwonlyargs or a.posonlyargs or len(a.args) != 1:
        return fn.lineno, [("opaque", "refine_cross_section: signature")]
    p = a.args[0].arg
    steps = []
    body = list(fn.body)
    if body and isinstance(body[0], ast.Expr) and isinstance(body[0].value, ast.Constant) and isinstance(body[0].value.value, str):
        body = body[1:]
    for st in body:
        if isinstance(st, ast.If) and not st.orelse and len(st.body) == 1 and isinstance(st.body[0], ast.Return) \
                and isinstance(st.body[0].value, ast.Name) and st.body[0].value.id == p \
                and isinstance(st.test, ast.Compare) and len(st.test.ops) == 1 and isinstance(st.test.ops[0], ast.Lt) \
                and ast.unparse(st.test.left) == "Config.PROFILE_CONTOUR_REFINEMENT" \
                and isinstance(st.test.comparators[0], ast.Constant) and type(st.test.comparators[0].value) is int \
                and st.test.comparators[0].value >= 0:
            steps.append(("offBelow", st.test.comparators[0].value))
        elif isinstance(st, ast.Return) and isinstance(st.value, ast.Call) and isinstance(st.value.func, ast.Attribute) \
                and st.value.func.attr == "segmentize" and isinstance(st.value.func.value, ast.Name) \
                and st.value.func.value.id == p and len(st.value.args) + len(st.value.keywords) == 1:
            steps.append(("segmentize",))
        else:
            steps.append(("opaque", ast.unparse(st).replace("\n", " ; ")[:120]))
    return fn.lineno, steps


def _lean_src(s):
    from .pyexpr import lean_str
    if s[0] == "grooveContour":
        return ".grooveContour"
    if s[0] == "hook":
        return f"(.hook {lean_str(s[1])})"
    if s[0] == "lineOf":
        return f"(.lineOf {_lean_src(s[1])})"
    return f"(.opaque {lean_str(s[1])})"


def _lean_step(s):
    from .pyexpr import lean_str
    if s[0] == "offBelow":
        return f"(.offBelow {s[1]})"
    if s[0] == "segmentize":
        return ".segmentize"
    return f"(.opaque {lean_str(s[1])})"


def lean_roll_module(roll, refine, helper_returns):
    """the text of lean/PyrollModel/Gen/C09Roll.lean; `helper_returns`: [(helper fn, what its return statement wraps the polygon in)]"""
    from .pyexpr import lean_str
    lineno, steps = refine
    L = [ROLL_LEAN_HEADER]
    L.append(f"/-- pyroll/core/roll/roll.py:{roll['contour_line_lineno']} property `Roll.contour_line` (what `contour_lines` places) -/")
    L.append(f"def roll_contour_line : Src := {_lean_src(roll['contour_line'])}")
    L.append("/-- pyroll/core/roll/hookimpls.py: the implementations registered on `Roll.contour_points`: " +
             ", ".join(f"`{fn}` (line {ln})" for fn, ln, _ in roll["impls"]) + " -/")
    L.append("def roll_hook_impls : List (String × List Src) :=\n    [(\"contour_points\", [" +
             ", ".join(_lean_src(s) for _, _, s in roll["impls"]) + "])]")
    L.append(f"/-- pyroll/core/profile/profile.py:{lineno} `refine_cross_section`, statement by statement -/")
    L.append("def refine_steps : List RefineStep := [" + ", ".join(_lean_step(s) for s in steps) + "]")
    L.append("/-- what the return statement of each cross-section helper of the passes wraps the clipped polygon in -/")
    L.append("def helper_returns : List (String × String) := [" +
             ", ".join(f"({lean_str(h)}, {lean_str(w)})" for h, w in helper_returns) + "]")
    L.append("\nend Gen.C09Roll")
    return "\n".join(L) + "\n"
