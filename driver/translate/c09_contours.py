"""(T) for C09: what pyexpr.py cannot read.

1. The placement of the roll contour in `TwoRollPass.contour_lines` / `ThreeRollPass.contour_lines`: a straight-line
   program over shapely's `translate`, `rotate(origin=(0, 0))`, `LineString(x.coords[::-1])`, ending in
   `MultiLineString([...])`.  Output: per returned line the list of affine operations (arguments as `Expr` tuples) applied
   to `self.roll.contour_line`, and the hooks of `self` that are read on the way (`self.gap`).
2. Hook implementations that measure a clipped line (`name = clip_by_rect(src, xmin, -math.inf, xmax, math.inf)` followed
   by arithmetic on `name.bounds[k]`): `height3`.  Output: the guarded alternatives like pyexpr's, with the variable
   `"<fn>:<name>.bounds[k]"` standing for the measured coordinate, plus the clip specifications.

AST node types are whitelisted; anything else raises `Untranslatable` (recorded by the caller as a tie break).
"""
import ast
import os

from . import pyexpr
from .pyexpr import Untranslatable, ExprTranslator

SRC_ROLL = ("roll",)


def _is_self_attr(n, *path):
    p = pyexpr.attr_path(n)
    return p is not None and p == ["self"] + list(path)


def _shapely_names(tree):
    """names bound by `from shapely... import translate, rotate, LineString, MultiLineString, clip_by_rect`"""
    names = {}
    for node in tree.body:
        if isinstance(node, ast.ImportFrom) and node.module and node.module.split(".")[0] == "shapely":
            for a in node.names:
                names[a.asname or a.name] = a.name
    return names


class Placement:
    def __init__(self):
        self.lines = []      # [(python variable name, [op, ...])]  op = ("translate", ex, ey) | ("rotate", e) | ("reverse",)
        self.reads = []      # hooks of self read while building (variables without a dot), in order of occurrence
        self.lineno = 0


def extract_contour_lines(path, class_name):
    src = open(path).read()
    tree = ast.parse(src)
    shp = _shapely_names(tree)
    cls = next((n for n in tree.body if isinstance(n, ast.ClassDef) and n.name == class_name), None)
    if cls is None:
        raise Untranslatable(f"class {class_name} not found")
    fn = next((n for n in cls.body if isinstance(n, ast.FunctionDef) and n.name == "contour_lines"), None)
    if fn is None:
        raise Untranslatable(f"{class_name}.contour_lines not found")
    if not any(isinstance(d, ast.Name) and d.id == "property" for d in fn.decorator_list):
        raise Untranslatable("contour_lines is not a property")
    out = Placement()
    out.lineno = fn.lineno
    geoms = {}      # python name -> op list
    locals_ = {}
    result = None

    def src_ops(n):
        if _is_self_attr(n, "roll", "contour_line"):
            return []
        if isinstance(n, ast.Name) and n.id in geoms:
            return list(geoms[n.id])
        raise Untranslatable(f"geometry source {ast.unparse(n)}")

    def tr(n):
        return ExprTranslator("self", locals_).tr(n)

    def geom_call(call):
        f = call.func
        if not isinstance(f, ast.Name):
            raise Untranslatable(f"call {ast.unparse(f)}")
        real = shp.get(f.id)
        if real == "translate":
            if len(call.args) != 1:
                raise Untranslatable("translate with positional offsets")
            kw = {k.arg: k.value for k in call.keywords}
            if set(kw) - {"xoff", "yoff"}:
                raise Untranslatable("translate keyword " + ",".join(sorted(set(kw) - {"xoff", "yoff"})))
            ex = tr(kw["xoff"]) if "xoff" in kw else ("nat", 0)
            ey = tr(kw["yoff"]) if "yoff" in kw else ("nat", 0)
            return src_ops(call.args[0]) + [("translate", ex, ey)]
        if real == "rotate":
            kw = {k.arg: k.value for k in call.keywords}
            args = list(call.args)
            if len(args) == 2:
                kw["angle"] = args[1]
            elif len(args) != 1:
                raise Untranslatable("rotate arguments")
            if set(kw) != {"angle", "origin"}:
                raise Untranslatable("rotate needs exactly angle= and origin=")
            o = kw["origin"]
            if not (isinstance(o, ast.Tuple) and len(o.elts) == 2 and
                    all(isinstance(e, ast.Constant) and e.value == 0 and not isinstance(e.value, bool) for e in o.elts)):
                raise Untranslatable("rotate origin is not (0, 0)")
            return src_ops(args[0]) + [("rotate", tr(kw["angle"]))]
        if real == "LineString":
            # LineString(x.coords[::-1])
            if len(call.args) == 1 and not call.keywords and isinstance(call.args[0], ast.Subscript):
                sub = call.args[0]
                sl = sub.slice
                if isinstance(sub.value, ast.Attribute) and sub.value.attr == "coords" and isinstance(sl, ast.Slice) \
                        and sl.lower is None and sl.upper is None and isinstance(sl.step, ast.UnaryOp) \
                        and isinstance(sl.step.op, ast.USub) and isinstance(sl.step.operand, ast.Constant) \
                        and sl.step.operand.value == 1:
                    return src_ops(sub.value.value) + [("reverse",)]
            raise Untranslatable("LineString(...) other than coords[::-1]")
        raise Untranslatable(f"call {f.id}")

    for st in fn.body:
        if isinstance(st, ast.Expr) and isinstance(st.value, ast.Constant) and isinstance(st.value.value, str):
            continue
        # memoisation: if self._contour_lines: return self._contour_lines
        if isinstance(st, ast.If) and _is_self_attr(st.test, "_contour_lines") and not st.orelse and len(st.body) == 1 \
                and isinstance(st.body[0], ast.Return) and _is_self_attr(st.body[0].value, "_contour_lines"):
            continue
        if isinstance(st, ast.Assign) and len(st.targets) == 1:
            t = st.targets[0]
            if isinstance(t, ast.Name):
                if isinstance(st.value, ast.Call) and isinstance(st.value.func, ast.Name) and st.value.func.id in shp:
                    geoms[t.id] = geom_call(st.value)
                    locals_.pop(t.id, None)
                else:
                    locals_[t.id] = tr(st.value)
                    geoms.pop(t.id, None)
                continue
            if _is_self_attr(t, "_contour_lines"):
                v = st.value
                if isinstance(v, ast.Call) and isinstance(v.func, ast.Name) and shp.get(v.func.id) == "MultiLineString" \
                        and len(v.args) == 1 and isinstance(v.args[0], ast.List) and not v.keywords:
                    result = []
                    for e in v.args[0].elts:
                        if not (isinstance(e, ast.Name) and e.id in geoms):
                            raise Untranslatable("MultiLineString element " + ast.unparse(e))
                        result.append((e.id, list(geoms[e.id])))
                    continue
                raise Untranslatable("self._contour_lines = " + ast.unparse(v)[:80])
        if isinstance(st, ast.Return) and _is_self_attr(st.value, "_contour_lines") and result is not None:
            break
        raise Untranslatable(f"statement in contour_lines: {ast.unparse(st)[:80]}")
    else:
        raise Untranslatable("contour_lines does not return self._contour_lines")
    out.lines = result
    seen = []
    for (_, ops) in result:
        for op in ops:
            for e in op[1:]:
                for v in pyexpr.expr_vars(e):
                    if "." not in v and v not in seen:
                        seen.append(v)
    out.reads = seen
    return out


def lean_op(op):
    if op[0] == "translate":
        return f"(.translate {pyexpr.lean_expr(op[1])} {pyexpr.lean_expr(op[2])})"
    if op[0] == "rotate":
        return f"(.rotate {pyexpr.lean_expr(op[1])})"
    return ".reverse"


# ---- implementations measuring a clipped line -------------------------------------------------------------------

def _is_inf(n, sign):
    """`math.inf` / `-math.inf` / np.inf"""
    if sign < 0:
        return isinstance(n, ast.UnaryOp) and isinstance(n.op, ast.USub) and _is_inf(n.operand, 1)
    p = pyexpr.attr_path(n)
    return p in (["math", "inf"], ["np", "inf"], ["numpy", "inf"])


def extract_clip_impl(path, fn_name, module_name):
    """-> (HookImpl with alts filled, [clip specs]) ; clip spec = (var_prefix, src, xmin_expr, xmax_expr)
    src = ("roll",) | ("line", i)"""
    src = open(path).read()
    tree = ast.parse(src)
    shp = _shapely_names(tree)
    for node in tree.body:
        if isinstance(node, ast.FunctionDef) and node.name == fn_name:
            for dec in node.decorator_list:
                info = pyexpr._decorator_info(dec)
                if info is not None:
                    break
            else:
                continue
            break
    else:
        raise Untranslatable(f"{fn_name} not found")
    impl = pyexpr.HookImpl()
    impl.module = module_name
    impl.host, impl.hook, impl.tier, impl.wrapper = info
    impl.fn = fn_name
    impl.lineno = node.lineno
    impl.wants_cycle = any(a.arg == "cycle" for a in node.args.args)
    self_name = node.args.args[0].arg
    clips = []

    def clip_src(n):
        p = pyexpr.attr_path(n)
        if p == [self_name, "roll", "contour_line"]:
            return SRC_ROLL
        if p is not None and len(p) == 3 and p[0] == self_name and p[1] == "contour_lines" and p[2].startswith("geoms["):
            return ("line", int(p[2][6:-1]))
        raise Untranslatable("clip source " + ast.unparse(n))

    def block(stmts, guard, locals_):
        locals_ = dict(locals_)
        for st in stmts:
            if isinstance(st, ast.Expr) and isinstance(st.value, ast.Constant) and isinstance(st.value.value, str):
                continue
            if isinstance(st, ast.Assign) and len(st.targets) == 1 and isinstance(st.targets[0], ast.Name):
                name = st.targets[0].id
                v = st.value
                if isinstance(v, ast.Call) and isinstance(v.func, ast.Name) and shp.get(v.func.id) == "clip_by_rect":
                    if len(v.args) != 5 or v.keywords:
                        raise Untranslatable("clip_by_rect arguments")
                    if not (_is_inf(v.args[2], -1) and _is_inf(v.args[4], 1)):
                        raise Untranslatable("clip_by_rect window is bounded in y")
                    tr = ExprTranslator(self_name, locals_)
                    var = f"{fn_name}:{name}"
                    clips.append((var, clip_src(v.args[0]), tr.tr(v.args[1]), tr.tr(v.args[3])))
                    locals_[name] = ("var", var)
                    continue
                locals_[name] = ExprTranslator(self_name, locals_).tr(v)
                continue
            if isinstance(st, ast.Return):
                if st.value is None or (isinstance(st.value, ast.Constant) and st.value.value is None):
                    impl.alts.append((guard, None, "none"))
                else:
                    impl.alts.append((guard, ExprTranslator(self_name, locals_).tr(st.value), "expr"))
                return True
            if isinstance(st, ast.If) and not st.orelse:
                g = pyexpr.tr_guard(st.test, self_name, locals_)
                if g[0] == "opaque":
                    raise Untranslatable("guard " + g[1])
                g_and = g if guard == ("tt",) else ("and", guard, g)
                if not block(st.body, g_and, locals_):
                    raise Untranslatable("if without return")
                ng = ("not", g)
                guard = ng if guard == ("tt",) else ("and", guard, ng)
                continue
            raise Untranslatable(f"statement {type(st).__name__}: {ast.unparse(st)[:60]}")
        impl.alts.append((guard, None, "none"))
        return True

    block(node.body, ("tt",), {})
    return impl, clips


def lean_clip(c):
    var, src, lo, hi = c
    s = ".rollContour" if src == SRC_ROLL else f"(.passLine {src[1]})"
    return f"{{ name := {pyexpr.lean_str(var)}, src := {s}, xmin := {pyexpr.lean_expr(lo)}, xmax := {pyexpr.lean_expr(hi)} }}"


def clip_vars(impl, clips, base_index):
    """[(variable, clip index, k)] for the `.bounds[k]` variables the formulas of `impl` mention"""
    out = []
    for (g, e, kind) in impl.alts:
        if kind != "expr":
            continue
        for v in pyexpr.expr_vars(e):
            for ci, c in enumerate(clips):
                if v.startswith(c[0] + ".bounds[") and v.endswith("]"):
                    item = (v, base_index + ci, int(v[len(c[0]) + 8:-1]))
                    if item not in out:
                        out.append(item)
                    break
                elif v.startswith(c[0] + "."):
                    raise Untranslatable(f"clipped line used other than through .bounds[k]: {v}")
    return out
