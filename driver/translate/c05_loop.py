"""(T) for C05: read `Unit.solve` and what it relies on out of /repo's working tree and emit
lean/PyrollModel/Gen/C05.lean.

Everything is recognised by AST pattern (node types, never source text).  Every statement of the functions read must
fall into one of the roles below; anything else raises `Untranslatable` (reported as a broken tie).  What is emitted:

  * `loop_shape : Solve.Shape`       statement roles of `solve` (before / inside / after the loop, the `if` branch, the
                                     for/else), `Unit.__init__`'s initial `_old_results`, `init_solve` (out profile created
                                     always / if absent / if absent and else brought up to date with the incoming
                                     profile), `get_root_hook_results` + overrides, `reevaluate_cache`
                                     overrides, `_solve_subunits` (catch / raise), `HookFunction.__call__` (marks)
  * `range_start, range_stop_offset : Int`   `for i in range(<start>, self.<budgetAttr> + <offset>)`
  * `test_lhs_e, test_rhs_e : Expr`, `test_op : Solve.Cmp`   the element-wise comparison over the variables
                                     `cur` (new vector), `old` (previous vector), `prec`
  * `default_prec_e : Expr`, `default_max_iter : Nat`   what the default implementations of `iteration_precision` /
                                     `max_iteration_count` return (through `Config`)
"""
import ast
import os

from . import pyexpr
from .pyexpr import Untranslatable
from ..core import LEAN_DIR, REPO

UNIT = "unit/unit.py"
HOOKS = "hooks.py"
UNIT_IMPLS = "unit/hookimpls.py"
CONFIG = "config.py"
RESULT_OVERRIDES = [("SymmetricRollPass", "roll_pass/symmetric_roll_pass.py"), ("TwoRollPass", "roll_pass/two_roll_pass.py")]
CACHE_OVERRIDES = [("BaseRollPass", "roll_pass/base.py"), ("SymmetricRollPass", "roll_pass/symmetric_roll_pass.py"),
                   ("Roll", "roll/roll.py")]


# ---- small AST helpers --------------------------------------------------------------------------------

def _name(n):
    return n.id if isinstance(n, ast.Name) else None


def _path(n):
    p = pyexpr.attr_path(n)
    return ".".join(p) if p else None


def _call_path(n):
    """f(...) -> 'f', self.a.b(...) -> 'self.a.b', super().m(...) -> 'super().m'"""
    if not isinstance(n, ast.Call):
        return None
    f = n.func
    if isinstance(f, ast.Attribute) and isinstance(f.value, ast.Call) and _name(f.value.func) == "super" \
            and not f.value.args:
        return "super()." + f.attr
    return _path(f)


def _int_const(n):
    if isinstance(n, ast.Constant) and isinstance(n.value, int) and not isinstance(n.value, bool):
        return n.value
    if isinstance(n, ast.UnaryOp) and isinstance(n.op, ast.USub):
        v = _int_const(n.operand)
        return None if v is None else -v
    return None


def _stmts(fn):
    """body without the docstring"""
    return [s for s in fn.body if not (isinstance(s, ast.Expr) and isinstance(s.value, ast.Constant))]


def _class(tree, name):
    for node in ast.walk(tree):
        if isinstance(node, ast.ClassDef) and node.name == name:
            return node
    raise Untranslatable(f"class {name} not found")


def _method(cls, name):
    for f in cls.body:
        if isinstance(f, ast.FunctionDef) and f.name == name:
            return f
    raise Untranslatable(f"{cls.name}.{name} not found")


def _parse(rel, repo=None):
    path = os.path.join(repo or REPO, "pyroll", "core", rel)
    return ast.parse(open(path).read())


def _is_log(st, self_name="self"):
    """self.logger.<level>(...) -> level"""
    if isinstance(st, ast.Expr) and isinstance(st.value, ast.Call):
        p = _call_path(st.value) or ""
        parts = p.split(".")
        if len(parts) == 3 and parts[0] == self_name and parts[1] == "logger":
            return parts[2]
    return None


def _fstring_names(call):
    """names / attribute paths interpolated in the (f-)string arguments of a log call"""
    out = []
    for a in call.args:
        for n in ast.walk(a):
            if isinstance(n, ast.FormattedValue):
                p = _path(n.value)
                if p:
                    out.append(p)
    return out


# ---- affine bound of the range -----------------------------------------------------------------------------

def _affine(n, self_name):
    """c | self.attr | self.attr + c | self.attr - c | c + self.attr  ->  (attr or None, const)"""
    c = _int_const(n)
    if c is not None:
        return (None, c)
    p = pyexpr.attr_path(n)
    if p and p[0] == self_name and len(p) == 2:
        return (p[1], 0)
    if isinstance(n, ast.BinOp) and isinstance(n.op, (ast.Add, ast.Sub)):
        a, b = _affine(n.left, self_name), _affine(n.right, self_name)
        s = 1 if isinstance(n.op, ast.Add) else -1
        if a[0] and b[0]:
            raise Untranslatable("range bound with two attributes")
        if b[0] and s == -1:
            raise Untranslatable("range bound subtracts the attribute")
        return (a[0] or b[0], a[1] + s * b[1])
    raise Untranslatable(f"range bound {ast.unparse(n)}")


# ---- Unit.solve ------------------------------------------------------------------------------------------------

def extract_solve(fn):
    self_name = fn.args.args[0].arg
    params = [a.arg for a in fn.args.args[1:]]
    if len(params) != 1:
        raise Untranslatable("solve: parameters")
    info = {"prelude": [], "epilogue": []}
    loop = None
    out_local = None
    for st in _stmts(fn):
        roles = info["prelude"] if loop is None else info["epilogue"]
        lvl = _is_log(st, self_name)
        if lvl is not None:
            roles.append("log")
            continue
        if isinstance(st, ast.Assign) and len(st.targets) == 1 and _name(st.targets[0]) \
                and _call_path(st.value) in ("timer", "time.time", "time.perf_counter", "default_timer"):
            roles.append("timer")
            continue
        if isinstance(st, ast.Expr) and _call_path(st.value) == f"{self_name}.init_solve":
            c = st.value
            if loop is not None or len(c.args) != 1 or _name(c.args[0]) != params[0] or c.keywords:
                raise Untranslatable("init_solve call")
            roles.append("init")
            continue
        if isinstance(st, ast.For) and loop is None and _name(st.target):
            loop = st
            continue
        if loop is not None and isinstance(st, ast.Assign) and len(st.targets) == 1 and _name(st.targets[0]):
            # out_profile = BaseProfile(**{k: v for k, v in self.out_profile.__dict__.items() if not k.startswith("_")})
            v = st.value
            if isinstance(v, ast.Call) and not v.args and len(v.keywords) == 1 and v.keywords[0].arg is None \
                    and isinstance(v.keywords[0].value, ast.DictComp):
                dc = v.keywords[0].value
                src = _call_path(dc.generators[0].iter) if len(dc.generators) == 1 else None
                if src == f"{self_name}.out_profile.__dict__.items" and len(dc.generators[0].ifs) == 1:
                    out_local = st.targets[0].id
                    roles.append("copy-out")
                    continue
            raise Untranslatable(f"assignment after the loop: {ast.unparse(st)[:80]}")
        if loop is not None and isinstance(st, ast.For) and _call_path(st.iter) == f"{self_name}._yield_post_processors":
            roles.append("post-processors")
            continue
        if loop is not None and isinstance(st, ast.Return):
            if out_local is None or _name(st.value) != out_local:
                raise Untranslatable("solve does not return the copy of the out profile")
            roles.append("return")
            continue
        raise Untranslatable(f"solve: statement {type(st).__name__}: {ast.unparse(st)[:80]}")
    if loop is None:
        raise Untranslatable("solve: no for loop")
    if "init" not in info["prelude"] or "return" not in info["epilogue"] or "copy-out" not in info["epilogue"]:
        raise Untranslatable("solve: init_solve / copy of the out profile / return missing")

    # ---- the range
    it = loop.iter
    if not (isinstance(it, ast.Call) and _name(it.func) == "range" and not it.keywords and 1 <= len(it.args) <= 2):
        raise Untranslatable(f"loop iterable {ast.unparse(it)}")
    start = (None, 0) if len(it.args) == 1 else _affine(it.args[0], self_name)
    stop = _affine(it.args[-1], self_name)
    if start[0] is not None or stop[0] is None:
        raise Untranslatable(f"loop range {ast.unparse(it)}: expected range(<int>, self.<attr> + <int>)")
    info["range_start"], info["budget_attr"], info["range_stop_offset"] = start[1], stop[0], stop[1]
    loop_var = loop.target.id

    # ---- the body
    body = []
    cur_name = old_attr = None
    test = None
    for st in loop.body:
        if _is_log(st, self_name) is not None:
            body.append("log")
            continue
        if isinstance(st, ast.Expr) and isinstance(st.value, ast.Call) and not st.value.args and not st.value.keywords:
            p = _call_path(st.value)
            role = {f"{self_name}.in_profile.reevaluate_cache": "in.reevaluate",
                    f"{self_name}._solve_subunits": "subunits",
                    f"{self_name}.reevaluate_cache": "self.reevaluate",
                    f"{self_name}.out_profile.reevaluate_cache": "out.reevaluate"}.get(p)
            if role:
                body.append(role)
                continue
        if isinstance(st, ast.Assign) and len(st.targets) == 1:
            tgt = st.targets[0]
            if _name(tgt) and _call_path(st.value) == f"{self_name}.get_root_hook_results" and not st.value.args:
                if cur_name is not None:
                    raise Untranslatable("two result vectors in the loop body")
                cur_name = tgt.id
                body.append("results")
                continue
            tp = pyexpr.attr_path(tgt)
            if tp and tp[0] == self_name and len(tp) == 2 and _name(st.value) == cur_name and cur_name is not None:
                if old_attr is not None and old_attr != tp[1]:
                    raise Untranslatable("the vector is stored under another attribute than the one compared")
                old_attr = tp[1]
                body.append("update-old")
                continue
        if isinstance(st, ast.If) and not st.orelse and test is None:
            test = _extract_test(st, self_name, cur_name, loop_var)
            if old_attr is not None and test["old_attr"] != old_attr:
                raise Untranslatable("the vector is stored under another attribute than the one compared")
            old_attr = test["old_attr"]
            body.append("test")
            continue
        raise Untranslatable(f"loop statement {type(st).__name__}: {ast.unparse(st)[:80]}")
    if test is None or cur_name is None:
        raise Untranslatable("loop without result vector / stop test")
    if "update-old" not in body:
        raise Untranslatable("loop never stores the new vector")
    info.update(body=body, test=test, old_attr=old_attr)

    # ---- for/else
    if not loop.orelse:
        info["exhaustion"] = "silent"
    elif any(isinstance(s, ast.Raise) for s in loop.orelse):
        info["exhaustion"] = "raise"
    elif all(_is_log(s, self_name) in ("warning", "warn", "error") for s in loop.orelse):
        info["exhaustion"] = "warn"
    elif all(_is_log(s, self_name) is not None for s in loop.orelse):
        info["exhaustion"] = "silent"          # logged below WARNING: a caller filtering for warnings sees nothing
    else:
        raise Untranslatable("for/else of the iteration loop")
    return info


def _extract_test(st, self_name, cur_name, loop_var):
    t = st.test
    q = _call_path(t)
    if q not in ("np.all", "np.any", "numpy.all", "numpy.any", "all", "any") or len(t.args) != 1 or t.keywords:
        raise Untranslatable(f"stop test {ast.unparse(t)[:80]}")
    cmp_ = t.args[0]
    if not (isinstance(cmp_, ast.Compare) and len(cmp_.ops) == 1):
        raise Untranslatable(f"stop test comparison {ast.unparse(cmp_)[:80]}")
    op = {ast.LtE: "le", ast.Lt: "lt", ast.GtE: "ge", ast.Gt: "gt"}.get(type(cmp_.ops[0]))
    if op is None:
        raise Untranslatable(f"stop test operator {type(cmp_.ops[0]).__name__}")
    # variables: the local holding the new vector -> cur; self.<attr> -> the attribute name
    tr = pyexpr.ExprTranslator(self_name, {cur_name: ("var", "cur")} if cur_name else {})
    lhs, rhs = tr.tr(cmp_.left), tr.tr(cmp_.comparators[0])
    attrs = sorted({v for v in pyexpr.expr_vars(lhs) + pyexpr.expr_vars(rhs) if v != "cur"})
    if cur_name is None or "cur" not in pyexpr.expr_vars(lhs) + pyexpr.expr_vars(rhs):
        raise Untranslatable("stop test does not look at the new vector")
    # which attribute is the previous vector: the private one (leading underscore); the other is the precision
    olds = [a for a in attrs if a.startswith("_")]
    precs = [a for a in attrs if not a.startswith("_")]
    if len(olds) != 1 or len(precs) > 1:
        raise Untranslatable(f"stop test reads {attrs}: expected one private attribute (previous vector) and the precision")

    def rename(e):
        if e[0] == "var":
            return ("var", "old" if e[1] == olds[0] else "prec" if precs and e[1] == precs[0] else e[1])
        return tuple(rename(x) if isinstance(x, tuple) else x for x in e)
    branch = []
    logs_index = False
    for s in st.body:
        lvl = _is_log(s, self_name)
        if lvl is not None:
            branch.append("log-" + lvl)
            logs_index = logs_index or loop_var in _fstring_names(s.value)
        elif isinstance(s, ast.Break):
            branch.append("break")
        else:
            raise Untranslatable(f"statement in the stop branch: {ast.unparse(s)[:80]}")
    if "break" not in branch:
        raise Untranslatable("stop branch without break")
    if logs_index:
        branch = [b + "(i)" if b.startswith("log-") else b for b in branch]
    return {"all": q.endswith("all"), "op": op, "lhs": rename(lhs), "rhs": rename(rhs), "old_attr": olds[0],
            "prec_attr": precs[0] if precs else "", "branch": branch}


# ---- Unit.__init__, init_solve, get_root_hook_results, _solve_subunits ----------------------------------------

def extract_old_init(fn, old_attr):
    self_name = fn.args.args[0].arg
    val = None
    for st in ast.walk(fn):
        if isinstance(st, ast.Assign) and len(st.targets) == 1 and _path(st.targets[0]) == f"{self_name}.{old_attr}":
            p = _path(st.value)
            if p in ("np.nan", "numpy.nan", "math.nan", "np.NaN"):
                val = "nan"
            elif isinstance(st.value, ast.Constant) and st.value.value is None:
                val = "None"
            else:
                val = "other:" + ast.unparse(st.value)[:40]
    if val is None:
        raise Untranslatable(f"Unit.__init__ does not initialise {old_attr}")
    return val


def _pure_comprehension(n):
    """a set / dict / list comprehension (or display) that calls nothing but isinstance / str.startswith / dict views"""
    if not isinstance(n, (ast.SetComp, ast.DictComp, ast.ListComp, ast.Set, ast.List)):
        return False
    for c in ast.walk(n):
        if isinstance(c, ast.Call):
            f = c.func
            if _name(f) == "isinstance":
                continue
            if isinstance(f, ast.Attribute) and f.attr in ("startswith", "items", "keys"):
                continue
            return False
        if isinstance(c, (ast.NamedExpr, ast.Await, ast.Yield, ast.YieldFrom, ast.Lambda)):
            return False
    return True


def _hand_over_branch(stmts, self_name):
    """the `else:` of `if not self.out_profile:` (the out profile exists and is re-used).  Recognised: local names bound to
    pure comprehensions, and `for` loops (no else) whose bodies - possibly under `if`s without else - consist of
    `delattr(self.out_profile, <name>)` / `setattr(self.out_profile, <name>, <name>)` only.  Nothing that replaces the
    object, touches `_old_results` or calls anything else.  -> set of the writes found ({"delattr", "setattr"}) or None.
    WHAT is deleted / set is not read from the text: the correspondence runs the real `init_solve` against
    `Solve.handOver` on generated entries."""
    target = f"{self_name}.out_profile"
    found = set()

    def writes(body):
        for st in body:
            if isinstance(st, ast.If) and not st.orelse and not any(isinstance(c, ast.Call) for c in ast.walk(st.test)):
                if not writes(st.body):
                    return False
                continue
            if isinstance(st, ast.Expr) and isinstance(st.value, ast.Call) and not st.value.keywords:
                c = st.value
                f = _name(c.func)
                if f == "delattr" and len(c.args) == 2 and _path(c.args[0]) == target and _name(c.args[1]):
                    found.add("delattr")
                    continue
                if f == "setattr" and len(c.args) == 3 and _path(c.args[0]) == target and _name(c.args[1]) and _name(c.args[2]):
                    found.add("setattr")
                    continue
            return False
        return bool(body)
    for st in stmts:
        if isinstance(st, ast.Assign) and len(st.targets) == 1 and _name(st.targets[0]) and _pure_comprehension(st.value):
            continue
        if isinstance(st, ast.For) and not st.orelse and (_name(st.iter) or _call_path(st.iter)) \
                and (_name(st.iter) or (_call_path(st.iter) or "").endswith(".items")) and writes(st.body):
            continue
        return None
    return found


def extract_init_solve(fn):
    """-> (roles, how the out profile comes about: "always" | "create-if-absent" (an existing one is re-used as it is) |
    "create-if-absent-else-hand-over" (an existing one is re-used and brought up to date with the incoming profile))"""
    self_name = fn.args.args[0].arg
    roles, out = [], None
    for st in _stmts(fn):
        if isinstance(st, ast.For) and _call_path(st.iter) == f"{self_name}._yield_pre_processors":
            roles.append("pre-processors")
            continue
        if isinstance(st, ast.Assign) and len(st.targets) == 1:
            t, c = _path(st.targets[0]), _call_path(st.value)
            if t == f"{self_name}.in_profile" and c == f"{self_name}.InProfile":
                roles.append("in_profile")
                continue
            if t == f"{self_name}.out_profile" and c == f"{self_name}.OutProfile":
                roles.append("out_profile")
                out = "always"
                continue
        if isinstance(st, ast.If) and len(st.body) == 1 and isinstance(st.body[0], ast.Assign):
            a = st.body[0]
            g = st.test
            absent = (isinstance(g, ast.UnaryOp) and isinstance(g.op, ast.Not) and _path(g.operand) == f"{self_name}.out_profile") \
                or (isinstance(g, ast.Compare) and _path(g.left) == f"{self_name}.out_profile" and len(g.ops) == 1
                    and isinstance(g.ops[0], ast.Is) and isinstance(g.comparators[0], ast.Constant)
                    and g.comparators[0].value is None)
            if absent and _path(a.targets[0]) == f"{self_name}.out_profile" and _call_path(a.value) == f"{self_name}.OutProfile":
                if not st.orelse:
                    roles.append("out_profile")
                    out = "create-if-absent"
                    continue
                w = _hand_over_branch(st.orelse, self_name)
                if w == {"delattr", "setattr"}:
                    roles.append("out_profile")
                    out = "create-if-absent-else-hand-over"
                    continue
                raise Untranslatable("init_solve: the branch for an existing out profile is not the recognised hand-over "
                                     f"(found {sorted(w) if w is not None else 'other statements'})")
        raise Untranslatable(f"init_solve: statement {ast.unparse(st)[:80]}")
    if out is None or "in_profile" not in roles:
        raise Untranslatable("init_solve does not create the in / out profile")
    return roles, out


def extract_results(fn):
    """-> (evaluation order, concatenation order) of `get_root_hook_results`; parts: 'self', 'in_profile', 'roll', 'super'"""
    self_name = fn.args.args[0].arg
    local, order = {}, []
    concat = None
    for st in _stmts(fn):
        if isinstance(st, ast.Assign) and len(st.targets) == 1 and _name(st.targets[0]):
            c = _call_path(st.value)
            if c and c.endswith(".evaluate_and_set_hooks") and c.startswith(self_name) and not st.value.args:
                part = c[len(self_name) + 1:-len(".evaluate_and_set_hooks")] or "self"
                local[st.targets[0].id] = part
                order.append(part)
                continue
            if c == "super().get_root_hook_results" and not st.value.args:
                local[st.targets[0].id] = "super"
                order.append("super")
                continue
        if isinstance(st, ast.Return) and _call_path(st.value) in ("np.concatenate", "numpy.concatenate"):
            c = st.value
            if len(c.args) == 1 and isinstance(c.args[0], (ast.List, ast.Tuple)) and \
                    all(isinstance(k.value, ast.Constant) and k.value.value == 0 and k.arg == "axis" for k in c.keywords):
                concat = [local.get(_name(e)) for e in c.args[0].elts]
                if None in concat:
                    raise Untranslatable("get_root_hook_results concatenates an unknown vector")
                continue
        raise Untranslatable(f"get_root_hook_results: statement {ast.unparse(st)[:80]}")
    if concat is None:
        raise Untranslatable("get_root_hook_results does not return a concatenation")
    return order, concat


def extract_cache_override(fn):
    self_name = fn.args.args[0].arg
    roles = []
    for st in _stmts(fn):
        if isinstance(st, ast.Expr) and isinstance(st.value, ast.Call) and not st.value.args:
            c = _call_path(st.value)
            if c == "super().reevaluate_cache":
                roles.append("super")
                continue
            if c and c.startswith(self_name + ".") and c.endswith(".reevaluate_cache"):
                roles.append(c[len(self_name) + 1:-len(".reevaluate_cache")] + ".reevaluate")
                continue
        if isinstance(st, ast.Assign) and len(st.targets) == 1 and isinstance(st.value, ast.Constant) \
                and st.value.value is None:
            p = pyexpr.attr_path(st.targets[0])
            if p and p[0] == self_name and len(p) == 2:
                roles.append("clear:" + p[1])
                continue
        raise Untranslatable(f"reevaluate_cache override: statement {ast.unparse(st)[:80]}")
    return roles


def extract_subunits(fn):
    """-> (roles, caught class, raised class)"""
    self_name = fn.args.args[0].arg
    st = _stmts(fn)
    roles = []
    if len(st) == 1 and isinstance(st[0], ast.If) and not st[0].orelse and _path(st[0].test) == f"{self_name}._subunits":
        roles.append("if-subunits")
        st = st[0].body
    last = None
    catch = rais = None
    for s in st:
        if isinstance(s, ast.Assign) and len(s.targets) == 1 and _name(s.targets[0]) and _path(s.value) == f"{self_name}.in_profile":
            last = s.targets[0].id
            roles.append("last:=in_profile")
            continue
        if isinstance(s, ast.For) and _name(s.target) and _path(s.iter) == f"{self_name}._subunits" and not s.orelse:
            u = s.target.id
            roles.append("for-subunits")
            if len(s.body) != 1:
                raise Untranslatable("_solve_subunits: loop body")
            b = s.body[0]
            call = b
            if isinstance(b, ast.Try):
                if len(b.body) != 1 or len(b.handlers) != 1 or b.orelse or b.finalbody:
                    raise Untranslatable("_solve_subunits: try shape")
                h = b.handlers[0]
                catch = _path(h.type) if h.type is not None else "BaseException"
                if len(h.body) == 1 and isinstance(h.body[0], ast.Raise) and isinstance(h.body[0].exc, ast.Call):
                    rais = _path(h.body[0].exc.func)
                    chained = h.name is not None and _name(h.body[0].cause) == h.name
                    roles.append("try")
                    roles.append("raise-from" if chained else "raise")
                else:
                    raise Untranslatable("_solve_subunits: except handler does not raise")
                call = b.body[0]
            if not (isinstance(call, ast.Assign) and _name(call.targets[0]) == last and last is not None
                    and _call_path(call.value) == f"{u}.solve" and len(call.value.args) == 1
                    and _name(call.value.args[0]) == last):
                raise Untranslatable("_solve_subunits: sub-units are not solved as last := u.solve(last)")
            roles.insert(roles.index("for-subunits") + 1, "last:=u.solve(last)")
            continue
        raise Untranslatable(f"_solve_subunits: statement {ast.unparse(s)[:80]}")
    if "for-subunits" not in roles:
        raise Untranslatable("_solve_subunits: no loop over the sub-units")
    return roles, catch or "", rais or ""


def _store_emptiness_test(n, self_name):
    """`len(self.X) > 0` | `len(self.X) != 0` | `len(self.X) >= 1` | `bool(self.X)` | `self.X` (truthiness) -> X"""
    def store(e):
        p = pyexpr.attr_path(e)
        return p[1] if p and p[0] == self_name and len(p) == 2 else None
    if isinstance(n, ast.Compare) and len(n.ops) == 1 and _call_path(n.left) == "len" and len(n.left.args) == 1:
        c = _int_const(n.comparators[0])
        if (isinstance(n.ops[0], (ast.Gt, ast.NotEq)) and c == 0) or (isinstance(n.ops[0], ast.GtE) and c == 1):
            return store(n.left.args[0])
        return None
    if _call_path(n) == "bool" and len(n.args) == 1:
        return store(n.args[0])
    return store(n)


def function_wide_flags(cls):
    """properties of `HookFunction` that say "the mark store is not empty" (e.g. `cycle`): {property name: store attribute}"""
    out = {}
    for f in cls.body:
        if isinstance(f, ast.FunctionDef) and any(_name(d) == "property" for d in f.decorator_list) and len(f.args.args) == 1:
            st = _stmts(f)
            if len(st) == 1 and isinstance(st[0], ast.Return) and st[0].value is not None:
                x = _store_emptiness_test(st[0].value, f.args.args[0].arg)
                if x:
                    out[f.name] = x
    return out


def mark_store_scope(cls, attr):
    """where the mark store lives: `per-function` (`self.<attr> = set()` in `__init__`: one store per hook function object) |
    `shared` (a class attribute: one store for all hook functions)"""
    def is_empty_set(v):
        return isinstance(v, ast.Call) and _name(v.func) == "set" and not v.args and not v.keywords
    scope = None
    for st in cls.body:
        if isinstance(st, ast.Assign) and any(_name(t) == attr for t in st.targets):
            if not is_empty_set(st.value):
                raise Untranslatable(f"HookFunction.{attr}: class attribute initialised with {ast.unparse(st.value)[:60]}")
            scope = "shared"
    init = next((f for f in cls.body if isinstance(f, ast.FunctionDef) and f.name == "__init__"), None)
    if init is not None:
        self_name = init.args.args[0].arg
        for st in ast.walk(init):
            if isinstance(st, ast.Assign):
                for t in st.targets:
                    p = pyexpr.attr_path(t)
                    if p and p[0] == self_name and len(p) == 2 and p[1] == attr:
                        if not is_empty_set(st.value) or st not in init.body:
                            raise Untranslatable(f"HookFunction.__init__: {ast.unparse(st)[:80]}")
                        scope = "per-function"
    if scope is None:
        raise Untranslatable(f"HookFunction: the mark store `{attr}` is initialised nowhere")
    return scope


def extract_marks(fn, cls=None):
    """HookFunction.__call__: roles around the implementation call with respect to `_active_instances`; with `cls` (the class
    node) also where the mark store lives (first role `store:per-function` | `store:shared`) and the function-wide form of the
    cycle flag (`cycle = self.<property saying that the store is not empty>` -> `cycle:=any-mark`)"""
    self_name = fn.args.args[0].arg
    roles = []
    key = cyc = None
    marks_attr = None
    wide = function_wide_flags(cls) if cls is not None else {}

    def marks_call(n, method):
        nonlocal marks_attr
        if isinstance(n, ast.Expr) and isinstance(n.value, ast.Call) and isinstance(n.value.func, ast.Attribute) \
                and n.value.func.attr == method and len(n.value.args) == 1:
            p = pyexpr.attr_path(n.value.func.value)
            if p and p[0] == self_name and len(p) == 2 and _name(n.value.args[0]) == key:
                if marks_attr not in (None, p[1]):
                    raise Untranslatable("two different mark stores")
                marks_attr = p[1]
                return True
        return False
    for st in _stmts(fn):
        if isinstance(st, ast.Assign) and len(st.targets) == 1 and _name(st.targets[0]):
            v = st.value
            if _call_path(v) == "id" and len(v.args) == 1 and _name(v.args[0]):
                key = st.targets[0].id
                roles.append("key:=id(instance)")
                continue
            if isinstance(v, ast.Compare) and len(v.ops) == 1 and isinstance(v.ops[0], ast.In) and _name(v.left) == key:
                p = pyexpr.attr_path(v.comparators[0])
                if p and p[0] == self_name and len(p) == 2:
                    marks_attr = p[1]
                    cyc = st.targets[0].id
                    roles.append("cycle:=key-in-marks")
                    continue
            vp = pyexpr.attr_path(v)
            if vp and vp[0] == self_name and len(vp) == 2 and vp[1] in wide and key is not None and cyc is None:
                # the flag of the whole function: true while the function runs on ANY instance
                if marks_attr not in (None, wide[vp[1]]):
                    raise Untranslatable("two different mark stores")
                marks_attr = wide[vp[1]]
                cyc = st.targets[0].id
                roles.append("cycle:=any-mark")
                continue
            roles.append("local")
            continue
        if marks_call(st, "add"):
            roles.append("mark")
            continue
        if isinstance(st, ast.Try):
            roles.append("try")
            if not st.finalbody:
                roles.append("no-finally")
            for f in st.finalbody:
                if isinstance(f, ast.If) and not f.orelse and isinstance(f.test, ast.UnaryOp) and isinstance(f.test.op, ast.Not) \
                        and _name(f.test.operand) == cyc and len(f.body) == 1 and (marks_call(f.body[0], "discard")
                                                                                  or marks_call(f.body[0], "remove")):
                    roles.append("finally:unmark-unless-cycle")
                elif marks_call(f, "discard") or marks_call(f, "remove"):
                    roles.append("finally:unmark")
                else:
                    raise Untranslatable(f"HookFunction.__call__: finally statement {ast.unparse(f)[:80]}")
            continue
        if isinstance(st, ast.Return):
            roles.append("return")
            continue
        raise Untranslatable(f"HookFunction.__call__: statement {ast.unparse(st)[:80]}")
    if cls is not None:
        if marks_attr is None:
            raise Untranslatable("HookFunction.__call__: no mark store")
        roles.insert(0, "store:" + mark_store_scope(cls, marks_attr))
    return roles


def extract_defaults(repo=None):
    """-> (precision as tuple Expr, max iteration count as int): the default implementations return Config constants"""
    impls = _parse(UNIT_IMPLS, repo)
    cfg = _class(_parse(CONFIG, repo), "Config")
    consts = {}
    for st in cfg.body:
        if isinstance(st, ast.Assign) and len(st.targets) == 1 and _name(st.targets[0]) and isinstance(st.value, ast.Constant):
            consts[st.targets[0].id] = st.value.value
    found = {}
    for fn in impls.body:
        if not isinstance(fn, ast.FunctionDef):
            continue
        for dec in fn.decorator_list:
            p = _path(dec if not isinstance(dec, ast.Call) else dec.func)
            if p in ("Unit.iteration_precision", "Unit.max_iteration_count"):
                st = _stmts(fn)
                if len(st) != 1 or not isinstance(st[0], ast.Return):
                    raise Untranslatable(f"{fn.name}: not a single return")
                v = st[0].value
                vp = pyexpr.attr_path(v)
                if isinstance(v, ast.Constant):
                    val = v.value
                elif vp and vp[0] == "Config" and len(vp) == 2 and vp[1] in consts:
                    val = consts[vp[1]]
                else:
                    raise Untranslatable(f"{fn.name}: returns {ast.unparse(v)[:60]}")
                if p in found:
                    raise Untranslatable(f"two default implementations of {p}")
                found[p] = val
    if set(found) != {"Unit.iteration_precision", "Unit.max_iteration_count"}:
        raise Untranslatable("default implementations of iteration_precision / max_iteration_count not found")
    mi = found["Unit.max_iteration_count"]
    if not isinstance(mi, int) or isinstance(mi, bool) or mi < 0:
        raise Untranslatable(f"default max_iteration_count {mi!r}")
    return pyexpr.const(found["Unit.iteration_precision"]), mi


# ---- the roll-pass class family: who defines `get_root_hook_results` / `reevaluate_cache`, in which order they are found ----

FAMILY_FILES = ["roll_pass/base.py", "roll_pass/symmetric_roll_pass.py", "roll_pass/two_roll_pass.py",
                "roll_pass/three_roll_pass.py", "roll_pass/deformation_unit.py", "disk_elements/disk_element_unit.py",
                UNIT, "roll/roll.py", HOOKS]
PASS_CLASSES = ["TwoRollPass", "ThreeRollPass"]     # the concrete unit classes with a roll
ROLL_ATTR = "roll"


def _top_classes(tree):
    return [n for n in tree.body if isinstance(n, ast.ClassDef)]


def _aliases(tree):
    """`from x import A as B` -> {B: A}"""
    out = {}
    for n in tree.body:
        if isinstance(n, ast.ImportFrom):
            for a in n.names:
                if a.asname:
                    out[a.asname] = a.name
    return out


def _methods_of(cls):
    return {f.name: f for f in cls.body if isinstance(f, ast.FunctionDef)}


def extract_host_reevaluate(fn):
    """`HookHost.reevaluate_cache`: every cached entry is re-evaluated in place (`self.__cache__[n] = hook.get_result(self)`)"""
    self_name = fn.args.args[0].arg
    st = _stmts(fn)
    if len(st) == 1 and isinstance(st[0], ast.For) and not st[0].orelse and _name(st[0].target):
        n = st[0].target.id
        srcs = {_path(x) for x in ast.walk(st[0].iter) if isinstance(x, ast.Attribute)}
        stores = [b for b in st[0].body if isinstance(b, ast.Assign) and len(b.targets) == 1
                  and isinstance(b.targets[0], ast.Subscript) and _path(b.targets[0].value) == f"{self_name}.__cache__"
                  and _name(b.targets[0].slice) == n and isinstance(b.value, ast.Call)
                  and isinstance(b.value.func, ast.Attribute) and b.value.func.attr == "get_result"
                  and [_name(a) for a in b.value.args] == [self_name]]
        others = [b for b in st[0].body if b not in stores and not (isinstance(b, ast.Assign) and _name(b.targets[0]))]
        if f"{self_name}.__cache__" in srcs and len(stores) == 1 and not others:
            return ["reevaluate-cached"]
    raise Untranslatable("HookHost.reevaluate_cache: not `for n in <keys of self.__cache__>: self.__cache__[n] = hook.get_result(self)`")


def _c3(name, bases_of, memo):
    """C3 linearisation (python's MRO) over the classes of `bases_of`; bases that are not in the table are left out"""
    if name in memo:
        return memo[name]
    seqs = [list(_c3(b, bases_of, memo)) for b in bases_of[name] if b in bases_of] + [[b for b in bases_of[name] if b in bases_of]]
    out = [name]
    while any(seqs):
        for sq in seqs:
            if sq and not any(sq[0] in other[1:] for other in seqs):
                head = sq[0]
                break
        else:
            raise Untranslatable(f"inconsistent class hierarchy at {name}")
        out.append(head)
        seqs = [[c for c in sq if c != head] for sq in seqs]
    memo[name] = out
    return out


def extract_family(repo=None):
    """-> dict(class_bases, mro, result_methods, eval_methods, cache_methods): the classes a roll pass and its roll are built
    from (top-level classes of FAMILY_FILES and the nested `Roll` classes), their bases as written, the linearisations of the
    concrete pass classes and of their `Roll` classes, and EVERY definition of `get_root_hook_results` / `reevaluate_cache`
    found in them (in the order of FAMILY_FILES)"""
    bases_of, defs = {}, {}
    order = []
    for rel in FAMILY_FILES:
        tree = _parse(rel, repo)
        alias = _aliases(tree)
        for cls in _top_classes(tree):
            todo = [(cls.name, cls)] + [(f"{cls.name}.{n.name}", n) for n in cls.body
                                        if isinstance(n, ast.ClassDef) and n.name == "Roll"]
            for qual, node in todo:
                bs = []
                for b in node.bases:
                    pth = pyexpr.attr_path(b)
                    if not pth:
                        bs.append("?")            # (e.g. `Generic[T]`; refused below if such a class belongs to the family)
                        continue
                    pth = [alias.get(pth[0], pth[0])] + list(pth[1:])
                    bs.append(".".join(pth))
                if qual in bases_of:
                    raise Untranslatable(f"class {qual} defined twice")
                bases_of[qual] = bs
                defs[qual] = _methods_of(node)
                order.append(qual)
    for c in PASS_CLASSES:
        if c not in bases_of or f"{c}.Roll" not in bases_of:
            raise Untranslatable(f"class {c} / {c}.Roll not found")
    # `self.roll = self.Roll(...)`: the attribute holds an instance of the nested `Roll` class of the pass's own class
    init = defs.get("SymmetricRollPass", {}).get("__init__")
    ok = False
    if init is not None:
        sn = init.args.args[0].arg
        for n in ast.walk(init):
            if isinstance(n, ast.Assign) and len(n.targets) == 1 and _path(n.targets[0]) == f"{sn}.{ROLL_ATTR}" \
                    and _call_path(n.value) == f"{sn}.Roll":
                ok = True
    if not ok:
        raise Untranslatable("SymmetricRollPass.__init__ does not bind self.roll = self.Roll(...)")
    memo = {}
    mro = [(c, _c3(c, bases_of, memo)) for c in PASS_CLASSES + [f"{c}.Roll" for c in PASS_CLASSES]]
    used = []
    for _, chain in mro:
        for c in chain:
            if c not in used:
                used.append(c)
    used = [c for c in order if c in used]
    for c in used:
        if "?" in bases_of[c]:
            raise Untranslatable(f"class {c}: a base that is not a (dotted) name")
    result_methods, eval_methods, cache_methods = [], [], []
    for c in used:
        m = defs[c]
        if "get_root_hook_results" in m:
            ev, cc = extract_results(m["get_root_hook_results"])
            result_methods.append((c, cc))
            eval_methods.append((c, ev))
        if "reevaluate_cache" in m:
            cache_methods.append((c, extract_host_reevaluate(m["reevaluate_cache"]) if c == "HookHost"
                                  else extract_cache_override(m["reevaluate_cache"])))
        if "evaluate_and_set_hooks" in m and c != "HookHost":
            raise Untranslatable(f"{c} overrides evaluate_and_set_hooks")
    return {"class_bases": [(c, bases_of[c]) for c in used], "mro": mro, "result_methods": result_methods,
            "eval_methods": eval_methods, "cache_methods": cache_methods}


def extract(repo=None):
    unit = _class(_parse(UNIT, repo), "Unit")
    info = extract_solve(_method(unit, "solve"))
    info["old_init"] = extract_old_init(_method(unit, "__init__"), info["old_attr"])
    info["init_roles"], info["out_profile"] = extract_init_solve(_method(unit, "init_solve"))
    info["eval_order"], info["concat_order"] = extract_results(_method(unit, "get_root_hook_results"))
    fam = extract_family(repo)
    info["family"] = fam
    # overrides = every definition found in the family besides the base ones (`Unit.get_root_hook_results`,
    # `HookHost.reevaluate_cache`); on the tree the model was written for these are RESULT_OVERRIDES / CACHE_OVERRIDES
    info["result_overrides"] = [(c, r) for c, r in fam["result_methods"] if c != "Unit"]
    info["cache_overrides"] = [(c, r) for c, r in fam["cache_methods"] if c != "HookHost"]
    info["subunits"], info["sub_catch"], info["sub_raise"] = extract_subunits(_method(unit, "_solve_subunits"))
    hf = _class(_parse(HOOKS, repo), "HookFunction")
    info["marks"] = extract_marks(_method(hf, "__call__"), hf)
    info["default_prec"], info["default_max_iter"] = extract_defaults(repo)
    return info


# ---- Lean emission -------------------------------------------------------------------------------------------

def _strs(xs):
    return "[" + ", ".join(pyexpr.lean_str(x) for x in xs) + "]"


def _int(i):
    return f"({i})" if i < 0 else str(i)


def _pairs(xs):
    return "[" + ", ".join(f"({pyexpr.lean_str(a)}, {_strs(b)})" for a, b in xs) + "]"


def lean_shape(info):
    t = info["test"]
    return ("{ prelude := %s, budgetAttr := %s,\n"
            "      body := %s,\n"
            "      testVars := %s, testAll := %s,\n"
            "      onBreak := %s, onExhaustion := %s,\n"
            "      epilogue := %s,\n"
            "      oldInit := %s, initSolve := %s, outProfile := %s,\n"
            "      evalOrder := %s, concatOrder := %s,\n"
            "      resultOverrides := %s,\n"
            "      cacheOverrides := %s,\n"
            "      subunits := %s, subCatch := %s, subRaise := %s,\n"
            "      marks := %s }") % (
        _strs(info["prelude"]), pyexpr.lean_str(info["budget_attr"]), _strs(info["body"]),
        _strs(["cur", t["old_attr"], t["prec_attr"]]), "true" if t["all"] else "false",
        _strs(t["branch"]), pyexpr.lean_str(info["exhaustion"]), _strs(info["epilogue"]),
        pyexpr.lean_str(info["old_init"]), _strs(info["init_roles"]), pyexpr.lean_str(info["out_profile"]),
        _strs(info["eval_order"]), _strs(info["concat_order"]), _pairs(info["result_overrides"]),
        _pairs(info["cache_overrides"]), _strs(info["subunits"]), pyexpr.lean_str(info["sub_catch"]),
        pyexpr.lean_str(info["sub_raise"]), _strs(info["marks"]))


UNRECOGNISED = ("{ prelude := [], budgetAttr := \"<unrecognised>\", body := [], testVars := [], testAll := false, onBreak := [], "
                "onExhaustion := \"\", epilogue := [], oldInit := \"\", initSolve := [], outProfile := \"\", evalOrder := [], "
                "concatOrder := [], resultOverrides := [], cacheOverrides := [], subunits := [], subCatch := \"\", subRaise := \"\", "
                "marks := [] }")


def emit(ctx, repo=None):
    """write lean/PyrollModel/Gen/C05.lean; returns the extracted info (or None)"""
    lines = ["import PyrollModel.Expr", "import PyrollModel.Solve",
             "/- GENERATED by driver/translate/c05_loop.py from /repo's working tree on every run - do not edit. -/",
             "namespace Gen.C05", ""]
    info = None
    try:
        info = extract(repo)
    except Untranslatable as ex:
        ctx.tie_breaks.append(f"translator: Unit.solve and what it relies on left the recognised pattern: {ex}")
    except (OSError, SyntaxError) as ex:
        ctx.tie_breaks.append(f"translator: anchored source unreadable: {type(ex).__name__}: {ex}")
    if info is None:
        # keep the module well-formed; the shape obligation and the theorems about the comparison then fail
        lines += [f"def loop_shape : Solve.Shape :=\n    {UNRECOGNISED}", "def range_start : Int := 0",
                  "def range_stop_offset : Int := 0", "def test_lhs_e : Expr := .var \"<unrecognised>\"",
                  "def test_rhs_e : Expr := .var \"<unrecognised>\"", "def test_op : Solve.Cmp := .gt",
                  "def default_prec_e : Expr := .var \"<unrecognised>\"", "def default_max_iter : Nat := 0",
                  "def class_bases : List (String × List String) := []", "def mro : List (String × List String) := []",
                  "def result_methods : List (String × List String) := []",
                  "def eval_methods : List (String × List String) := []",
                  "def cache_methods : List (String × List String) := []"]
    else:
        t = info["test"]
        fam = info["family"]
        lines += ["/-- pyroll/core/unit/unit.py `Unit.solve`, `Unit.__init__`, `Unit.init_solve`, `Unit.get_root_hook_results`,",
                  "    `Unit._solve_subunits`; overrides in roll_pass/{base,symmetric_roll_pass,two_roll_pass}.py, roll/roll.py;",
                  "    hooks.py `HookFunction.__call__` -/",
                  f"def loop_shape : Solve.Shape :=\n    {lean_shape(info)}", "",
                  f"/-- `for i in range({info['range_start']}, self.{info['budget_attr']} + {info['range_stop_offset']})` -/",
                  f"def range_start : Int := {_int(info['range_start'])}",
                  f"def range_stop_offset : Int := {_int(info['range_stop_offset'])}", "",
                  "/-- element-wise comparison of the stop test: `test_lhs_e <test_op> test_rhs_e` over cur, old, prec -/",
                  f"def test_lhs_e : Expr := {pyexpr.lean_expr(t['lhs'])}",
                  f"def test_rhs_e : Expr := {pyexpr.lean_expr(t['rhs'])}",
                  f"def test_op : Solve.Cmp := .{t['op']}", "",
                  "/-- unit/hookimpls.py defaults through config.py -/",
                  f"def default_prec_e : Expr := {pyexpr.lean_expr(info['default_prec'])}",
                  f"def default_max_iter : Nat := {info['default_max_iter']}", "",
                  "/-- the classes a roll pass (`TwoRollPass`, `ThreeRollPass`) and its roll (`self.roll = self.Roll(…)`, the nested",
                  "    `Roll` class) are built from - roll_pass/*.py, disk_elements/disk_element_unit.py, unit/unit.py, roll/roll.py,",
                  "    hooks.py - with their bases as written in the `class` statements -/",
                  f"def class_bases : List (String × List String) :=\n    {_pairs(fam['class_bases'])}",
                  "/-- python's method resolution order (C3 linearisation of `class_bases`; compared with `cls.__mro__` on every run) -/",
                  f"def mro : List (String × List String) :=\n    {_pairs(fam['mro'])}",
                  "/-- EVERY definition of `get_root_hook_results` in these classes: concatenation order / evaluation order -/",
                  f"def result_methods : List (String × List String) := {_pairs(fam['result_methods'])}",
                  f"def eval_methods : List (String × List String) := {_pairs(fam['eval_methods'])}",
                  "/-- EVERY definition of `reevaluate_cache` in these classes: statement roles -/",
                  f"def cache_methods : List (String × List String) :=\n    {_pairs(fam['cache_methods'])}"]
    lines += ["", "def table : List (String × Expr) := [(\"test_lhs_e\", test_lhs_e), (\"test_rhs_e\", test_rhs_e), "
              "(\"default_prec_e\", default_prec_e)]", "", "end Gen.C05"]
    text = "\n".join(lines) + "\n"
    changed = pyexpr.write_if_changed(os.path.join(LEAN_DIR, "PyrollModel", "Gen", "C05.lean"), text)
    ctx.notes.setdefault("generated", {})["Gen/C05.lean"] = {"defs": 14, "rewritten": changed}
    return info
