"""(T) translator core: python `ast` -> Lean `Expr` / `Guard` / `Impl` text.

Accepted subset (anything else raises `Untranslatable`, which the caller records as a translator gap):
  numbers, + - * / , ** <int literal>, unary -, names bound by earlier local assignments, attribute paths
  rooted at the first parameter (`self.a.b.c` -> variable "a.b.c"), subscripts with constant index
  (`x.bounds[3]` -> variable "x.bounds[3]"), np.sqrt/sin/cos/tan/arcsin/arccos/arctan/log/exp/abs, abs, np.pi,
  math.* equivalents, `Config.NAME` (-> variable "Config.NAME"), conditional expressions are NOT expressions of
  `Expr` and are handled by the statement-level extractor as guarded alternatives.
"""
import ast
import decimal
import os

FUNCS = {
    "sqrt": "sqrt", "sin": "sin", "cos": "cos", "tan": "tan", "arcsin": "asin", "arccos": "acos",
    "arctan": "atan", "asin": "asin", "acos": "acos", "atan": "atan", "log": "log", "exp": "exp",
    "abs": "abs", "fabs": "abs",
}


class Untranslatable(Exception):
    pass


# ---- Expr as python tuples ------------------------------------------------------------------------
# ("var", name) ("nat", n) ("dec", m, e) ("pi",) (op, a, b) for add/sub/mul/div, ("neg", a), ("pow", a, n),
# (fn, a) for the unary functions

def const(x):
    if isinstance(x, bool):
        raise Untranslatable("bool literal")
    if isinstance(x, int):
        if x < 0:
            return ("neg", ("nat", -x))
        return ("nat", x)
    if isinstance(x, float):
        if x != x or x in (float("inf"), float("-inf")):
            raise Untranslatable("non-finite literal")
        if x < 0:
            return ("neg", const(-x))
        d = decimal.Decimal(repr(x))
        sign, digits, exp = d.as_tuple()
        m = int("".join(map(str, digits)))
        if exp >= 0:
            return ("nat", m * 10 ** exp)
        return ("dec", m, -exp)
    raise Untranslatable(f"literal {x!r}")


def attr_path(node):
    """a.b.c / a.b[3] -> ("a", "b", "c") root-first; None if not a pure path"""
    if isinstance(node, ast.Name):
        return [node.id]
    if isinstance(node, ast.Attribute):
        p = attr_path(node.value)
        return None if p is None else p + [node.attr]
    if isinstance(node, ast.Subscript) and isinstance(node.slice, ast.Constant) and isinstance(node.slice.value, int):
        p = attr_path(node.value)
        if p is None:
            return None
        return p[:-1] + [p[-1] + f"[{node.slice.value}]"]
    return None


class ExprTranslator:
    def __init__(self, self_name="self", locals_=None, free_names=()):
        self.self_name = self_name
        self.locals = dict(locals_ or {})
        self.free_names = set(free_names)   # bare names that are variables (function parameters)

    def tr(self, n):
        if isinstance(n, ast.Constant):
            return const(n.value)
        if isinstance(n, ast.BinOp):
            if isinstance(n.op, ast.Pow):
                if isinstance(n.right, ast.Constant) and isinstance(n.right.value, int) and n.right.value >= 0:
                    return ("pow", self.tr(n.left), n.right.value)
                raise Untranslatable("power with non-literal exponent")
            ops = {ast.Add: "add", ast.Sub: "sub", ast.Mult: "mul", ast.Div: "div"}
            if type(n.op) not in ops:
                raise Untranslatable(f"operator {type(n.op).__name__}")
            return (ops[type(n.op)], self.tr(n.left), self.tr(n.right))
        if isinstance(n, ast.UnaryOp):
            if isinstance(n.op, ast.USub):
                return ("neg", self.tr(n.operand))
            if isinstance(n.op, ast.UAdd):
                return self.tr(n.operand)
            raise Untranslatable("unary operator")
        if isinstance(n, ast.Call):
            f = n.func
            name = None
            if isinstance(f, ast.Attribute) and isinstance(f.value, ast.Name) and f.value.id in ("np", "numpy", "math"):
                name = f.attr
            elif isinstance(f, ast.Name) and f.id == "abs":
                name = "abs"
            if name in FUNCS and len(n.args) == 1 and not n.keywords:
                return (FUNCS[name], self.tr(n.args[0]))
            if name == "deg2rad" and len(n.args) == 1:
                return ("mul", self.tr(n.args[0]), ("div", ("pi",), ("nat", 180)))
            if name == "rad2deg" and len(n.args) == 1:
                return ("mul", self.tr(n.args[0]), ("div", ("nat", 180), ("pi",)))
            raise Untranslatable(f"call {ast.unparse(f)}")
        p = attr_path(n)
        if p is not None:
            if p[0] in ("np", "numpy", "math") and p[1:] == ["pi"]:
                return ("pi",)
            if p[0] == self.self_name:
                if len(p) == 1:
                    raise Untranslatable("bare self")
                return ("var", ".".join(p[1:]))
            if len(p) == 1 and p[0] in self.locals:
                return self.locals[p[0]]
            if p[0] in self.locals and isinstance(self.locals[p[0]], tuple) and self.locals[p[0]][0] == "var":
                return ("var", self.locals[p[0]][1] + "." + ".".join(p[1:]))
            if len(p) == 1 and p[0] in self.free_names:
                return ("var", p[0])
            if p[0] == "Config":
                return ("var", ".".join(p))
            raise Untranslatable(f"name {'.'.join(p)}")
        raise Untranslatable(f"node {type(n).__name__}: {ast.unparse(n)[:60]}")


# ---- Guards -------------------------------------------------------------------------------------------
# ("tt",) ("hasValue", obj, attr) ("hasSet", obj, attr) ("hasSetOrCached", obj, attr) ("hasCached", obj, attr)
# ("cycle",) ("not", g) ("and", a, b) ("or", a, b) ("inSet", elem, setpath) ("isNone", path) ("opaque", src)

def tr_guard(n, self_name="self", locals_=None):
    locals_ = locals_ or {}
    if isinstance(n, ast.BoolOp):
        parts = [tr_guard(v, self_name, locals_) for v in n.values]
        op = "and" if isinstance(n.op, ast.And) else "or"
        g = parts[0]
        for p in parts[1:]:
            g = (op, g, p)
        return g
    if isinstance(n, ast.UnaryOp) and isinstance(n.op, ast.Not):
        return ("not", tr_guard(n.operand, self_name, locals_))
    if isinstance(n, ast.Name) and n.id == "cycle":
        return ("cycle",)
    if isinstance(n, ast.Call):
        f = n.func
        if isinstance(f, ast.Attribute) and f.attr in ("has_value", "has_set", "has_set_or_cached", "has_cached") \
                and len(n.args) == 1 and isinstance(n.args[0], ast.Constant):
            p = attr_path(f.value)
            if p is not None and p[0] == self_name:
                kind = {"has_value": "hasValue", "has_set": "hasSet", "has_set_or_cached": "hasSetOrCached",
                        "has_cached": "hasCached"}[f.attr]
                return (kind, ".".join(p[1:]), n.args[0].value)
        if isinstance(f, ast.Name) and f.id == "hasattr" and len(n.args) == 2 and isinstance(n.args[1], ast.Constant):
            p = attr_path(n.args[0])
            if p is not None and p[0] == self_name:
                return ("hasValue", ".".join(p[1:]), n.args[1].value)
    if isinstance(n, ast.Compare) and len(n.ops) == 1:
        op = n.ops[0]
        if isinstance(op, (ast.In, ast.NotIn)) and isinstance(n.left, ast.Constant) and isinstance(n.left.value, str):
            p = attr_path(n.comparators[0])
            if p is not None and p[0] == self_name:
                g = ("inSet", n.left.value, ".".join(p[1:]))
                return g if isinstance(op, ast.In) else ("not", g)
        if isinstance(op, (ast.Is, ast.IsNot)) and isinstance(n.comparators[0], ast.Constant) \
                and n.comparators[0].value is None:
            p = attr_path(n.left)
            if p is not None:
                g = ("isNone", ".".join(p[1:] if p[0] == self_name else p))
                return g if isinstance(op, ast.Is) else ("not", g)
    return ("opaque", ast.unparse(n))


# ---- Lean emission ------------------------------------------------------------------------------------

def lean_str(s):
    return '"' + s.replace("\\", "\\\\").replace('"', '\\"') + '"'


def lean_expr(e):
    k = e[0]
    if k == "ref":            # reference to an earlier generated Lean definition (let-style chains)
        return e[1]
    if k == "var":
        return f"(.var {lean_str(e[1])})"
    if k == "nat":
        return f"(.nat {e[1]})"
    if k == "dec":
        return f"(.dec {e[1]} {e[2]})"
    if k == "pi":
        return ".pi"
    if k in ("add", "sub", "mul", "div"):
        return f"(.{k} {lean_expr(e[1])} {lean_expr(e[2])})"
    if k == "pow":
        return f"(.pow {lean_expr(e[1])} {e[2]})"
    return f"(.{k} {lean_expr(e[1])})"


def lean_guard(g):
    k = g[0]
    if k == "tt":
        return ".tt"
    if k == "cycle":
        return ".cycle"
    if k in ("hasValue", "hasSet", "hasSetOrCached", "hasCached", "inSet"):
        return f"(.{k} {lean_str(g[1])} {lean_str(g[2])})"
    if k == "isNone":
        return f"(.isNone {lean_str(g[1])})"
    if k == "not":
        return f"(.not {lean_guard(g[1])})"
    if k in ("and", "or"):
        return f"(.{k} {lean_guard(g[1])} {lean_guard(g[2])})"
    if k == "opaque":
        return f"(.opaque {lean_str(g[1])})"
    raise ValueError(g)


def expr_vars(e):
    if e[0] == "var":
        return [e[1]]
    out = []
    for x in e[1:]:
        if isinstance(x, tuple):
            out += expr_vars(x)
    return out


def py_eval(e, env):
    """reference evaluation of the tuple form with python floats / numpy (used to cross-check the translator)"""
    import math
    k = e[0]
    if k == "var":
        return env[e[1]]
    if k == "ref":
        return env["@" + e[1]]
    if k == "nat":
        return float(e[1])
    if k == "dec":
        return float(decimal.Decimal(e[1]).scaleb(-e[2]))
    if k == "pi":
        return math.pi
    if k == "add":
        return py_eval(e[1], env) + py_eval(e[2], env)
    if k == "sub":
        return py_eval(e[1], env) - py_eval(e[2], env)
    if k == "mul":
        return py_eval(e[1], env) * py_eval(e[2], env)
    if k == "div":
        return py_eval(e[1], env) / py_eval(e[2], env)
    if k == "neg":
        return -py_eval(e[1], env)
    if k == "pow":
        return py_eval(e[1], env) ** e[2]
    import numpy as np
    f = {"sqrt": np.sqrt, "sin": np.sin, "cos": np.cos, "tan": np.tan, "asin": np.arcsin, "acos": np.arccos,
         "atan": np.arctan, "log": np.log, "exp": np.exp, "abs": np.abs}[k]
    return float(f(py_eval(e[1], env)))


# ---- hook implementation extraction -------------------------------------------------------------------

class HookImpl:
    def __init__(self):
        self.module = self.host = self.hook = self.fn = None
        self.tier = 1
        self.wrapper = False
        self.wants_cycle = False
        self.alts = []          # list of (guard, expr-or-None) tried in order; first guard that holds returns
        self.gap = None         # reason why the body is outside the subset
        self.lineno = 0
        self.src = ""


def _decorator_info(dec):
    """@Cls.Path.hook or @Cls.Path.hook(tryfirst=True, ...) -> (host, hook, tier, wrapper)"""
    tier, wrapper = 1, False
    node = dec
    if isinstance(dec, ast.Call):
        node = dec.func
        for kw in dec.keywords:
            if kw.arg == "tryfirst" and getattr(kw.value, "value", False):
                tier = 0
            if kw.arg == "trylast" and getattr(kw.value, "value", False):
                tier = 2
            if kw.arg == "wrapper" and getattr(kw.value, "value", False):
                wrapper = True
    p = attr_path(node)
    if p is None or len(p) < 2:
        return None
    return ".".join(p[:-1]), p[-1], tier, wrapper


def _sum_over(n, self_name):
    """sum([u.attr for u in self.coll]) -> (coll, attr)"""
    if isinstance(n, ast.Call) and isinstance(n.func, ast.Name) and n.func.id == "sum" and len(n.args) == 1:
        a = n.args[0]
        if isinstance(a, (ast.ListComp, ast.GeneratorExp)) and len(a.generators) == 1 and not a.generators[0].ifs:
            g = a.generators[0]
            coll = attr_path(g.iter)
            elt = attr_path(a.elt)
            if coll and elt and coll[0] == self_name and isinstance(g.target, ast.Name) and elt[0] == g.target.id \
                    and len(elt) == 2:
                return (".".join(coll[1:]), elt[1])
    return None


def extract_function(fn: ast.FunctionDef, impl: HookImpl):
    """fill impl.alts from the statement list: straight-line local assignments, `if g: return e`, `return e`."""
    self_name = fn.args.args[0].arg if fn.args.args else "self"
    impl.wants_cycle = any(a.arg == "cycle" for a in fn.args.args)
    locals_ = {}

    def block(stmts, guard, locals_):
        """returns True if the block certainly returns"""
        for st in stmts:
            if isinstance(st, ast.Expr) and isinstance(st.value, ast.Constant) and isinstance(st.value.value, str):
                continue  # docstring
            if isinstance(st, (ast.Import, ast.ImportFrom)):
                continue
            if isinstance(st, ast.Return):
                if st.value is None or (isinstance(st.value, ast.Constant) and st.value.value is None):
                    impl.alts.append((guard, None, "none"))
                else:
                    so = _sum_over(st.value, self_name)
                    if so is not None:
                        impl.alts.append((guard, so, "sumOver"))
                        return True
                    try:
                        e = ExprTranslator(self_name, locals_).tr(st.value)
                        impl.alts.append((guard, e, "expr"))
                    except Untranslatable as ex:
                        impl.alts.append((guard, None, "opaque:" + ast.unparse(st.value)[:200]))
                        impl.gap = impl.gap or str(ex)
                return True
            if isinstance(st, ast.Assign) and len(st.targets) == 1 and isinstance(st.targets[0], ast.Name):
                try:
                    if isinstance(st.value, ast.IfExp):
                        raise Untranslatable("conditional expression in assignment")
                    locals_ = dict(locals_)
                    locals_[st.targets[0].id] = ExprTranslator(self_name, locals_).tr(st.value)
                    continue
                except Untranslatable as ex:
                    impl.gap = impl.gap or f"assignment {st.targets[0].id}: {ex}"
                    impl.alts.append((guard, None, "opaque:" + ast.unparse(st)[:200]))
                    return True
            if isinstance(st, ast.AnnAssign) and isinstance(st.target, ast.Name) and st.value is not None:
                try:
                    locals_ = dict(locals_)
                    locals_[st.target.id] = ExprTranslator(self_name, locals_).tr(st.value)
                    continue
                except Untranslatable as ex:
                    impl.gap = impl.gap or f"assignment {st.target.id}: {ex}"
                    impl.alts.append((guard, None, "opaque:" + ast.unparse(st)[:200]))
                    return True
            if isinstance(st, ast.If):
                g = tr_guard(st.test, self_name, locals_)
                g_and = g if guard == ("tt",) else ("and", guard, g)
                ret_then = block(st.body, g_and, locals_)
                ng = ("not", g)
                ng_and = ng if guard == ("tt",) else ("and", guard, ng)
                if st.orelse:
                    ret_else = block(st.orelse, ng_and, locals_)
                    if ret_then and ret_else:
                        return True
                    if ret_then:
                        guard = ng_and
                    elif ret_else:
                        guard = g_and
                    else:
                        impl.gap = impl.gap or "if/else falling through on both branches"
                        impl.alts.append((guard, None, "opaque:" + ast.unparse(st)[:200]))
                        return True
                else:
                    if ret_then:
                        guard = ng_and
                    else:
                        impl.gap = impl.gap or "if without return"
                        impl.alts.append((guard, None, "opaque:" + ast.unparse(st)[:200]))
                        return True
                continue
            impl.gap = impl.gap or f"statement {type(st).__name__}"
            impl.alts.append((guard, None, "opaque:" + ast.unparse(st)[:200]))
            return True
        impl.alts.append((guard, None, "none"))   # falls off the end: returns None
        return True

    block(fn.body, ("tt",), locals_)


def extract_hookimpls(path, module_name=None):
    """all hook implementations of one python file, in source order"""
    src = open(path).read()
    tree = ast.parse(src)
    out = []
    for node in tree.body:
        if not isinstance(node, ast.FunctionDef):
            continue
        for dec in node.decorator_list:
            info = _decorator_info(dec)
            if info is None:
                continue
            impl = HookImpl()
            impl.module = module_name or os.path.basename(path)
            impl.host, impl.hook, impl.tier, impl.wrapper = info
            impl.fn = node.name
            impl.lineno = node.lineno
            impl.src = ast.get_source_segment(src, node)
            extract_function(node, impl)
            out.append(impl)
    return out


def lean_impl(impl: HookImpl):
    alts = []
    for (g, e, kind) in impl.alts:
        if kind == "expr":
            body = f"(.expr {lean_expr(e)})"
        elif kind == "sumOver":
            body = f"(.sumOver {lean_str(e[0])} {lean_str(e[1])})"
        elif kind == "none":
            body = ".none"
        else:
            body = f"(.opaque {lean_str(kind[7:])})"
        alts.append(f"({lean_guard(g)}, {body})")
    return ("{ host := %s, hook := %s, fn := %s, tier := %d, wrapper := %s, wantsCycle := %s,\n      alts := [%s] }"
            % (lean_str(impl.host), lean_str(impl.hook), lean_str(impl.fn), impl.tier,
               "true" if impl.wrapper else "false", "true" if impl.wants_cycle else "false",
               ",\n               ".join(alts)))


def write_if_changed(path, text):
    old = open(path).read() if os.path.exists(path) else None
    if old != text:
        os.makedirs(os.path.dirname(path), exist_ok=True)
        tmp = path + ".tmp%d" % os.getpid()
        with open(tmp, "w") as f:
            f.write(text)
        os.replace(tmp, path)
        return True
    return False
