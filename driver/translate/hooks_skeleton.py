"""(T) for C01 / C02 / C07: the hook machinery `pyroll/core/hooks.py` read with `ast` on every run.

The three hand-written models (`PyrollModel/HookReg|HookEval|HookOps|HookUse.lean`, `Lifecycle.lean`, `Failure.lean`)
mirror the functions listed in `FUNCS`.  This module re-reads them from the working tree (`driver.core.REPO`) and emits

  * per function an ordered table of ROLE LINES: the statements of the function in a canonical form that is built from
    whitelisted `ast` node kinds only (never from source text):
      - comments, blank lines, line breaks, doc strings, type annotations and `…logger.debug(...)` statements vanish,
      - positional parameters are named by their POSITION (`instance`, `owner`, … from `FUNCS`), keyword parameters
        (those with a default: they are API) must keep their name and default,
      - local variables are numbered in the order they are first bound (`v0`, `v1`, …): renaming a local changes nothing,
      - a local that is bound once and used once, in the statement that follows, is substituted (an expression split
        into two statements and the same expression written in one read the same),
      - keyword arguments of calls are sorted, exception messages are dropped (`raise AttributeError`),
      - everything that decides behaviour stays: which dictionary a statement touches (`__dict__` / `__cache__`), the
        tested condition (`is not None` vs. truthiness), the store names and their order in the `yield from` lines,
        `reversed(...)`, `self.owner.__mro__`, the exception classes caught and raised, whether a statement sits in
        `try`, `except`, `else` or `finally`;
  * typed FACTS read off the canonical form (the tier order, the `reversed` flag, the store chosen by `add_function` for
    each flag combination, the stores `remove_function` looks into, whether the re-entrancy mark is discarded in a
    `finally`, the tests and conversions of `Hook.__get__`, where `has_set` / `has_cached` look, what
    `reevaluate_cache` does with each remembered name): these are what the Lean models CONSUME;
  * `stateWriters`: every place of the whole file that writes `__dict__`, `__cache__`, `_active_instances` or one of the
    six stores (function, container, operation), sorted - so a new writer in a function nobody reads is noticed;
  * `classMembers`: the names defined in the four classes, sorted (a new `__getattr__`, `__setattr__`, … is noticed).

A node kind outside the whitelist raises `Gap` naming the function and the statement; `emit` turns that into a
`ctx.tie_breaks` entry and writes a `<missing>` table, so that the certificate theorems fail (never pass silently).
Every property writes its own module (`Gen/C01Hooks.lean`, `Gen/C02Hooks.lean`, `Gen/C07Hooks.lean`).
"""
import ast
import copy
import os
import re

from .pyexpr import Untranslatable, lean_str, write_if_changed


class Gap(Untranslatable):
    pass


HOOKS = os.path.join("pyroll", "core", "hooks.py")

STORES = ["_first_wrappers", "_wrappers", "_last_wrappers", "_first_functions", "_functions", "_last_functions"]
CONTAINERS = ["__dict__", "__cache__", "_active_instances"] + STORES
MUTATORS = {"add", "discard", "remove", "append", "extend", "insert", "pop", "popitem", "clear", "update", "setdefault",
            "sort", "reverse", "__setitem__", "__delitem__"}

# qualified name -> canonical names of the parameters by position; `name=` marks a keyword parameter (API: the name
# must be this one and the default is part of the role lines)
FUNCS = {
    "_all_finite": ["value"],
    "HookFunction.__init__": ["self", "func", "hook", "tryfirst=", "trylast=", "wrapper="],
    "HookFunction.cycle": ["self"],
    "HookFunction.__call__": ["self", "instance"],
    "HookFunction._determine_extra_args": ["self", "cycle"],
    "HookFunction.__enter__": ["self"],
    "HookFunction.__exit__": ["self", "exc_type", "exc_val", "exc_tb"],
    "Hook.__init__": ["self", "name=", "owner="],
    "Hook.__set_name__": ["self", "owner", "name"],
    "Hook.__get__": ["self", "instance", "owner"],
    "Hook.__set__": ["self", "instance", "value"],
    "Hook.__delete__": ["self", "instance"],
    "Hook._yield_functions_from": ["self", "attr"],
    "Hook.functions_gen": ["self"],
    "Hook.functions": ["self"],
    "Hook.get_result": ["self", "instance"],
    "Hook.add_function": ["self", "func", "tryfirst=", "trylast=", "wrapper="],
    "Hook.__call__": ["self", "func=", "tryfirst=", "trylast=", "wrapper="],
    "Hook.remove_function": ["self", "func"],
    "_HookHostMeta.__setattr__": ["self", "key", "value"],
    "HookHost.__init__": ["self"],
    "HookHost.reevaluate_cache": ["self"],
    "HookHost.has_set": ["self", "name"],
    "HookHost.has_cached": ["self", "name"],
    "HookHost.has_set_or_cached": ["self", "name"],
    "HookHost.has_value": ["self", "name"],
    "HookHost.extension_class": ["cls", "source"],
    "HookHost.__attrs__": ["self"],
    "HookHost.root_hook_fallback": ["self", "hook"],
    "HookHost.evaluate_and_set_hooks": ["self"],
    "_RootHooksList.add": ["self", "item"],
    "_RootHooksList.insert_before": ["self", "position", "item"],
    "_RootHooksList.insert_after": ["self", "position", "item"],
    "_RootHooksList.remove_last": ["self", "item"],
}

CLASSES = ["HookFunction", "Hook", "_HookHostMeta", "HookHost", "_RootHooksList"]

CMP = {ast.Is: "is", ast.IsNot: "is not", ast.Eq: "==", ast.NotEq: "!=", ast.In: "in", ast.NotIn: "not in",
       ast.Lt: "<", ast.LtE: "<=", ast.Gt: ">", ast.GtE: ">="}
BIN = {ast.Add: "+", ast.Sub: "-", ast.Mult: "*", ast.BitOr: "|", ast.BitAnd: "&"}


# ---- finding the functions -------------------------------------------------------------------------------------------

def parse(repo):
    path = os.path.join(repo, HOOKS)
    with open(path) as f:
        return ast.parse(f.read(), filename=path)


def _is_overload(fn):
    return any(isinstance(d, ast.Name) and d.id == "overload" for d in fn.decorator_list)


def find(tree, qual):
    """the (last, not `@overload`) definition of `Class.method` / module-level `function`"""
    body = tree.body
    parts = qual.split(".")
    for cls in parts[:-1]:
        nxt = [n for n in body if isinstance(n, ast.ClassDef) and n.name == cls]
        if len(nxt) != 1:
            raise Gap(f"{qual}: class {cls} not found (or defined twice)")
        body = nxt[0].body
    defs = [n for n in body if isinstance(n, ast.FunctionDef) and n.name == parts[-1] and not _is_overload(n)]
    if len(defs) != 1:
        raise Gap(f"{qual}: {len(defs)} definitions")
    return defs[0]


# ---- substitution of single-use temporaries ---------------------------------------------------------------------------

def _is_doc(st):
    return isinstance(st, ast.Expr) and isinstance(st.value, ast.Constant) and isinstance(st.value.value, str)


def _is_log(st):
    if not (isinstance(st, ast.Expr) and isinstance(st.value, ast.Call)):
        return False
    f = st.value.func
    while isinstance(f, ast.Attribute):
        if f.attr == "logger":
            return True
        f = f.value
    return False


def _blocks(node):
    """every statement list below `node` (the node's own lists first)"""
    for field in ("body", "orelse", "finalbody"):
        b = getattr(node, field, None)
        if isinstance(b, list) and b and isinstance(b[0], ast.stmt):
            yield b
            for st in b:
                yield from _blocks(st)
    for h in getattr(node, "handlers", []) or []:
        yield h.body
        for st in h.body:
            yield from _blocks(st)


def _header(st):
    """the expressions a statement evaluates itself, before any nested block runs"""
    if isinstance(st, (ast.Assign, ast.AugAssign, ast.AnnAssign, ast.Expr, ast.Return, ast.Raise, ast.Delete)):
        return [st]
    if isinstance(st, ast.If):
        return [st.test]
    if isinstance(st, ast.For):
        return [st.iter]
    return []


def _inline_temps(fn):
    """`t = E` directly followed by the only use of `t` -> the use is replaced by `E` (repeated until nothing changes)"""
    changed = True
    while changed:
        changed = False
        stores, loads = {}, {}
        for n in ast.walk(fn):
            if isinstance(n, ast.Name):
                d = stores if isinstance(n.ctx, (ast.Store, ast.Del)) else loads
                d[n.id] = d.get(n.id, 0) + 1
            elif isinstance(n, ast.arg):
                stores[n.arg] = stores.get(n.arg, 0) + 2        # parameters are never substituted
            elif isinstance(n, ast.ExceptHandler) and n.name:
                stores[n.name] = stores.get(n.name, 0) + 2
        for block in _blocks(fn):
            live = [s for s in block if not _is_doc(s) and not _is_log(s)]
            for a, b in zip(live, live[1:]):
                if not (isinstance(a, ast.Assign) and len(a.targets) == 1 and isinstance(a.targets[0], ast.Name)):
                    continue
                t = a.targets[0].id
                if stores.get(t) != 1 or loads.get(t) != 1:
                    continue
                uses = [n for h in _header(b) for n in ast.walk(h)
                        if isinstance(n, ast.Name) and n.id == t and isinstance(n.ctx, ast.Load)]
                if len(uses) != 1:
                    continue
                use = uses[0]
                # evaluation order: no call of the following statement may run before the substituted expression does
                # (a call that CONTAINS the use evaluates it as an argument or receiver first)
                safe = True
                has_call = any(isinstance(n, ast.Call) for n in ast.walk(a.value))
                if has_call:
                    for h in _header(b):
                        for c in ast.walk(h):
                            if isinstance(c, (ast.Call, ast.Yield, ast.YieldFrom, ast.Await)) \
                                    and not any(n is use for n in ast.walk(c)) \
                                    and (c.lineno, c.col_offset) < (use.lineno, use.col_offset):
                                safe = False
                        for c in ast.walk(h):
                            if isinstance(c, (ast.GeneratorExp, ast.ListComp, ast.SetComp, ast.DictComp, ast.Lambda)) \
                                    and any(n is use for n in ast.walk(c)):
                                safe = False                      # evaluated later / repeatedly
                if not safe:
                    continue

                class Sub(ast.NodeTransformer):
                    def visit_Name(self, n):
                        return copy.deepcopy(a.value) if n is use else n
                for h in _header(b):
                    Sub().visit(h)
                block.remove(a)
                changed = True
                break
            if changed:
                break


# ---- canonical form ----------------------------------------------------------------------------------------------------

class Canon:
    def __init__(self, qual, fn, params):
        self.qual = qual
        self.names = {}
        self.n_locals = 0
        self.lines = []
        self.handler = []          # canonical names of the exceptions caught by the enclosing handlers
        a = fn.args
        if a.vararg or a.kwarg or a.kwonlyargs or a.posonlyargs:
            raise Gap(f"{qual}: signature uses *args / **kwargs / keyword-only / positional-only parameters")
        if len(a.args) != len(params):
            raise Gap(f"{qual}: takes {len(a.args)} parameters, the model mirrors {len(params)}")
        n_def = len(a.defaults)
        sig = []
        for k, (arg, want) in enumerate(zip(a.args, params)):
            d = a.defaults[k - (len(a.args) - n_def)] if k >= len(a.args) - n_def else None
            if want.endswith("="):
                if d is None or arg.arg != want[:-1]:
                    raise Gap(f"{qual}: keyword parameter `{want[:-1]}` renamed or without default")
                self.names[arg.arg] = arg.arg
                sig.append(f"{arg.arg}={self.expr(d)}")
            else:
                if d is not None:
                    raise Gap(f"{qual}: parameter `{arg.arg}` has a default the model does not know")
                self.names[arg.arg] = want
                sig.append(want)
        decs = [self.expr(d) for d in fn.decorator_list]
        self.lines.append("def(" + ", ".join(sig) + ")" + "".join(" @" + d for d in decs))
        self.block(fn.body, 1)

    def gap(self, what, node):
        try:
            txt = ast.unparse(node)
        except Exception:
            txt = type(node).__name__
        return Gap(f"{self.qual}: {what} `{txt[:90]}` (line {getattr(node, 'lineno', '?')})")

    def local(self, name):
        if name not in self.names:
            self.names[name] = f"v{self.n_locals}"
            self.n_locals += 1
        return self.names[name]

    # -- expressions
    def expr(self, n):
        if isinstance(n, ast.Name):
            if isinstance(n.ctx, ast.Store):
                return self.local(n.id)
            return self.names.get(n.id, n.id)
        if isinstance(n, ast.Attribute):
            return f"{self.expr(n.value)}.{n.attr}"
        if isinstance(n, ast.Constant):
            if n.value is None or isinstance(n.value, (bool, int, float, str)):
                return repr(n.value)
            raise self.gap("constant", n)
        if isinstance(n, ast.JoinedStr):
            return "<text>"
        if isinstance(n, ast.Call):
            args = [self.expr(x) for x in n.args]
            kws = sorted(((k.arg or "**", self.expr(k.value)) for k in n.keywords), key=lambda p: (p[0] == "**", p[0]))
            args += [("**" + v) if k == "**" else f"{k}={v}" for k, v in kws]
            return f"{self.expr(n.func)}({', '.join(args)})"
        if isinstance(n, ast.Starred):
            return "*" + self.expr(n.value)
        if isinstance(n, ast.Compare):
            out = self.expr(n.left)
            for op, c in zip(n.ops, n.comparators):
                if type(op) not in CMP:
                    raise self.gap("comparison", n)
                out += f" {CMP[type(op)]} {self.expr(c)}"
            return f"({out})" if len(n.ops) > 1 else out
        if isinstance(n, ast.BoolOp):
            op = " and " if isinstance(n.op, ast.And) else " or "
            return "(" + op.join(self.expr(v) for v in n.values) + ")"
        if isinstance(n, ast.UnaryOp):
            if isinstance(n.op, ast.Not):
                return f"not {self.expr(n.operand)}"
            if isinstance(n.op, ast.USub):
                return f"-{self.expr(n.operand)}"
            raise self.gap("unary operator", n)
        if isinstance(n, ast.BinOp):
            if type(n.op) not in BIN:
                raise self.gap("binary operator", n)
            return f"({self.expr(n.left)} {BIN[type(n.op)]} {self.expr(n.right)})"
        if isinstance(n, ast.Subscript):
            return f"{self.expr(n.value)}[{self.expr(n.slice)}]"
        if isinstance(n, (ast.List, ast.Tuple, ast.Set)):
            o, c = {ast.List: "[]", ast.Tuple: "()", ast.Set: "{}"}[type(n)]
            return o + ", ".join(self.expr(e) for e in n.elts) + c
        if isinstance(n, ast.Dict):
            return "{" + ", ".join(("**" + self.expr(v)) if k is None else f"{self.expr(k)}: {self.expr(v)}"
                                   for k, v in zip(n.keys, n.values)) + "}"
        if isinstance(n, ast.IfExp):
            return f"({self.expr(n.body)} if {self.expr(n.test)} else {self.expr(n.orelse)})"
        if isinstance(n, (ast.GeneratorExp, ast.ListComp, ast.SetComp, ast.DictComp)):
            gens = []
            for g in n.generators:
                if g.is_async:
                    raise self.gap("async comprehension", n)
                it = self.expr(g.iter)
                tgt = self.target(g.target)
                gens.append(f"for {tgt} in {it}" + "".join(f" if {self.expr(c)}" for c in g.ifs))
            elt = f"{self.expr(n.key)}: {self.expr(n.value)}" if isinstance(n, ast.DictComp) else self.expr(n.elt)
            o, c = {ast.GeneratorExp: "()", ast.ListComp: "[]", ast.SetComp: "{}", ast.DictComp: "{}"}[type(n)]
            return f"{o}{elt} {' '.join(gens)}{c}"
        if isinstance(n, ast.Yield):
            return "yield" + ("" if n.value is None else " " + self.expr(n.value))
        if isinstance(n, ast.YieldFrom):
            return "yield from " + self.expr(n.value)
        raise self.gap(f"expression kind {type(n).__name__}", n)

    def target(self, t):
        if isinstance(t, ast.Name):
            return self.local(t.id)
        if isinstance(t, (ast.Tuple, ast.List)):
            return "(" + ", ".join(self.target(e) for e in t.elts) + ")"
        if isinstance(t, (ast.Attribute, ast.Subscript)):
            return self.expr(t)
        raise self.gap("assignment target", t)

    def exc_class(self, n):
        if isinstance(n, ast.Call):
            if all(isinstance(x, (ast.JoinedStr, ast.Constant)) for x in n.args) and not n.keywords:
                return self.expr(n.func)          # the message is not behaviour
            return self.expr(n)
        return self.expr(n)

    # -- statements
    def emit(self, depth, text):
        self.lines.append("  " * (depth - 1) + text)

    def block(self, stmts, depth):
        n0 = len(self.lines)
        for st in stmts:
            if _is_doc(st) or _is_log(st):
                continue
            self.stmt(st, depth)
        if len(self.lines) == n0:
            self.emit(depth, "pass")

    def stmt(self, st, d):
        if isinstance(st, ast.Assign):
            if len(st.targets) != 1:
                raise self.gap("chained assignment", st)
            v = self.expr(st.value)
            self.emit(d, f"{self.target(st.targets[0])} := {v}")
        elif isinstance(st, ast.AnnAssign):
            if st.value is not None:
                v = self.expr(st.value)
                self.emit(d, f"{self.target(st.target)} := {v}")
        elif isinstance(st, ast.AugAssign):
            if type(st.op) not in BIN:
                raise self.gap("augmented assignment", st)
            v = self.expr(st.value)
            self.emit(d, f"{self.target(st.target)} {BIN[type(st.op)]}= {v}")
        elif isinstance(st, ast.Expr):
            if not isinstance(st.value, (ast.Call, ast.Yield, ast.YieldFrom)):
                raise self.gap("expression statement", st)
            self.emit(d, self.expr(st.value))
        elif isinstance(st, ast.Return):
            self.emit(d, "return" + ("" if st.value is None else " " + self.expr(st.value)))
        elif isinstance(st, ast.Raise):
            if st.exc is None:
                self.emit(d, "raise")
            else:
                txt = "raise " + self.exc_class(st.exc)
                if st.cause is not None:
                    c = self.expr(st.cause)
                    txt += " from caught" if c in self.handler else f" from {c}"
                self.emit(d, txt)
        elif isinstance(st, ast.If):
            self.emit(d, f"if {self.expr(st.test)}:")
            self.block(st.body, d + 1)
            rest = st.orelse
            while len(rest) == 1 and isinstance(rest[0], ast.If):
                self.emit(d, f"elif {self.expr(rest[0].test)}:")
                self.block(rest[0].body, d + 1)
                rest = rest[0].orelse
            if rest:
                self.emit(d, "else:")
                self.block(rest, d + 1)
        elif isinstance(st, ast.For):
            it = self.expr(st.iter)
            self.emit(d, f"for {self.target(st.target)} in {it}:")
            self.block(st.body, d + 1)
            if st.orelse:
                self.emit(d, "else:")
                self.block(st.orelse, d + 1)
        elif isinstance(st, ast.Try):
            self.emit(d, "try:")
            self.block(st.body, d + 1)
            for h in st.handlers:
                cls = "BaseException (bare)" if h.type is None else self.expr(h.type)
                name = None
                if h.name:
                    name = self.local(h.name)
                self.emit(d, f"except {cls}" + (f" as {name}" if name else "") + ":")
                self.handler.append(name)
                self.block(h.body, d + 1)
                self.handler.pop()
            if st.orelse:
                self.emit(d, "else:")
                self.block(st.orelse, d + 1)
            if st.finalbody:
                self.emit(d, "finally:")
                self.block(st.finalbody, d + 1)
        elif isinstance(st, (ast.Continue, ast.Break, ast.Pass)):
            self.emit(d, type(st).__name__.lower())
        elif isinstance(st, ast.Delete):
            self.emit(d, "del " + ", ".join(self.expr(t) for t in st.targets))
        elif isinstance(st, ast.FunctionDef):
            a = st.args
            if a.vararg or a.kwarg or a.kwonlyargs or a.posonlyargs or a.defaults or st.decorator_list:
                raise self.gap("nested function signature", st)
            name = self.local(st.name)
            self.emit(d, f"def {name}({', '.join(self.local(x.arg) for x in a.args)}):")
            self.block(st.body, d + 1)
        else:
            raise self.gap(f"statement kind {type(st).__name__}", st)


def canonical(tree, qual):
    fn = copy.deepcopy(find(tree, qual))
    _inline_temps(fn)
    c = Canon(qual, fn, FUNCS[qual])
    return c.lines, fn.lineno


# ---- whole-file facts --------------------------------------------------------------------------------------------------

def _container_of(n):
    """X.<container> -> container name"""
    if isinstance(n, ast.Attribute) and n.attr in CONTAINERS:
        return n.attr
    return None


def state_writers(tree):
    """(function, container, operation) for every write to one of the state containers anywhere in the file"""
    out = set()

    def visit(body, qual):
        for node in body:
            if isinstance(node, ast.ClassDef):
                visit(node.body, (qual + "." if qual else "") + node.name)
            elif isinstance(node, (ast.FunctionDef, ast.AsyncFunctionDef)):
                if _is_overload(node):
                    continue
                q = (qual + "." if qual else "") + node.name
                local_alias = {}
                for n in ast.walk(node):
                    # an alias `store = self._functions` / `for store in [self._functions, …]` makes `store.remove` a write
                    if isinstance(n, ast.Assign) and len(n.targets) == 1 and isinstance(n.targets[0], ast.Name):
                        c = _container_of(n.value)
                        if c:
                            local_alias.setdefault(n.targets[0].id, set()).add(c)
                    if isinstance(n, ast.For) and isinstance(n.target, ast.Name) and isinstance(n.iter, (ast.List, ast.Tuple)):
                        for e in n.iter.elts:
                            c = _container_of(e)
                            if c:
                                local_alias.setdefault(n.target.id, set()).add(c)

                def conts(x):
                    c = _container_of(x)
                    if c:
                        return {c}
                    if isinstance(x, ast.Name):
                        return local_alias.get(x.id, set())
                    return set()
                for n in ast.walk(node):
                    if isinstance(n, (ast.Assign, ast.AugAssign, ast.AnnAssign)):
                        tgts = n.targets if isinstance(n, ast.Assign) else [n.target]
                        for t in tgts:
                            for tt in ([t] if not isinstance(t, (ast.Tuple, ast.List)) else t.elts):
                                if isinstance(tt, ast.Subscript):
                                    for c in conts(tt.value):
                                        out.add((q, c, "[]="))
                                if isinstance(tt, ast.Attribute) and tt.attr in CONTAINERS:
                                    out.add((q, tt.attr, "="))
                    elif isinstance(n, ast.Delete):
                        for t in n.targets:
                            if isinstance(t, ast.Subscript):
                                for c in conts(t.value):
                                    out.add((q, c, "del[]"))
                            if isinstance(t, ast.Attribute) and t.attr in CONTAINERS:
                                out.add((q, t.attr, "del"))
                    elif isinstance(n, ast.Call) and isinstance(n.func, ast.Attribute) and n.func.attr in MUTATORS:
                        for c in conts(n.func.value):
                            out.add((q, c, n.func.attr))
                    elif isinstance(n, ast.Call) and isinstance(n.func, ast.Name) and n.func.id in ("setattr", "delattr"):
                        # setattr(x, <name>, v) writes x.__dict__ (or calls a data descriptor such as Hook.__set__)
                        recv = ast.unparse(n.args[0]) if n.args else "?"
                        out.add((q, "__dict__", f"{n.func.id}({recv})"))
                    elif isinstance(n, ast.Call) and isinstance(n.func, ast.Name) and n.func.id == "vars":
                        out.add((q, "__dict__", "vars()"))
    visit(tree.body, "")
    return sorted(out)


def class_members(tree):
    out = []
    for cls in CLASSES:
        nodes = [n for n in tree.body if isinstance(n, ast.ClassDef) and n.name == cls]
        if len(nodes) != 1:
            raise Gap(f"class {cls} not found (or defined twice)")
        c = nodes[0]
        names = set()
        for n in c.body:
            if isinstance(n, (ast.FunctionDef, ast.AsyncFunctionDef, ast.ClassDef)):
                names.add(n.name)
            elif isinstance(n, ast.Assign):
                for t in n.targets:
                    if isinstance(t, ast.Name):
                        names.add(t.id)
            elif isinstance(n, ast.AnnAssign) and isinstance(n.target, ast.Name):
                names.add(n.target.id)
            elif _is_doc(n) or isinstance(n, ast.Pass):
                continue
            else:
                raise Gap(f"class {cls}: body statement `{ast.unparse(n)[:80]}`")
        bases = [ast.unparse(b) for b in c.bases] + [f"{k.arg}={ast.unparse(k.value)}" for k in c.keywords]
        out.append((cls + "(" + ", ".join(bases) + ")", sorted(names)))
    return out


def module_level(tree):
    """what the module itself executes besides imports, class and function definitions (`root_hooks = …`)"""
    out = []
    for n in tree.body:
        if isinstance(n, (ast.Import, ast.ImportFrom, ast.ClassDef, ast.FunctionDef)) or _is_doc(n):
            continue
        if isinstance(n, ast.Assign) and len(n.targets) == 1 and isinstance(n.targets[0], ast.Name):
            if n.targets[0].id in ("T", "__all__"):
                continue
            out.append(f"{n.targets[0].id} := {ast.unparse(n.value)}")
            continue
        raise Gap(f"module level statement `{ast.unparse(n)[:80]}`")
    return out


# ---- typed facts read off the canonical form -------------------------------------------------------------------------

def _strip(lines):
    return [ln.strip() for ln in lines]


def _depth(ln):
    return (len(ln) - len(ln.lstrip(" "))) // 2


def _sub_block(lines, k):
    """the lines nested under line k"""
    d = _depth(lines[k])
    out = []
    for ln in lines[k + 1:]:
        if _depth(ln) <= d:
            break
        out.append(ln)
    return out


def _test_kind(test, var):
    """how a value is tested: `v is not None` / truthiness / …"""
    if test == f"{var} is not None":
        return "is not None"
    if test == f"{var} is None":
        return "is None"
    if test == var:
        return "truthy"
    if test == f"not {var}":
        return "falsy"
    return "other: " + test


def facts(tables):
    """dict of typed facts; a fact that cannot be read is reported through `problems` and left at a value that no
    certificate accepts"""
    f = {}
    problems = []

    def attempt(name, fn, default):
        try:
            f[name] = fn()
        except Gap as ex:
            problems.append(f"{name}: {ex}")
            f[name] = default
        except (KeyError, IndexError, AttributeError, ValueError, TypeError) as ex:
            problems.append(f"{name}: canonical form not recognised ({type(ex).__name__}: {ex})")
            f[name] = default

    # Hook.functions_gen: the `yield from self._yield_functions_from('<store>')` lines, in order
    def tier_order():
        out = []
        if tables["Hook.functions_gen"][0] != "def(self) @property":
            raise Gap("Hook.functions_gen: is not a property of the hook alone")
        for ln in tables["Hook.functions_gen"][1:]:
            m = re.fullmatch(r"yield from self\._yield_functions_from\('(\w+)'\)", ln)
            if not m:
                raise Gap(f"Hook.functions_gen: statement `{ln.strip()}` is not a `yield from self._yield_functions_from(<store>)`")
            out.append(m.group(1))
        return out
    attempt("functionsGenOrder", tier_order, ["<missing>"])

    # Hook._yield_functions_from
    def yield_from():
        ls = tables["Hook._yield_functions_from"]
        m = re.fullmatch(r"for (v\d+) in (.+):", ls[1])
        if ls[0] != "def(self, attr)":
            raise Gap("Hook._yield_functions_from: signature")
        if not m:
            raise Gap("Hook._yield_functions_from: no loop at the top")
        s, over = m.group(1), m.group(2)
        body = _strip(_sub_block(ls, 1))
        if len(ls) != 2 + len(body):
            raise Gap("Hook._yield_functions_from: statements after the loop")
        m2 = re.fullmatch(rf"(v\d+) := getattr\(getattr\({s}, self\.name, None\), attr, None\)", body[0])
        if not m2 or len(body) != 3:
            raise Gap(f"Hook._yield_functions_from: loop body `{' ; '.join(body)}`")
        fs = m2.group(1)
        guard = _test_kind(body[1][3:-1], fs) if body[1].startswith("if ") else "none"
        if body[2] == f"yield from reversed({fs})":
            rev = True
        elif body[2] == f"yield from {fs}":
            rev = False
        else:
            raise Gap(f"Hook._yield_functions_from: `{body[2]}`")
        return over, guard, rev
    attempt("_yield", yield_from, ("<missing>", "<missing>", False))
    f["yieldOver"], f["yieldGuard"], f["yieldReversed"] = f.pop("_yield")

    # Hook.add_function: which store is appended to for which flags
    def add_stores():
        ls = tables["Hook.add_function"]
        tops = [k for k, ln in enumerate(ls) if _depth(ln) == 0 and k > 0]
        hf = k_hf = None
        for k in tops:
            m = re.fullmatch(r"(v\d+) := HookFunction\(func, self, (.*)\)", ls[k])
            if m:
                hf, k_hf = m.group(1), k
                if m.group(2) != "tryfirst=tryfirst, trylast=trylast, wrapper=wrapper":
                    raise Gap(f"Hook.add_function: flags handed to HookFunction: `{m.group(2)}`")
        if hf is None:
            raise Gap("Hook.add_function: no HookFunction(func, self, …) created")
        if ls[-1] != f"return {hf}" or k_hf + 1 >= len(ls) or ls[k_hf + 1] != "if wrapper:":
            raise Gap("Hook.add_function: the creation is not followed by `if wrapper:` … and `return` of the HookFunction")
        conds = {"if tryfirst:": "tryfirst", "elif tryfirst:": "tryfirst", "if trylast:": "trylast",
                 "elif trylast:": "trylast", "else:": ""}

        def chain(lines, w):
            got = []
            if len(lines) % 2 or not lines:
                raise Gap("Hook.add_function: selection by tryfirst / trylast is not an if / elif / else chain of appends")
            for cond, act in zip(lines[0::2], lines[1::2]):
                m = re.fullmatch(rf"self\.(\w+)\.append\({hf}\)", act)
                if not m or cond not in conds:
                    raise Gap(f"Hook.add_function: `{cond} {act}`")
                got.append((w, conds[cond], m.group(1)))
            if got[-1][1] != "" or [c for (_, c, _) in got[:-1] if c == ""]:
                raise Gap("Hook.add_function: the chain does not end in exactly one `else`")
            return got
        inner = _sub_block(ls, k_hf + 1)
        out = chain(_strip(inner), True)
        rest = ls[k_hf + 2 + len(inner):-1]
        if rest and rest[0] == "else:" and all(_depth(x) >= 1 for x in rest[1:]):
            rest = [x[2:] for x in rest[1:]]
        out += chain([x.strip() if _depth(x) <= 1 else "<nested> " + x.strip() for x in rest], False)
        return out
    attempt("addStores", add_stores, [(True, "<missing>", "<missing>")])

    # Hook.remove_function: the stores looked into; an absent function is passed over
    def remove_stores():
        ls = tables["Hook.remove_function"]
        m = re.fullmatch(r"for (v\d+) in [\[(](.*)[\])]:", ls[1])
        if ls[0] != "def(self, func)" or ls[-1] != "return func.function" or _depth(ls[-2]) == 0:
            raise Gap("Hook.remove_function: signature / statements besides the loop and `return func.function`")
        if not m:
            raise Gap("Hook.remove_function: no loop over a list display of stores")
        st = m.group(1)
        stores = []
        for e in m.group(2).split(", "):
            mm = re.fullmatch(r"self\.(\w+)", e)
            if not mm:
                raise Gap(f"Hook.remove_function: store `{e}`")
            stores.append(mm.group(1))
        body = _strip(_sub_block(ls, 1))
        tolerant = body == ["try:", f"{st}.remove(func)", "except ValueError:", "continue"] or \
            body == ["try:", f"{st}.remove(func)", "except ValueError:", "pass"]
        if not tolerant and body != [f"{st}.remove(func)"] and body != [f"if func in {st}:", f"{st}.remove(func)"]:
            raise Gap(f"Hook.remove_function: loop body `{' ; '.join(body)}`")
        tolerant = tolerant or body[0].startswith("if ")
        return sorted(stores), tolerant
    attempt("_remove", remove_stores, (["<missing>"], False))
    f["removeStores"], f["removeIgnoresAbsent"] = f.pop("_remove")

    # HookFunction.__call__: mark handling
    def call_marks():
        ls = tables["HookFunction.__call__"]
        top = [k for k, ln in enumerate(ls) if _depth(ln) == 0 and k > 0]
        flat = _strip(ls)
        key = cyc = None
        for k in top:
            m = re.fullmatch(r"(v\d+) := id\(instance\)", ls[k])
            if m:
                key = m.group(1)
        if key is None:
            raise Gap("HookFunction.__call__: the mark key is not `id(instance)`")
        for k in top:
            m = re.fullmatch(rf"(v\d+) := {key} in self\._active_instances", ls[k])
            if m:
                cyc = m.group(1)
                k_cyc = k
        if cyc is None:
            raise Gap("HookFunction.__call__: `cycle` is not `key in self._active_instances`")
        add = f"self._active_instances.add({key})"
        discard = {f"self._active_instances.discard({key})", f"self._active_instances.remove({key})"}
        k_add = [k for k in top if ls[k] == add]
        k_try = [k for k in top if ls[k] == "try:"]
        if len(k_add) != 1 or len(k_try) != 1 or flat.count(add) != 1:
            raise Gap("HookFunction.__call__: not exactly one `add(key)` and one `try` at the top level")
        k_dis = [k for k, ln in enumerate(flat) if ln in discard]
        if len(k_dis) != 1:
            raise Gap(f"HookFunction.__call__: {len(k_dis)} discards of the mark")
        kd = k_dis[0]
        # in which clause of the try does the discard sit?
        clause = "after"
        kt = k_try[0]
        for k in range(kt + 1, len(ls)):
            if _depth(ls[k]) == 0:
                if ls[k] == "finally:":
                    clause_here = "finally"
                elif ls[k].startswith("except "):
                    clause_here = "except"
                elif ls[k] == "else:":
                    clause_here = "else"
                else:
                    clause_here = "after"
                if k <= kd:
                    clause = clause_here if k < kd or clause_here == "after" else clause
            if k == kd:
                break
        if kd < kt:
            clause = "before"
        elif kd > kt and _depth(ls[kd]) > 0 and clause == "after" and not any(_depth(ls[k]) == 0 for k in range(kt + 1, kd)):
            clause = "try"
        guard = "always"
        if _depth(ls[kd]) >= 1 and flat[kd - 1].startswith("if ") and _depth(ls[kd - 1]) == _depth(ls[kd]) - 1:
            t = flat[kd - 1][3:-1]
            guard = {f"not {cyc}": "unless cycle", cyc: "if cycle"}.get(t, "other: " + t)
        return {"key": "id(instance)", "cycleBeforeMark": k_cyc < k_add[0], "markBeforeTry": k_add[0] < kt,
                "discardClause": clause, "discardGuard": guard}
    attempt("_call", call_marks, {"key": "<missing>", "cycleBeforeMark": False, "markBeforeTry": False,
                                  "discardClause": "<missing>", "discardGuard": "<missing>"})
    c = f.pop("_call")
    f["callKey"], f["callCycleBeforeMark"], f["callMarkBeforeTry"] = c["key"], c["cycleBeforeMark"], c["markBeforeTry"]
    f["callDiscardClause"], f["callDiscardGuard"] = c["discardClause"], c["discardGuard"]
    f["callDiscardInFinally"] = c["discardClause"] == "finally"

    # Hook.get_result: the test that ends the loop
    def get_result():
        ls = tables["Hook.get_result"]
        m = re.fullmatch(r"for (v\d+) in self\.functions_gen:", ls[1])
        if not m:
            raise Gap("Hook.get_result: does not iterate over self.functions_gen")
        body = _strip(_sub_block(ls, 1))
        m2 = re.fullmatch(rf"(v\d+) := {m.group(1)}\(instance\)", body[0])
        if not m2 or len(body) != 3 or body[2] != f"return {m2.group(1)}" or len(ls) != 5:
            raise Gap(f"Hook.get_result: loop body `{' ; '.join(body)}`")
        return _test_kind(body[1][3:-1], m2.group(1))
    attempt("getResultTest", get_result, "<missing>")

    # Hook.__get__ on an instance
    def hook_get():
        ls = tables["Hook.__get__"]
        top = [k for k, ln in enumerate(ls) if _depth(ln) == 0 and k > 0]
        look = []
        for k in top:
            m = re.fullmatch(r"(v\d+) := instance\.(__\w+__)\.get\(self\.name, None\)", ls[k])
            if m:
                nxt = ls[top[top.index(k) + 1]]
                if not nxt.startswith("if "):
                    raise Gap("Hook.__get__: a dictionary lookup is not followed by a test")
                look.append((m.group(2), _test_kind(nxt[3:-1], m.group(1))))
        if len(look) != 2:
            raise Gap(f"Hook.__get__: {len(look)} dictionary lookups by name")
        # the computing part: try get_result / except -> raise ; tests -> raise ; store ; return
        kt = [k for k in top if ls[k] == "try:"]
        call = r"(v\d+) := self\.get_result\(instance\)"
        if len(kt) > 1:
            raise Gap("Hook.__get__: more than one try")
        if kt:
            kt = kt[0]
            tb = _strip(_sub_block(ls, kt))
            m = re.fullmatch(call, tb[0]) if len(tb) == 1 else None
            if not m:
                raise Gap(f"Hook.__get__: the try block is not the call of get_result: `{' ; '.join(tb)}`")
        else:       # the call of get_result stands unprotected: no exception is converted
            kt = [k for k in top if re.fullmatch(call, ls[k])]
            if len(kt) != 1:
                raise Gap("Hook.__get__: no single call of get_result at the top level")
            kt = kt[0]
            m = re.fullmatch(call, ls[kt])
        r = m.group(1)
        checks = []
        store = None
        stored_after = None
        k = kt + 2
        rest = [j for j in top if j > kt]
        for j in rest:
            ln = ls[j]
            sub = _strip(_sub_block(ls, j))
            m = re.fullmatch(r"except (\w+)(?: as v\d+)?:", ln)
            if m:
                mm = re.fullmatch(r"raise (\w+)(?: from caught)?", sub[0]) if len(sub) == 1 else None
                if not mm:
                    raise Gap(f"Hook.__get__: handler of {m.group(1)} does not just raise")
                checks.append(("except " + m.group(1), mm.group(1)))
                continue
            if ln.startswith("if "):
                mm = re.fullmatch(r"raise (\w+)", sub[0]) if len(sub) == 1 else None
                if not mm:
                    raise Gap(f"Hook.__get__: `{ln}` does not just raise")
                t = ln[3:-1]
                t = {f"{r} is None": "is None", f"not {r}": "falsy", f"not _all_finite({r})": "not _all_finite"}.get(t, "other: " + t)
                checks.append((t, mm.group(1)))
                continue
            m = re.fullmatch(rf"instance\.(__\w+__)\[self\.name\] := {r}", ln)
            if m:
                if store is not None:
                    raise Gap("Hook.__get__: the value is stored twice")
                store = m.group(1)
                stored_after = len(checks)
                continue
            if ln == f"return {r}":
                if j != rest[-1]:
                    raise Gap("Hook.__get__: statements after the final return")
                continue
            raise Gap(f"Hook.__get__: statement `{ln}` in the computing part")
        if store is None:
            raise Gap("Hook.__get__: a computed value is not stored")
        return look, checks, store, stored_after
    attempt("_get", hook_get, ([("<missing>", "<missing>")], [("<missing>", "<missing>")], "<missing>", 0))
    g = f.pop("_get")
    f["getLookups"], f["getChecks"], f["getStore"], f["getStoreAfter"] = g

    # Hook.__get__ asked with an owner other than its own (`getattr(Sub, name)` finding the hook of a base class, but also
    # `super(K, x).name` and an explicit `Base.__dict__[name].__get__(x, Sub)`): which hook object answers for that owner -
    # always a NEW one that replaces whatever the owner class carries (False), or the one the owner class carries in its own
    # `__dict__` already, a new one being created only when it carries none of its own (True)
    def owner_reuse():
        ls = tables["Hook.__get__#class"]
        q = "Hook.__get__#class"
        if ls[:2] != ["def(self, instance, owner)", "if self.owner != owner:"]:
            raise Gap(f"{q}: does not start with the test `self.owner != owner`")
        if ls[-2:] != ["if instance is None:", "  return self"] or any(_depth(x) == 0 for x in ls[2:-2]):
            raise Gap(f"{q}: the owner test is not followed by exactly `if instance is None: return self`")
        body = [x[2:] for x in ls[2:-2]]
        m = re.fullmatch(r"return (v\d+)\.__get__\(instance, owner\)", body[-1]) if body else None
        if not m:
            raise Gap(f"{q}: the branch for another owner does not end by asking a hook object with the same arguments")
        h = m.group(1)

        def create(ind):
            return [f"{ind}{h} := Hook()", f"{ind}{h}.__orig_class__ := self.__orig_class__",
                    f"{ind}setattr(owner, self.name, {h})"]
        if body[:-1] == create(""):
            return False
        looks = [f"{h} := owner.__dict__.get(self.name, None)", f"{h} := owner.__dict__.get(self.name)"]
        tests = [f"if (not isinstance({h}, Hook) or {h}.owner != owner):", f"if not (isinstance({h}, Hook) and {h}.owner == owner):",
                 f"if not isinstance({h}, Hook):"]
        if len(body) == 6 and body[0] in looks and body[1] in tests and body[2:5] == create("  "):
            return True
        raise Gap(f"{q}: branch for another owner not recognised: `{' ; '.join(x.strip() for x in body)}`")
    attempt("getOwnerReuse", owner_reuse, False)

    # HookHost helpers
    def member(qual):
        ls = tables[qual]
        m = re.fullmatch(r"return name in self\.(__\w+__)", ls[1]) if len(ls) == 2 else None
        if not m:
            raise Gap(f"{qual}: not a membership test in one dictionary: `{' ; '.join(_strip(ls[1:]))}`")
        return m.group(1)
    attempt("hasSetIn", lambda: member("HookHost.has_set"), "<missing>")
    attempt("hasCachedIn", lambda: member("HookHost.has_cached"), "<missing>")

    def reeval():
        ls = tables["HookHost.reevaluate_cache"]
        flat = _strip(ls[1:])
        m = re.fullmatch(r"for (v\d+) in (.+):", flat[0]) if flat else None
        if m and len(flat) == 2:
            n, over = m.groups()
            copy_ = over in ("list(self.__cache__.keys())", "list(self.__cache__)", "tuple(self.__cache__.keys())",
                             "tuple(self.__cache__)")
            m2 = re.fullmatch(rf"self\.(__\w+__)\[{n}\] := getattr\(type\(self\), {n}\)\.(\w+)\(self\)", flat[1])
            if m2:
                return f"for each remembered name{' (copy)' if copy_ else ''}: {m2.group(1)}[name] := hook.{m2.group(2)}(self)"
        if flat == ["self.__cache__.clear()"] or flat == ["self.__cache__ := dict()"] or flat == ["self.__cache__ := {}"]:
            return "clear"
        return "other: " + " ; ".join(flat)
    attempt("reevalMode", reeval, "<missing>")
    return f, problems


def split_get(ls, gaps):
    """`Hook.__get__` in four parts (each property pins the parts its model mirrors):
    class    - up to the first dictionary lookup: the per-subclass hook object, `instance is None`
    explicit - the lookup in the first dictionary and what is done with a value found there (callables)
    cached   - the lookup in the second dictionary
    compute  - the rest: get_result, the conversions, the store, the return"""
    miss = {k: ["<missing>"] for k in ("class", "explicit", "cached", "compute")}
    if ls == ["<missing>"]:
        return miss
    top = [k for k, ln in enumerate(ls) if _depth(ln) == 0 and k > 0]
    looks = [k for k in top if re.fullmatch(r"v\d+ := instance\.__\w+__\.get\(self\.name, None\)", ls[k])]
    if len(looks) != 2:
        gaps.append(f"Hook.__get__: {len(looks)} dictionary lookups by name at the top level (the model mirrors two)")
        return miss
    k1, k2 = looks
    after = [k for k in top if k > k2]
    if not after or not ls[after[0]].startswith("if ") or len(after) < 2:
        gaps.append("Hook.__get__: the second lookup is not followed by a test and a computing part")
        return miss
    k3 = after[1]
    return {"class": ls[:k1], "explicit": ls[k1:k2], "cached": ls[k2:k3], "compute": ls[k3:]}


# ---- extraction ---------------------------------------------------------------------------------------------------------

def extract(repo):
    """-> dict(tables = {qual: role lines}, lines = {qual: source line}, facts, writers, members, module), gaps"""
    tree = parse(repo)
    gaps = []
    tables, linenos = {}, {}
    for qual in FUNCS:
        try:
            tables[qual], linenos[qual] = canonical(tree, qual)
        except Gap as ex:
            gaps.append(str(ex))
            tables[qual], linenos[qual] = ["<missing>"], 0
    for part, ls in split_get(tables["Hook.__get__"], gaps).items():
        tables["Hook.__get__#" + part] = ls
        linenos["Hook.__get__#" + part] = linenos["Hook.__get__"]
    f, problems = facts(tables)
    gaps += problems
    try:
        writers = state_writers(tree)
    except Gap as ex:
        gaps.append(str(ex))
        writers = [("<missing>", "", "")]
    try:
        members = class_members(tree)
    except Gap as ex:
        gaps.append(str(ex))
        members = [("<missing>", [])]
    try:
        module = module_level(tree)
    except Gap as ex:
        gaps.append(str(ex))
        module = ["<missing>"]
    return {"tables": tables, "lines": linenos, "facts": f, "writers": writers, "members": members, "module": module}, gaps


# ---- emission -----------------------------------------------------------------------------------------------------------

def lean_name(qual):
    """`Hook.__get__` -> `hook_get`, `HookFunction.__call__` -> `hookFunction_call`, `_all_finite` -> `allFinite`"""
    qual, _, suffix = qual.partition("#")
    if suffix:
        return lean_name(qual) + suffix.capitalize()
    parts = qual.split(".")
    cls = parts[0].lstrip("_") if len(parts) > 1 else ""
    meth = parts[-1].strip("_")
    words = [w for w in meth.split("_") if w]
    m = words[0] + "".join(w.capitalize() for w in words[1:])
    if not cls:
        return m
    return cls[0].lower() + cls[1:] + "_" + m


def _strs(xs, indent="   "):
    if not xs:
        return "[]"
    return "[" + (",\n" + indent).join(lean_str(x) for x in xs) + "]"


def _bool(b):
    return "true" if b else "false"


def _pairs(xs):
    return "[" + ", ".join(f"({lean_str(a)}, {lean_str(b)})" for a, b in xs) + "]"


FACT_DOC = {
    "functionsGenOrder": ("Hook.functions_gen", "the stores in the order of the `yield from self._yield_functions_from(<store>)` lines"),
    "yieldOver": ("Hook._yield_functions_from", "what the walk iterates over"),
    "yieldGuard": ("Hook._yield_functions_from", "the test on the store found (an absent / empty store is passed over)"),
    "yieldReversed": ("Hook._yield_functions_from", "the store is yielded through `reversed(...)` (latest registration first)"),
    "addStores": ("Hook.add_function", "decision list (wrapper flag, condition tested in if / elif / else order, store appended to)"),
    "removeStores": ("Hook.remove_function", "the stores `remove` is tried on (sorted: the order cannot matter)"),
    "removeIgnoresAbsent": ("Hook.remove_function", "a store that does not hold the function is passed over without an exception"),
    "callKey": ("HookFunction.__call__", "the re-entrancy mark"),
    "callCycleBeforeMark": ("HookFunction.__call__", "`cycle` is computed before the mark is set"),
    "callMarkBeforeTry": ("HookFunction.__call__", "the mark is set before the `try`"),
    "callDiscardClause": ("HookFunction.__call__", "where the mark is discarded: finally / try / except / else / after / before"),
    "callDiscardGuard": ("HookFunction.__call__", "condition of the discard"),
    "callDiscardInFinally": ("HookFunction.__call__", "the discard sits in the `finally` clause"),
    "getResultTest": ("Hook.get_result", "the test that makes a result final"),
    "getLookups": ("Hook.__get__", "(dictionary looked up by name with default None, test of the value found), in order"),
    "getChecks": ("Hook.__get__", "after `get_result`: (condition, exception raised), in order"),
    "getStore": ("Hook.__get__", "where a computed value is stored"),
    "getStoreAfter": ("Hook.__get__", "number of checks of `getChecks` that precede the store"),
    "getOwnerReuse": ("Hook.__get__#class", "asked with another owner, the hook object that class carries in its own `__dict__` answers; a new one is created (and put on the class) only when it carries none"),
    "hasSetIn": ("HookHost.has_set", "the dictionary whose keys are tested"),
    "hasCachedIn": ("HookHost.has_cached", "the dictionary whose keys are tested"),
    "reevalMode": ("HookHost.reevaluate_cache", "what happens to the remembered names"),
}


def _fact_def(name, val):
    if isinstance(val, bool):
        return f"def {name} : Bool := {_bool(val)}"
    if isinstance(val, int):
        return f"def {name} : Nat := {val}"
    if isinstance(val, str):
        return f"def {name} : String := {lean_str(val)}"
    if isinstance(val, list) and all(isinstance(x, str) for x in val):
        return f"def {name} : List String := {_strs(val)}"
    if isinstance(val, list) and all(isinstance(x, tuple) and len(x) == 2 for x in val):
        return f"def {name} : List (String × String) := {_pairs(val)}"
    if isinstance(val, list) and all(isinstance(x, tuple) and len(x) == 3 for x in val):
        return (f"def {name} : List (Bool × String × String) := [" +
                ", ".join(f"({_bool(a)}, {lean_str(b)}, {lean_str(c)})" for a, b, c in val) + "]")
    raise TypeError(name)


def emit(ctx, pid, functions, fact_names, writers_of=(), members_of=(), module=False, writers_not_in=(), repo=None,
         lean_dir=None):
    """write lean/PyrollModel/Gen/<pid>Hooks.lean (namespace Gen.<pid>.Hooks); returns the extracted info"""
    from .. import core
    repo = repo or core.REPO
    lean_dir = lean_dir or core.LEAN_DIR
    try:
        info, gaps = extract(repo)
    except (OSError, SyntaxError) as ex:
        ctx.tie_breaks.append(f"translator: {HOOKS} unreadable: {type(ex).__name__}: {ex}")
        tabs = {q: ["<missing>"] for q in FUNCS}
        tabs.update({"Hook.__get__#" + k: ["<missing>"] for k in ("class", "explicit", "cached", "compute")})
        info, gaps = {"tables": tabs, "lines": {q: 0 for q in tabs}, "facts": facts(tabs)[0],
                      "writers": [("<missing>", "", "")], "members": [("<missing>", [])], "module": ["<missing>"]}, []
    used = {q.partition("#")[0] for q in functions} | {FACT_DOC[n][0] for n in fact_names}
    for g in gaps:
        # a gap in a function this property does not read is the other properties' business
        part = re.search(r"Hook\.__get__#\w+(?=:)", g[:80])
        if part:
            if part.group(0) in functions:
                ctx.tie_breaks.append("translator (hooks.py): " + g)
            continue
        if any(g.startswith(q + ":") or (": " + q + ":") in g[:80] for q in used) or not any(q + ":" in g for q in FUNCS):
            ctx.tie_breaks.append("translator (hooks.py): " + g)
    out = [f"/- GENERATED by driver/translate/hooks_skeleton.py from pyroll/core/hooks.py of the working tree on every run "
           f"of ./check {pid} - do not edit. -/", f"namespace Gen.{pid}.Hooks", ""]
    out.append("/-! ### role lines: the statements of each mirrored function in canonical form -/")
    out.append("")
    for q in functions:
        out.append(f"/-- pyroll/core/hooks.py:{info['lines'][q]} `{q.replace('#', '`, part `')}` -/")
        out.append(f"def {lean_name(q)} : List String :=\n  {_strs(info['tables'][q])}")
        out.append("")
    if fact_names:
        out.append("/-! ### facts read off the role lines (consumed by the model) -/")
        out.append("")
    for n in fact_names:
        q, doc = FACT_DOC[n]
        out.append(f"/-- pyroll/core/hooks.py:{info['lines'][q]} `{q.replace('#', '`, part `')}`: {doc} -/")
        out.append(_fact_def(n, info["facts"][n]))
        out.append("")
    if writers_of:
        ws = [w for w in info["writers"] if (w[1] in writers_of and w[0] not in writers_not_in) or w[0] == "<missing>"]
        out.append("/-- pyroll/core/hooks.py (whole file): every write to " + ", ".join(f"`{c}`" for c in writers_of) +
                   " as (function, container, operation), sorted" +
                   ("; not listed (other properties mirror them): " + ", ".join(writers_not_in) if writers_not_in else "") +
                   " -/")
        out.append("def stateWriters : List (String × String × String) :=\n  [" +
                   ",\n   ".join(f"({lean_str(a)}, {lean_str(b)}, {lean_str(c)})" for a, b, c in ws) + "]")
        out.append("")
    if members_of:
        ms = [m for m in info["members"] if m[0].split("(")[0] in members_of or m[0] == "<missing>"]
        out.append("/-- pyroll/core/hooks.py: the names defined in the class bodies (sorted) -/")
        out.append("def classMembers : List (String × List String) :=\n  [" +
                   ",\n   ".join(f"({lean_str(a)}, [{', '.join(lean_str(x) for x in b)}])" for a, b in ms) + "]")
        out.append("")
    if module:
        out.append("/-- pyroll/core/hooks.py: module-level statements other than imports and definitions -/")
        out.append(f"def moduleLevel : List String := {_strs(info['module'])}")
        out.append("")
    out.append(f"end Gen.{pid}.Hooks")
    text = "\n".join(out) + "\n"
    changed = write_if_changed(os.path.join(lean_dir, "PyrollModel", "Gen", f"{pid}Hooks.lean"), text)
    ctx.notes.setdefault("generated", {})[f"Gen/{pid}Hooks.lean"] = {
        "functions": len(functions), "facts": len(fact_names), "rewritten": changed}
    return info


# what each property reads (its model mirrors these functions) ------------------------------------------------------------
SELECTION = {
    "C01": dict(
        functions=["HookFunction.__init__", "HookFunction.cycle", "HookFunction.__call__",
                   "HookFunction._determine_extra_args", "HookFunction.__enter__", "HookFunction.__exit__",
                   "Hook.__init__", "Hook.__set_name__", "Hook.__get__#class", "Hook.__get__#cached",
                   "Hook.__get__#compute", "Hook._yield_functions_from",
                   "Hook.functions_gen", "Hook.functions", "Hook.get_result", "Hook.add_function", "Hook.__call__",
                   "Hook.remove_function", "_HookHostMeta.__setattr__", "HookHost.extension_class",
                   "HookHost.has_value", "HookHost.reevaluate_cache"],
        fact_names=["functionsGenOrder", "yieldOver", "yieldGuard", "yieldReversed", "addStores", "removeStores",
                    "removeIgnoresAbsent", "callKey", "callCycleBeforeMark", "callMarkBeforeTry", "callDiscardClause",
                    "callDiscardGuard", "callDiscardInFinally", "getResultTest", "getLookups", "getChecks", "getStore",
                    "getStoreAfter", "getOwnerReuse"],
        writers_of=STORES + ["_active_instances"], members_of=["HookFunction", "Hook", "_HookHostMeta"]),
    "C02": dict(
        functions=["Hook.__get__#explicit", "Hook.__get__#cached", "Hook.__get__#compute", "Hook.__set__",
                   "Hook.__delete__", "Hook.get_result", "HookHost.__init__",
                   "HookHost.reevaluate_cache", "HookHost.has_set", "HookHost.has_cached", "HookHost.has_set_or_cached",
                   "HookHost.has_value", "HookHost.__attrs__", "HookHost.root_hook_fallback",
                   "HookHost.evaluate_and_set_hooks", "_RootHooksList.add", "_RootHooksList.insert_before",
                   "_RootHooksList.insert_after", "_RootHooksList.remove_last"],
        fact_names=["getLookups", "getChecks", "getStore", "getStoreAfter", "getResultTest", "hasSetIn", "hasCachedIn",
                    "reevalMode"],
        writers_of=["__dict__", "__cache__"], members_of=["HookHost", "_RootHooksList"], module=True),
    "C07": dict(
        functions=["_all_finite", "HookFunction.cycle", "HookFunction.__call__", "HookFunction._determine_extra_args",
                   "Hook.__get__#explicit", "Hook.__get__#cached", "Hook.__get__#compute", "Hook.get_result",
                   "HookHost.has_value"],
        fact_names=["getLookups", "getChecks", "getStore", "getStoreAfter", "getResultTest", "callKey",
                    "callCycleBeforeMark", "callMarkBeforeTry", "callDiscardClause", "callDiscardGuard",
                    "callDiscardInFinally"],
        writers_of=["__dict__", "__cache__", "_active_instances"], members_of=["HookFunction"],
        # class-level writes, re-evaluation, root hooks and copies are mirrored by C01 / C02 / C12, not by the C07 model
        writers_not_in=["HookHost.reevaluate_cache", "HookHost.evaluate_and_set_hooks", "HookHost.extension_class",
                        "HookHost.__copy__", "HookHost.__deepcopy__"]),
}


def emit_for(ctx, pid):
    info = emit(ctx, pid, **SELECTION[pid])
    try:
        bad = self_check(info["facts"], SELECTION[pid]["fact_names"])
    except Exception as ex:   # the running code did something the probe does not expect: the facts cannot be confirmed
        bad = [f"probe raised {type(ex).__name__}: {ex}"]
    for b in bad:
        ctx.tie_breaks.append("translator self-check (facts read from hooks.py vs. the imported pyroll.core.hooks): " + b)
    ctx.notes.setdefault("generated", {}).setdefault(f"Gen/{pid}Hooks.lean", {})["self_check_mismatches"] = len(bad)
    return info


# ---- the facts are executed against the code they were read from -------------------------------------------------------

def self_check(f, names):
    """every consumed fact is confronted with the behaviour of the imported `pyroll.core.hooks` on fresh scratch classes
    (a translator bug - or a tree whose import differs from the file read - shows up as a broken tie, not as a false
    theorem).  Returns a list of mismatch descriptions."""
    import math
    from pyroll.core.hooks import Hook, HookFunction, HookHost
    bad = []
    want = set(names)

    def fresh(n=1):
        cls = type("HK", (HookHost,), {f"h{k}": Hook[float]() for k in range(n)})
        return cls, cls.h0

    def fn(name, result=None, exc=None):
        def f(self):
            if exc is not None:
                raise exc
            return result
        f.__name__ = f.__qualname__ = name
        return f

    if "functionsGenOrder" in want and "<missing>" not in f["functionsGenOrder"]:
        cls, hook = fresh()
        for st in STORES:
            getattr(hook, st).append(HookFunction(fn(st), hook))
        got = [hf.name for hf in hook.functions]
        if got != f["functionsGenOrder"]:
            bad.append(f"functionsGenOrder read {f['functionsGenOrder']}, Hook.functions yields {got}")
    if "yieldReversed" in want:
        cls, hook = fresh()
        hook._functions.append(HookFunction(fn("a"), hook))
        hook._functions.append(HookFunction(fn("b"), hook))
        got = [hf.name for hf in hook.functions]
        if got != (["b", "a"] if f["yieldReversed"] else ["a", "b"]):
            bad.append(f"yieldReversed read {f['yieldReversed']}, two functions of one store are yielded as {got}")
    if "addStores" in want:
        for w in (True, False):
            for tf, tl in ((True, False), (False, False), (False, True)):
                cls, hook = fresh()
                hf = hook.add_function(fn("x"), tryfirst=tf, trylast=tl, wrapper=w)
                got = sorted(st for st in STORES if any(x is hf for x in getattr(hook, st)))
                exp = None
                for (w2, c, st) in f["addStores"]:
                    if w2 == w and (c == "" or (c == "tryfirst" and tf) or (c == "trylast" and tl)):
                        exp = st
                        break
                if got != [exp]:
                    bad.append(f"addStores read {exp} for wrapper={w} tryfirst={tf} trylast={tl}, add_function appended to {got}")
    if "removeStores" in want:
        for st in STORES:
            cls, hook = fresh()
            hf = HookFunction(fn("x"), hook)
            getattr(hook, st).append(hf)
            hook.remove_function(hf)
            gone = not any(x is hf for x in getattr(hook, st))
            if gone != (st in f["removeStores"]):
                bad.append(f"removeStores read {f['removeStores']}, remove_function {'removes' if gone else 'leaves'} an entry of {st}")
    if "callDiscardInFinally" in want:
        cls, hook = fresh()
        hf = hook.add_function(fn("x", exc=ValueError("probe")))
        try:
            hf(cls())
        except ValueError:
            pass
        left = bool(hf.cycle)
        if left == (f["callDiscardInFinally"] and f["callDiscardGuard"] in ("unless cycle", "always")):
            bad.append(f"callDiscardClause read '{f['callDiscardClause']}', after a raising call HookFunction.cycle is {left}")
    if "getOwnerReuse" in want:
        base, _ = fresh()
        sub = type("HKS", (base,), {})
        own = sub.h0                       # the per-subclass hook object, created by this access
        own.add_function(fn("x"))
        base.__dict__["h0"].__get__(None, sub)      # what `super(sub, sub).h0` does
        kept = sub.__dict__.get("h0") is own
        if kept != f["getOwnerReuse"]:
            bad.append(f"getOwnerReuse read {f['getOwnerReuse']}, the hook of the base class asked with the subclass as owner "
                       f"{'keeps' if kept else 'replaces'} the hook object the subclass carries")
    if "getResultTest" in want:
        cls, hook = fresh()
        hook.add_function(fn("zero", result=0.0))
        got = hook.get_result(cls())
        exp = {"is not None": 0.0, "truthy": None}.get(f["getResultTest"], "?")
        if exp != "?" and got != exp:
            bad.append(f"getResultTest read '{f['getResultTest']}', get_result of a chain whose only result is 0.0 gives {got!r}")
    if "getLookups" in want and len(f["getLookups"]) == 2:
        for (d, test), other in zip(f["getLookups"], (8.0, 9.0)):
            if d not in ("__dict__", "__cache__"):
                continue
            cls, hook = fresh()
            hook.add_function(fn("c", result=7.0))
            o = cls()
            getattr(o, d)["h0"] = 0.0
            got = o.h0
            exp = {"is not None": 0.0, "truthy": 7.0}.get(test)
            if exp is not None and got != exp:
                bad.append(f"getLookups read ({d}, '{test}'), a stored 0.0 reads as {got!r}")
    if "getChecks" in want or "getStoreAfter" in want:
        checks = f["getChecks"]
        probes = {"is None": (fn("n", result=None), None), "not _all_finite": (fn("i", result=math.inf), math.inf),
                  "except RecursionError": (fn("r", exc=RecursionError("probe")), None)}
        for k, (cond, exc_name) in enumerate(checks):
            if cond not in probes:
                continue
            cls, hook = fresh()
            hook.add_function(probes[cond][0])
            o = cls()
            try:
                o.h0
                got = "no exception"
            except BaseException as ex:
                got = type(ex).__name__
            if got != exc_name:
                bad.append(f"getChecks read ({cond} -> {exc_name}), the read raises {got}")
            stored = "h0" in o.__cache__
            if cond != "except RecursionError" and stored != (k >= f["getStoreAfter"]):
                bad.append(f"getStoreAfter read {f['getStoreAfter']}, after the failing check '{cond}' the cache "
                           f"{'holds' if stored else 'does not hold'} an entry")
    for name, d in (("hasSetIn", "has_set"), ("hasCachedIn", "has_cached")):
        if name in want and f[name] in ("__dict__", "__cache__"):
            cls, hook = fresh()
            o = cls()
            getattr(o, f[name])["h0"] = 1.0
            other = "__cache__" if f[name] == "__dict__" else "__dict__"
            o2 = cls()
            getattr(o2, other)["h0"] = 1.0
            if not getattr(o, d)("h0") or getattr(o2, d)("h0"):
                bad.append(f"{name} read {f[name]}, {d} answers {getattr(o, d)('h0')} / {getattr(o2, d)('h0')}")
    if "reevalMode" in want and not f["reevalMode"].startswith("other"):
        cls, hook = fresh()
        hook.add_function(fn("two", result=2.0))
        o = cls()
        o.__cache__["h0"] = 1.0
        o.reevaluate_cache()
        got = dict(o.__cache__)
        exp = {} if f["reevalMode"] == "clear" else {"h0": 2.0}
        if got != exp:
            bad.append(f"reevalMode read '{f['reevalMode']}', reevaluate_cache turns {{'h0': 1.0}} into {got}")
    return bad


if __name__ == "__main__":      # python -m driver.translate.hooks_skeleton [repo]: print what is read
    import sys
    info_, gaps_ = extract(sys.argv[1] if len(sys.argv) > 1 else "/repo")
    for q_, ls_ in info_["tables"].items():
        print(f"== {q_} (line {info_['lines'][q_]})")
        for ln_ in ls_:
            print("   " + ln_)
    for k_, v_ in info_["facts"].items():
        print(f"{k_} = {v_!r}")
    for w_ in info_["writers"]:
        print("writer", w_)
    for m_ in info_["members"]:
        print("class", m_)
    print("module", info_["module"])
    for g_ in gaps_:
        print("GAP", g_)
