"""(T) for C06: the parts of the hand-over mechanism that are not hook implementations.

Read by AST pattern (node types are whitelisted; anything else raises `Untranslatable`, recorded as a tie break):

  pyroll/core/__init__.py      root_hooks.extend([...])                  -> ordered (owner path, hook name) list
  pyroll/core/unit/unit.py     Unit.Profile.__init__                     -> copy rule (source dict, hidden prefix)
                               Unit.solve: `out_profile = BaseProfile(**{...})`, post-processor chaining, loop body order
                               Unit.init_solve: pre-processor chaining, in/out profile creation
                               Unit._solve_subunits: threading of `last_profile`
                               Unit.get_root_hook_results: evaluation order
                               Unit.OutProfile.root_hook_fallback        -> condition, source when sub-units, else source
  pyroll/core/hooks.py         HookHost.evaluate_and_set_hooks           -> step order (result, fallback, raise, setattr)
  pyroll/core/disk_elements/disk_element_unit.py  DiskElementUnit.init_solve -> number of disk elements created (Expr)
  pyroll/core/disk_elements/hookimpls.py          in_x (try/except)      -> the two sources of a disk's incoming x

Everything is emitted as plain Lean data (strings, lists, `Expr`); `lean/PyrollProps/C06.lean` compares it with the
shape the hand-written model `PyrollModel/Handover.lean` mirrors (`skeleton_certificate`, by `decide`).
"""
import ast
import os

from .pyexpr import Untranslatable, attr_path, ExprTranslator, lean_expr, lean_str


def _parse(repo, rel):
    path = os.path.join(repo, "pyroll", "core", rel)
    return ast.parse(open(path).read())


def _find_class(body, name):
    for n in body:
        if isinstance(n, ast.ClassDef) and n.name == name:
            return n
    raise Untranslatable(f"class {name} not found")


def _find_def(body, name):
    for n in body:
        if isinstance(n, ast.FunctionDef) and n.name == name:
            return n
    raise Untranslatable(f"def {name} not found")


def _path(n):
    p = attr_path(n)
    if p is None:
        raise Untranslatable("not an attribute path: " + ast.unparse(n)[:80])
    return ".".join(p)


def _stmts(fn):
    """statements of a function without docstring"""
    out = []
    for st in fn.body:
        if isinstance(st, ast.Expr) and isinstance(st.value, ast.Constant) and isinstance(st.value.value, str):
            continue
        out.append(st)
    return out


# ---- root hooks ---------------------------------------------------------------------------------------------------
def root_hooks(repo):
    tree = _parse(repo, "__init__.py")
    found = None
    for st in tree.body:
        if isinstance(st, ast.Expr) and isinstance(st.value, ast.Call):
            c = st.value
            if isinstance(c.func, ast.Attribute) and c.func.attr in ("extend", "append", "add", "insert") \
                    and attr_path(c.func.value) == ["root_hooks"]:
                if found is not None or c.func.attr != "extend":
                    raise Untranslatable("root_hooks is filled by more than one `extend([...])` statement")
                if len(c.args) != 1 or not isinstance(c.args[0], (ast.List, ast.Tuple)) or c.keywords:
                    raise Untranslatable("root_hooks.extend argument is not a list display")
                found = []
                for e in c.args[0].elts:
                    p = attr_path(e)
                    if p is None or len(p) < 2:
                        raise Untranslatable("root hook entry " + ast.unparse(e))
                    found.append((".".join(p[:-1]), p[-1]))
    if found is None:
        raise Untranslatable("root_hooks.extend([...]) not found in pyroll/core/__init__.py")
    return found


# ---- copy rules ---------------------------------------------------------------------------------------------------
def copy_rule(node):
    """dict(e for e in SRC.items() if not e[0].startswith(P))  /  {k: v for k, v in SRC.items() if not k.startswith(P)}
    -> (SRC, P)"""
    comp = None
    if isinstance(node, ast.Call) and isinstance(node.func, ast.Name) and node.func.id == "dict" \
            and len(node.args) == 1 and not node.keywords and isinstance(node.args[0], ast.GeneratorExp):
        comp = node.args[0]
        form = "pairs"
    elif isinstance(node, ast.DictComp):
        comp = node
        form = "dictcomp"
    if comp is None or len(comp.generators) != 1 or comp.generators[0].is_async:
        raise Untranslatable("copy rule: " + ast.unparse(node)[:100])
    g = comp.generators[0]
    it = g.iter
    if not (isinstance(it, ast.Call) and isinstance(it.func, ast.Attribute) and it.func.attr == "items" and not it.args):
        raise Untranslatable("copy rule iterates over " + ast.unparse(it)[:80])
    src = _path(it.func.value)
    if form == "pairs":
        if not (isinstance(g.target, ast.Name) and isinstance(comp.elt, ast.Name) and comp.elt.id == g.target.id):
            raise Untranslatable("copy rule element is not the item itself")
        key = ast.Subscript(value=ast.Name(id=g.target.id), slice=ast.Constant(value=0))
        key_src = f"{g.target.id}[0]"
    else:
        if not (isinstance(g.target, ast.Tuple) and len(g.target.elts) == 2
                and all(isinstance(e, ast.Name) for e in g.target.elts)
                and isinstance(comp.key, ast.Name) and isinstance(comp.value, ast.Name)
                and comp.key.id == g.target.elts[0].id and comp.value.id == g.target.elts[1].id):
            raise Untranslatable("copy rule does not map k to v")
        key_src = g.target.elts[0].id
    if len(g.ifs) != 1:
        raise Untranslatable("copy rule has %d filters" % len(g.ifs))
    f = g.ifs[0]
    if not (isinstance(f, ast.UnaryOp) and isinstance(f.op, ast.Not) and isinstance(f.operand, ast.Call)
            and isinstance(f.operand.func, ast.Attribute) and f.operand.func.attr == "startswith"
            and ast.unparse(f.operand.func.value) == key_src and len(f.operand.args) == 1
            and isinstance(f.operand.args[0], ast.Constant) and isinstance(f.operand.args[0].value, str)):
        raise Untranslatable("copy rule filter " + ast.unparse(f)[:80])
    return src, f.operand.args[0].value


def _call_sig(c):
    """Call node -> 'callee(arg, arg, **kw)' with attribute paths only"""
    if not isinstance(c, ast.Call):
        raise Untranslatable("not a call: " + ast.unparse(c)[:80])
    if isinstance(c.func, ast.Call) and isinstance(c.func.func, ast.Name) and c.func.func.id == "super":
        raise Untranslatable("bare super() call")
    if isinstance(c.func, ast.Attribute) and isinstance(c.func.value, ast.Call) \
            and isinstance(c.func.value.func, ast.Name) and c.func.value.func.id == "super":
        callee = "super()." + c.func.attr
    else:
        callee = _path(c.func)
    def arg(a):
        return _call_sig(a) if isinstance(a, ast.Call) else _path(a)
    args = [arg(a) for a in c.args]
    for kw in c.keywords:
        args.append(("**" if kw.arg is None else kw.arg + "=") + arg(kw.value))
    return f"{callee}({', '.join(args)})"


def _step(st):
    """one simple statement -> normalised text: `x = f(a)`, `f(a)`, `return x`"""
    if isinstance(st, ast.Assign) and len(st.targets) == 1:
        tgt = _path(st.targets[0])
        if isinstance(st.value, ast.Call):
            return f"{tgt} = {_call_sig(st.value)}"
        return f"{tgt} = {_path(st.value)}"
    if isinstance(st, ast.Expr) and isinstance(st.value, ast.Call):
        return _call_sig(st.value)
    if isinstance(st, ast.Return):
        return "return" + ("" if st.value is None else " " + (_call_sig(st.value) if isinstance(st.value, ast.Call)
                                                              else _path(st.value)))
    raise Untranslatable("statement " + type(st).__name__ + ": " + ast.unparse(st)[:80])


def _is_logging(st):
    return isinstance(st, ast.Expr) and isinstance(st.value, ast.Call) and isinstance(st.value.func, ast.Attribute) \
        and attr_path(st.value.func) is not None and "logger" in attr_path(st.value.func)


def _processor_loop(st, kind):
    """for f in self._yield_<kind>_processors(): p = f(self); if p is None: continue; <log>; VAR = p.solve(VAR)
    -> normalised text of the chaining statement"""
    if not (isinstance(st, ast.For) and isinstance(st.iter, ast.Call) and not st.orelse
            and _path(st.iter.func) == f"self._yield_{kind}_processors"):
        raise Untranslatable(f"{kind}-processor loop: " + ast.unparse(st)[:80])
    body = [s for s in st.body if not _is_logging(s)]
    if len(body) != 3:
        raise Untranslatable(f"{kind}-processor loop body has {len(body)} statements")
    fac, guard, chain = body
    f_txt = _step(fac)
    if not (isinstance(guard, ast.If) and len(guard.body) == 1 and isinstance(guard.body[0], ast.Continue)
            and not guard.orelse and isinstance(guard.test, ast.Compare) and len(guard.test.ops) == 1
            and isinstance(guard.test.ops[0], ast.Is) and isinstance(guard.test.comparators[0], ast.Constant)
            and guard.test.comparators[0].value is None):
        raise Untranslatable(f"{kind}-processor guard")
    return [f_txt.replace(_path(st.target), "factory"), _step(chain)]


# ---- unit.py ------------------------------------------------------------------------------------------------------
def unit_skeleton(repo):
    tree = _parse(repo, "unit/unit.py")
    unit = _find_class(tree.body, "Unit")
    sk = {}

    # Unit.Profile.__init__
    prof = _find_class(unit.body, "Profile")
    init = _find_def(prof.body, "__init__")
    params = [a.arg for a in init.args.args]
    st = _stmts(init)
    rule = None
    steps = []
    for s in st:
        if isinstance(s, ast.Assign) and len(s.targets) == 1 and isinstance(s.targets[0], ast.Name) \
                and isinstance(s.value, (ast.DictComp, ast.Call)) and rule is None \
                and not (isinstance(s.value, ast.Call) and _is_weakref(s.value)):
            src, prefix = copy_rule(s.value)
            rule = (s.targets[0].id, src, prefix)
            continue
        if isinstance(s, ast.Assign) and isinstance(s.value, ast.Call) and _is_weakref(s.value):
            continue  # self._unit = weakref.ref(unit): a private attribute, not part of the public state
        steps.append(_step(s))
    if rule is None:
        raise Untranslatable("Unit.Profile.__init__: no copy of the template's values")
    if len(params) != 3:
        raise Untranslatable("Unit.Profile.__init__ signature")
    sk["profile_init"] = {"source": rule[1].replace(params[2], "template", 1), "hide": rule[2],
                          "steps": [x.replace(rule[0], "COPY") for x in steps]}

    # Unit.OutProfile.root_hook_fallback
    outp = _find_class(unit.body, "OutProfile")
    fb = _find_def(outp.body, "root_hook_fallback")
    st = _stmts(fb)
    hookpar = fb.args.args[1].arg
    if not (len(st) == 2 and isinstance(st[0], ast.If) and not st[0].orelse and len(st[0].body) == 1
            and isinstance(st[0].body[0], ast.Return) and isinstance(st[1], ast.Return)):
        raise Untranslatable("root_hook_fallback is not `if c: return a` / `return b`")

    def getattr_src(ret):
        c = ret.value
        if not (isinstance(c, ast.Call) and isinstance(c.func, ast.Name) and c.func.id == "getattr" and len(c.args) == 3
                and _path(c.args[1]) == hookpar + ".name" and isinstance(c.args[2], ast.Constant)
                and c.args[2].value is None):
            raise Untranslatable("root_hook_fallback return: " + ast.unparse(ret)[:80])
        return _sub_path(c.args[0])
    sk["fallback"] = {"cond": _path(st[0].test), "then": getattr_src(st[0].body[0]), "else": getattr_src(st[1])}

    # Unit._solve_subunits
    ss = _find_def(unit.body, "_solve_subunits")
    st = _stmts(ss)
    if not (len(st) == 1 and isinstance(st[0], ast.If) and not st[0].orelse):
        raise Untranslatable("_solve_subunits shape")
    body = st[0].body
    if not (len(body) == 2 and isinstance(body[1], ast.For) and not body[1].orelse):
        raise Untranslatable("_solve_subunits body")
    loop = body[1]
    inner = loop.body
    if len(inner) == 1 and isinstance(inner[0], ast.Try):
        if inner[0].finalbody or inner[0].orelse:
            raise Untranslatable("_solve_subunits try")
        for h in inner[0].handlers:
            if not (len(h.body) == 1 and isinstance(h.body[0], ast.Raise)):
                raise Untranslatable("_solve_subunits swallows an exception")
        inner = inner[0].body
    if len(inner) != 1:
        raise Untranslatable("_solve_subunits loop body")
    sk["solve_subunits"] = {"cond": _path(st[0].test), "init": _step(body[0]), "over": _path(loop.iter),
                            "step": _step(inner[0]).replace(_path(loop.target), "u")}

    # Unit.init_solve
    isv = _find_def(unit.body, "init_solve")
    st = _stmts(isv)
    if len(st) != 3:
        raise Untranslatable("init_solve has %d statements" % len(st))
    pre = _processor_loop(st[0], "pre")
    if not (isinstance(st[2], ast.If) and len(st[2].body) == 1
            and isinstance(st[2].test, ast.UnaryOp) and isinstance(st[2].test.op, ast.Not)):
        raise Untranslatable("init_solve: out profile creation guard")
    sk["init_solve"] = pre + [_step(st[1]), "if not " + _path(st[2].test.operand) + ": " + _step(st[2].body[0])]
    # the `else:` branch of the guard (source form with hand-over to a re-used out profile); absent in the older form
    if st[2].orelse:
        if len(isv.args.args) != 2:
            raise Untranslatable("init_solve signature")
        try:
            sk["reuse"] = reuse_branch(st[2].orelse, _path(st[2].test.operand), isv.args.args[1].arg)
        except Untranslatable as ex:    # only this part of the skeleton is lost
            sk["reuse"] = dict(MISSING_REUSE)
            sk.setdefault("gaps", []).append(str(ex))
    else:
        sk["reuse"] = None

    # Unit.get_root_hook_results
    g = _find_def(unit.body, "get_root_hook_results")
    st = _stmts(g)
    order = []
    for s in st[:-1]:
        order.append(_step(s))
    ret = st[-1]
    if not (isinstance(ret, ast.Return) and isinstance(ret.value, ast.Call)):
        raise Untranslatable("get_root_hook_results return")
    sk["root_results"] = order

    # Unit.solve
    sv = _find_def(unit.body, "solve")
    st = [s for s in _stmts(sv) if not _is_logging(s)]
    loop = [s for s in st if isinstance(s, ast.For) and s.orelse]
    if len(loop) != 1:
        raise Untranslatable("Unit.solve: iteration loop not found")
    loop = loop[0]
    body = []
    for s in loop.body:
        if isinstance(s, ast.If) or _is_logging(s):
            break
        body.append(_step(s))
    tail = st[st.index(loop) + 1:]
    ret_rule = None
    post = None
    ret = None
    for s in tail:
        if isinstance(s, ast.Assign) and isinstance(s.value, ast.Call) and len(s.value.keywords) == 1 \
                and s.value.keywords[0].arg is None and not s.value.args \
                and isinstance(s.value.keywords[0].value, (ast.DictComp, ast.Call)):
            src, prefix = copy_rule(s.value.keywords[0].value)
            ret_rule = (_path(s.targets[0]), _path(s.value.func), src, prefix)
        elif isinstance(s, ast.For):
            post = _processor_loop(s, "post")
        elif isinstance(s, ast.Return):
            ret = _step(s)
        elif isinstance(s, ast.Assign) and isinstance(s.value, ast.Call) and _path(s.value.func) == "timer":
            continue
        else:
            raise Untranslatable("Unit.solve tail: " + ast.unparse(s)[:80])
    if ret_rule is None or post is None or ret is None:
        raise Untranslatable("Unit.solve: returned profile construction not found")
    pre_loop = [_step(s) for s in st[:st.index(loop)] if not (isinstance(s, ast.Assign) and isinstance(s.value, ast.Call)
                                                              and _path(s.value.func) == "timer")]
    sk["solve"] = {"before": pre_loop, "loop": body,
                   "returned": {"var": ret_rule[0], "cls": ret_rule[1], "source": ret_rule[2], "hide": ret_rule[3]},
                   "post": post, "ret": ret}
    return sk


# ---- the `else:` branch of `init_solve`: hand-over to a re-used out profile -------------------------------------------
MISSING_REUSE = {"roots": ("<missing>", "", ""), "handed": ("<missing>", ""), "delete": ("<missing>", "", []),
                 "set": ("<missing>", "", [])}


def _literal(node, kvar, names, out_dict):
    """one literal of a delete / set condition -> (atom, polarity, hidden prefix or None); atoms:
    hidden  `k.startswith(P)`      root  `k in ROOTS`      handed  `k in HANDED`      present  `k in <out>.__dict__`"""
    if isinstance(node, ast.UnaryOp) and isinstance(node.op, ast.Not):
        a, pol, pfx = _literal(node.operand, kvar, names, out_dict)
        return a, not pol, pfx
    if isinstance(node, ast.Call) and isinstance(node.func, ast.Attribute) and node.func.attr == "startswith" \
            and isinstance(node.func.value, ast.Name) and node.func.value.id == kvar and len(node.args) == 1 \
            and not node.keywords and isinstance(node.args[0], ast.Constant) and isinstance(node.args[0].value, str):
        return "hidden", True, node.args[0].value
    if isinstance(node, ast.Compare) and len(node.ops) == 1 and isinstance(node.ops[0], (ast.In, ast.NotIn)) \
            and isinstance(node.left, ast.Name) and node.left.id == kvar:
        pol = isinstance(node.ops[0], ast.In)
        c = node.comparators[0]
        if isinstance(c, ast.Name) and c.id in names:
            return names[c.id], pol, None
        if attr_path(c) is not None and ".".join(attr_path(c)) == out_dict:
            return "present", pol, None
    raise Untranslatable("re-use branch: condition " + ast.unparse(node)[:80])


def _literals(nodes, op, kvar, names, out_dict, hide):
    """`a and b and c` (op = ast.And; several `if`s of a comprehension count as `and`) / `a or b` -> [(atom, polarity)]"""
    flat = []
    for n in nodes:
        if isinstance(n, ast.BoolOp) and isinstance(n.op, op):
            flat += n.values
        elif isinstance(n, ast.BoolOp):
            raise Untranslatable("re-use branch: mixed and/or in " + ast.unparse(n)[:80])
        else:
            flat.append(n)
    out = []
    for n in flat:
        a, pol, pfx = _literal(n, kvar, names, out_dict)
        if pfx is not None and pfx != hide:
            raise Untranslatable(f"re-use branch: hidden prefix {pfx!r} differs from the hand-over rule's {hide!r}")
        out.append((a, pol))
    return out


def _renamed(node, old, new):
    """a copy of the expression with the local name `old` written as `new`"""
    import copy
    node = copy.deepcopy(node)
    for n in ast.walk(node):
        if isinstance(n, ast.Name) and n.id == old:
            n.id = new
    return node


def reuse_branch(stmts, out_path, in_param):
    """roots = {h.name for h in root_hooks if isinstance(OUT, h.owner)}
    handed = {k: v for k, v in IN.__dict__.items() if not k.startswith(P)}
    outdated = [k for k in OUT.__dict__ if <and of literals>]
    for k in outdated: delattr(OUT, k)
    for k, v in handed.items():
        if <or of literals>: setattr(OUT, k, v)
    -> {"roots": (elt, iter, cond), "handed": (source, prefix), "delete": (iterated, action, literals),
        "set": (iterated, action, literals)} with the local names normalised (HOOK, HANDED, k, v)"""
    stmts = [s for s in stmts if not _is_logging(s)]
    if len(stmts) != 5:
        raise Untranslatable("re-use branch of init_solve has %d statements" % len(stmts))
    a_roots, a_handed, a_out, f_del, f_set = stmts
    for a in (a_roots, a_handed, a_out):
        if not (isinstance(a, ast.Assign) and len(a.targets) == 1 and isinstance(a.targets[0], ast.Name)):
            raise Untranslatable("re-use branch: " + ast.unparse(a)[:80])
    out_dict = out_path + ".__dict__"
    # roots
    sc = a_roots.value
    if not (isinstance(sc, ast.SetComp) and len(sc.generators) == 1 and not sc.generators[0].is_async
            and isinstance(sc.generators[0].target, ast.Name) and len(sc.generators[0].ifs) == 1):
        raise Untranslatable("re-use branch: root hook names " + ast.unparse(sc)[:80])
    g = sc.generators[0]
    h = g.target.id
    cond = g.ifs[0]
    if not (isinstance(cond, ast.Call) and isinstance(cond.func, ast.Name) and cond.func.id == "isinstance"
            and len(cond.args) == 2 and not cond.keywords):
        raise Untranslatable("re-use branch: root hook test " + ast.unparse(cond)[:80])
    roots = (_path(_renamed(sc.elt, h, "HOOK")), _path(g.iter), _call_sig(_renamed(cond, h, "HOOK")))
    # handed over
    src, hide = copy_rule(a_handed.value)
    if not src.startswith(in_param + "."):
        raise Untranslatable("re-use branch: hands over from " + src)
    handed = ("in_profile" + src[len(in_param):], hide)
    names = {a_roots.targets[0].id: "root", a_handed.targets[0].id: "handed"}
    # outdated
    lc = a_out.value
    if not (isinstance(lc, ast.ListComp) and len(lc.generators) == 1 and not lc.generators[0].is_async
            and isinstance(lc.generators[0].target, ast.Name) and isinstance(lc.elt, ast.Name)
            and lc.elt.id == lc.generators[0].target.id and lc.generators[0].ifs):
        raise Untranslatable("re-use branch: outdated entries " + ast.unparse(lc)[:80])
    g = lc.generators[0]
    if _path(g.iter) != out_dict:
        raise Untranslatable("re-use branch: outdated entries are taken from " + _path(g.iter))
    del_lits = _literals(g.ifs, ast.And, g.target.id, names, out_dict, hide)
    # delete loop
    if not (isinstance(f_del, ast.For) and not f_del.orelse and isinstance(f_del.target, ast.Name)
            and isinstance(f_del.iter, ast.Name) and f_del.iter.id == a_out.targets[0].id and len(f_del.body) == 1):
        raise Untranslatable("re-use branch: delete loop " + ast.unparse(f_del)[:80])
    k = f_del.target.id
    del_act = _step(f_del.body[0])
    if del_act != f"delattr({out_path}, {k})":
        raise Untranslatable("re-use branch: delete loop does " + del_act)
    # set loop
    if not (isinstance(f_set, ast.For) and not f_set.orelse and isinstance(f_set.target, ast.Tuple)
            and len(f_set.target.elts) == 2 and all(isinstance(e, ast.Name) for e in f_set.target.elts)
            and isinstance(f_set.iter, ast.Call) and isinstance(f_set.iter.func, ast.Attribute)
            and f_set.iter.func.attr == "items" and not f_set.iter.args
            and isinstance(f_set.iter.func.value, ast.Name) and f_set.iter.func.value.id == a_handed.targets[0].id
            and len(f_set.body) == 1):
        raise Untranslatable("re-use branch: set loop " + ast.unparse(f_set)[:80])
    kk, vv = (e.id for e in f_set.target.elts)
    inner = f_set.body[0]
    if isinstance(inner, ast.If):
        if inner.orelse or len(inner.body) != 1:
            raise Untranslatable("re-use branch: set loop if/else")
        set_lits = _literals([inner.test], ast.Or, kk, names, out_dict, hide)
        act = inner.body[0]
    else:
        set_lits = [("present", True), ("present", False)]      # unconditional
        act = inner
    set_act = _step(act)
    if set_act != f"setattr({out_path}, {kk}, {vv})":
        raise Untranslatable("re-use branch: set loop does " + set_act)
    return {"roots": roots, "handed": handed,
            "delete": (out_dict, f"delattr({out_path}, k)", del_lits),
            "set": ("HANDED.items()", f"setattr({out_path}, k, v)", set_lits)}


def _is_weakref(c):
    p = attr_path(c.func)
    return p == ["weakref", "ref"]


def _sub_path(n):
    """attribute path that may contain one constant (possibly negative) subscript: a.b[-1].c"""
    if isinstance(n, ast.Attribute):
        return _sub_path(n.value) + "." + n.attr
    if isinstance(n, ast.Name):
        return n.id
    if isinstance(n, ast.Subscript):
        s = n.slice
        if isinstance(s, ast.UnaryOp) and isinstance(s.op, ast.USub) and isinstance(s.operand, ast.Constant) \
                and isinstance(s.operand.value, int):
            return _sub_path(n.value) + f"[-{s.operand.value}]"
        if isinstance(s, ast.Constant) and isinstance(s.value, int):
            return _sub_path(n.value) + f"[{s.value}]"
    raise Untranslatable("path " + ast.unparse(n)[:80])


# ---- hooks.py: evaluate_and_set_hooks -----------------------------------------------------------------------------
def evaluate_and_set(repo):
    tree = _parse(repo, "hooks.py")
    host = _find_class(tree.body, "HookHost")
    fn = _find_def(host.body, "evaluate_and_set_hooks")
    gen = [s for s in _stmts(fn) if isinstance(s, ast.FunctionDef)]
    if len(gen) != 1:
        raise Untranslatable("evaluate_and_set_hooks: inner generator")
    loop = [s for s in _stmts(gen[0]) if isinstance(s, ast.For)]
    if len(loop) != 1 or _path(loop[0].iter) != "root_hooks":
        raise Untranslatable("evaluate_and_set_hooks: loop over root_hooks")
    hvar = _path(loop[0].target)
    body = loop[0].body
    if not (len(body) == 1 and isinstance(body[0], ast.If) and not body[0].orelse):
        raise Untranslatable("evaluate_and_set_hooks: applicability test")
    steps = ["if " + _norm(ast.unparse(body[0].test), hvar) + ":"]
    for s in body[0].body:
        if isinstance(s, ast.Try):
            break   # the numeric flattening of the result for the convergence test: not part of the hand-over
        if isinstance(s, ast.If):
            if s.orelse or len(s.body) != 1:
                raise Untranslatable("evaluate_and_set_hooks: if/else")
            t = s.test
            if not (isinstance(t, ast.Compare) and len(t.ops) == 1 and isinstance(t.ops[0], ast.Is)
                    and isinstance(t.comparators[0], ast.Constant) and t.comparators[0].value is None):
                raise Untranslatable("evaluate_and_set_hooks: test " + ast.unparse(t))
            inner = s.body[0]
            if isinstance(inner, ast.Raise):
                what = "raise " + (inner.exc.func.id if isinstance(inner.exc, ast.Call) and isinstance(inner.exc.func, ast.Name)
                                   else ast.unparse(inner.exc)[:40])
            else:
                what = _norm(_step(inner), hvar)
            steps.append(f"if {_path(t.left)} is None: {what}")
        else:
            steps.append(_norm(_step(s), hvar))
    return steps


def _norm(txt, hvar):
    return txt.replace(hvar + ".", "HOOK.").replace("(" + hvar + ")", "(HOOK)").replace(hvar + " =", "HOOK =")


# ---- disk elements ------------------------------------------------------------------------------------------------
def disk_creation(repo):
    """-> (Expr tuple of the number of disk elements created, guard text)"""
    tree = _parse(repo, "disk_elements/disk_element_unit.py")
    cls = _find_class(tree.body, "DiskElementUnit")
    fn = _find_def(cls.body, "init_solve")
    st = _stmts(fn)
    if not (len(st) == 2 and isinstance(st[1], ast.If) and not st[1].orelse and len(st[1].body) == 1):
        raise Untranslatable("DiskElementUnit.init_solve shape")
    first = _step(st[0])
    guard = ast.unparse(st[1].test)
    a = st[1].body[0]
    if not (isinstance(a, ast.Assign) and _path(a.targets[0]) == "self._subunits" and isinstance(a.value, ast.Call)
            and len(a.value.args) == 2 and isinstance(a.value.args[1], ast.ListComp)):
        raise Untranslatable("DiskElementUnit.init_solve: sub-unit list construction")
    lc = a.value.args[1]
    g = lc.generators[0]
    if len(lc.generators) != 1 or g.ifs or not (isinstance(g.iter, ast.Call) and isinstance(g.iter.func, ast.Name)
                                                and g.iter.func.id == "range" and len(g.iter.args) == 1):
        raise Untranslatable("DiskElementUnit.init_solve: not `for i in range(n)`")
    if not (isinstance(lc.elt, ast.Call) and _path(lc.elt.func) == "self.DiskElement"):
        raise Untranslatable("DiskElementUnit.init_solve: element constructor")
    n = ExprTranslator("self").tr(g.iter.args[0])
    return n, first, guard, _path(a.value.args[0])


def disk_in_x(repo):
    """try: return A except IndexError: return B  -> (A, exception name, B)"""
    tree = _parse(repo, "disk_elements/hookimpls.py")
    fn = _find_def(tree.body, "in_x")
    host = None
    for d in fn.decorator_list:
        host = _path(d)
    st = _stmts(fn)
    if not (len(st) == 1 and isinstance(st[0], ast.Try) and not st[0].finalbody and not st[0].orelse
            and len(st[0].handlers) == 1 and len(st[0].body) == 1 and isinstance(st[0].body[0], ast.Return)
            and len(st[0].handlers[0].body) == 1 and isinstance(st[0].handlers[0].body[0], ast.Return)):
        raise Untranslatable("DiskElement.InProfile.x implementation shape")
    h = st[0].handlers[0]
    return host, _path(st[0].body[0].value)[5:], _path(h.type), _path(h.body[0].value)[5:]


# ---- emission -----------------------------------------------------------------------------------------------------
def _lean_list(xs):
    return "[" + ", ".join(lean_str(x) for x in xs) + "]"


def emit(repo, tie_breaks):
    """Lean text appended to Gen/C06.lean; gaps are appended to tie_breaks (the definitions concerned are emitted
    with a `<missing>` marker so that the certificate theorem fails, never silently passes)."""
    out = []

    def guarded(name, f, default):
        try:
            return f()
        except Untranslatable as ex:
            tie_breaks.append(f"translator: {name}: {ex}")
            return default
    rh = guarded("root hook list", lambda: root_hooks(repo), [("<missing>", "<missing>")])
    out.append("/-- pyroll/core/__init__.py `root_hooks.extend([...])`: ordered (owner class path, hook name) -/")
    out.append("def rootHooks : List (String × String) :=\n  [" +
               ",\n   ".join(f"({lean_str(o)}, {lean_str(n)})" for (o, n) in rh) + "]")
    out.append("")
    sk = guarded("unit.py hand-over skeleton", lambda: unit_skeleton(repo), None)
    if sk is None:
        sk = {"profile_init": {"source": "<missing>", "hide": "", "steps": []},
              "fallback": {"cond": "<missing>", "then": "", "else": ""},
              "solve_subunits": {"cond": "<missing>", "init": "", "over": "", "step": ""},
              "init_solve": ["<missing>"], "root_results": ["<missing>"],
              "reuse": dict(MISSING_REUSE),
              "solve": {"before": [], "loop": ["<missing>"], "returned": {"var": "", "cls": "", "source": "", "hide": ""},
                        "post": [], "ret": ""}}
    ev = guarded("HookHost.evaluate_and_set_hooks", lambda: evaluate_and_set(repo), ["<missing>"])
    out.append("/-- `Unit.Profile.__init__`: (source dict, prefix of the names that are NOT copied, remaining statements) -/")
    pi = sk["profile_init"]
    out.append(f"def profileInit : String × String × List String := ({lean_str(pi['source'])}, {lean_str(pi['hide'])}, "
               f"{_lean_list(pi['steps'])})")
    out.append("/-- `Unit.OutProfile.root_hook_fallback`: (condition, source if it holds, source otherwise) of `getattr(src, hook.name, None)` -/")
    fb = sk["fallback"]
    out.append(f"def fallback : String × String × String := ({lean_str(fb['cond'])}, {lean_str(fb['then'])}, {lean_str(fb['else'])})")
    out.append("/-- `Unit._solve_subunits`: (guard, initialisation, iterated collection, loop statement) -/")
    ss = sk["solve_subunits"]
    out.append(f"def solveSubunits : String × String × String × String := ({lean_str(ss['cond'])}, {lean_str(ss['init'])}, "
               f"{lean_str(ss['over'])}, {lean_str(ss['step'])})")
    out.append("/-- `Unit.init_solve`: pre-processor chaining, creation of the in profile, creation of the out profile -/")
    out.append(f"def initSolve : List String := {_lean_list(sk['init_solve'])}")
    for g in sk.get("gaps", []):
        tie_breaks.append("translator: unit.py init_solve: " + g)
    ru = sk["reuse"]
    out.append("/-- `Unit.init_solve`: is there an `else:` branch of the out profile guard (the previous solve's out profile is "
               "re-used and gets the current incoming state handed over)? -/")
    out.append(f"def reuseHandsOver : Bool := {'false' if ru is None else 'true'}")
    if ru is None:
        ru = {"roots": ("", "", ""), "handed": ("", ""), "delete": ("", "", []), "set": ("", "", [])}

    def lits(ls):
        return "[" + ", ".join(f"({lean_str(a)}, {'true' if p else 'false'})" for (a, p) in ls) + "]"
    out.append("/-- … the names that count as root hooks there: (element, iterated collection, condition) of the set comprehension -/")
    out.append("def reuseRoots : String × String × String := (" + ", ".join(lean_str(x) for x in ru["roots"]) + ")")
    out.append("/-- … what is handed over: (source dict, prefix of the names that are not) -/")
    out.append("def reuseHanded : String × String := (" + ", ".join(lean_str(x) for x in ru["handed"]) + ")")
    out.append("/-- … which entries of (iterated dict) are deleted by (action): CONJUNCTION of literals (atom, polarity); atoms: "
               "hidden = name starts with the prefix, root = name in the root hook names, handed = name among the handed-over "
               "entries, present = name in the out profile's `__dict__` -/")
    out.append(f"def reuseDelete : String × String × List (String × Bool) := ({lean_str(ru['delete'][0])}, "
               f"{lean_str(ru['delete'][1])}, {lits(ru['delete'][2])})")
    out.append("/-- … which of (iterated entries) are set by (action): DISJUNCTION of literals -/")
    out.append(f"def reuseSet : String × String × List (String × Bool) := ({lean_str(ru['set'][0])}, "
               f"{lean_str(ru['set'][1])}, {lits(ru['set'][2])})")
    out.append("/-- `Unit.get_root_hook_results`: order in which the root hooks of in profile, out profile and unit are evaluated -/")
    out.append(f"def rootResults : List String := {_lean_list(sk['root_results'])}")
    sv = sk["solve"]
    out.append("/-- `Unit.solve`: statements before the loop, loop body up to the convergence test -/")
    out.append(f"def solveBefore : List String := {_lean_list(sv['before'])}")
    out.append(f"def solveLoop : List String := {_lean_list(sv['loop'])}")
    r = sv["returned"]
    out.append("/-- `Unit.solve`: the returned profile (variable, class, source dict, hidden prefix), post-processor chaining, return -/")
    out.append(f"def solveReturned : String × String × String × String := ({lean_str(r['var'])}, {lean_str(r['cls'])}, "
               f"{lean_str(r['source'])}, {lean_str(r['hide'])})")
    out.append(f"def solvePost : List String := {_lean_list(sv['post'] + [sv['ret']])}")
    out.append("/-- `HookHost.evaluate_and_set_hooks`: per root hook -/")
    out.append(f"def evaluateAndSet : List String := {_lean_list(ev)}")
    out.append("")
    dc = guarded("DiskElementUnit.init_solve", lambda: disk_creation(repo), None)
    if dc is None:
        dc = (("var", "<missing>"), "<missing>", "", "")
    out.append("/-- `DiskElementUnit.init_solve`: number of disk elements created (`range(n)`), first statement, guard, owner -/")
    out.append(f"def disk_count_e : Expr := {lean_expr(dc[0])}")
    out.append(f"def diskCreation : String × String × String := ({lean_str(dc[1])}, {lean_str(dc[2])}, {lean_str(dc[3])})")
    dx = guarded("DiskElement.InProfile.x", lambda: disk_in_x(repo), ("<missing>", "", "", ""))
    out.append("/-- `DiskElementUnit.DiskElement.InProfile.x`: (host.hook, source, exception that selects the alternative, alternative) -/")
    out.append(f"def diskInX : String × String × String × String := ({lean_str(dx[0])}, {lean_str(dx[1])}, {lean_str(dx[2])}, "
               f"{lean_str(dx[3])})")
    out.append("")
    return "\n".join(out), {"root_hooks": rh, "skeleton": sk, "evaluate_and_set": ev, "disk_count": dc[0], "disk_in_x": dx}
