"""(T) for C02, second module: the parts of `pyroll/core/hooks.py` that the life-cycle model mirrors beyond what
`hooks_skeleton.SELECTION["C02"]` lists (that file is shared with C01 / C07 and is not edited; its extractor - `extract`,
`Canon`, the strict recognisers of `facts` - is re-used here).

Re-read on every run of `./check C02`, written to `lean/PyrollModel/Gen/C02Extra.lean` (namespace `Gen.C02.Extra`):

  * the registration machinery the model of failed evaluations / executing marks / multiple registrations CONSUMES:
      `callDiscardInFinally`, `callDiscardGuard`, `callCycleBeforeMark`, `callMarkBeforeTry`, `callKey`
                      (HookFunction.__call__: the mark is set before the try, removed in the `finally`, unless the call
                      was a cycled one),
      `extraArgCycle` (HookFunction._determine_extra_args: `cycle` is handed over iff the function has such a parameter),
      `functionTiers` (Hook.functions_gen: the non-wrapper stores in the order they are yielded),
      `yieldOver`, `yieldReversed` (Hook._yield_functions_from: MRO walk, latest registration first),
      `addStoreFor`   (Hook.add_function: decision list flag -> store for non-wrappers), `addCreatesRegistration`,
                      `addUnwraps` (a HookFunction handed in is unwrapped, a NEW registration object is created),
      `removeStores`, `removeIgnoresAbsent`, `removeMatches` (Hook.remove_function: `store.remove(func)` = the
                      registration object itself, first occurrence, absent -> passed over),
      `exitRemoves`   (HookFunction.__exit__: `self.hook.remove_function(self)`), `enterDoes`;
  * the descriptor writes: `setWrites`, `deleteFrom`, `deleteTolerant` (Hook.__set__ / __delete__);
  * the root-hook list API: `rootAddMode`, `insertBeforeShift`, `insertAfterShift`, `removeLastWhich`
    (_RootHooksList.add / insert_before / insert_after / remove_last);
  * the evaluation loop of `evaluate_and_set_hooks` (incl. its inner generator): `rootLoopOver`, `rootGuard`, `rootHookOf`,
    `rootCompute`, `rootFallbackWhen`, `rootNoneRaises`, `rootStore`, `rootReturns`;
  * the copy protocol: `copyMode` (HookHost.__copy__), `initCache` (HookHost.__init__) and the canonical role lines of
    `HookHost.__copy__` and `HookHost.__hooks__` (own parameter lists: they are not in `hooks_skeleton.FUNCS`).

A shape outside the recognisers gives the fact a value no certificate accepts (`<missing>` / 99) and a `ctx.tie_breaks`
entry.  `self_check` executes every fact against the imported `pyroll.core.hooks` (scratch classes, a scratch list).
"""
import copy as _copy
import os
import re

from . import hooks_skeleton as hs
from .pyexpr import lean_str, write_if_changed

OWN_FUNCS = {
    "HookHost.__copy__": ["self"],
    "HookHost.__hooks__": ["cls"],
}

ROLE_TABLES = ["HookFunction.__call__", "HookFunction._determine_extra_args", "HookFunction.__enter__",
               "HookFunction.__exit__", "Hook.add_function", "Hook.__call__", "Hook.remove_function",
               "HookHost.__copy__", "HookHost.__hooks__"]

SKELETON_FACTS = ["callKey", "callCycleBeforeMark", "callMarkBeforeTry", "callDiscardClause", "callDiscardGuard",
                  "callDiscardInFinally", "yieldOver", "yieldReversed", "removeStores", "removeIgnoresAbsent"]

DOC = {
    "extraArgCycle": ("HookFunction._determine_extra_args", "`cycle` is handed to the function iff its signature has a parameter of that name"),
    "functionTiers": ("Hook.functions_gen", "the non-wrapper stores in the order they are yielded"),
    "addStoreFor": ("Hook.add_function", "non-wrappers: (flag tested in if / elif / else order, store appended to)"),
    "addCreatesRegistration": ("Hook.add_function", "every call creates a new `HookFunction(func, self, ...)` and returns it"),
    "addUnwraps": ("Hook.add_function", "a HookFunction handed in is replaced by its underlying function first"),
    "removeMatches": ("Hook.remove_function", "what `store.remove` is given (list.remove: first entry equal to it)"),
    "exitRemoves": ("HookFunction.__exit__", "what leaving a `with` block does"),
    "enterDoes": ("HookFunction.__enter__", "what entering a `with` block does"),
    "setWrites": ("Hook.__set__", "the dictionary the assigned value is written to (key `self.name`)"),
    "deleteFrom": ("Hook.__delete__", "the dictionary the value is removed from"),
    "deleteTolerant": ("Hook.__delete__", "an absent value is passed over (`pop(name, None)`)"),
    "rootAddMode": ("_RootHooksList.add", "where `add` puts the item"),
    "insertBeforeShift": ("_RootHooksList.insert_before", "offset from the index of the FIRST occurrence of `position` at which the item is inserted"),
    "insertAfterShift": ("_RootHooksList.insert_after", "offset from the index of the FIRST occurrence of `position` at which the item is inserted"),
    "removeLastWhich": ("_RootHooksList.remove_last", "which occurrence of the item is deleted"),
    "rootLoopOver": ("HookHost.evaluate_and_set_hooks._gen", "what the inner generator iterates over, in its order"),
    "rootGuard": ("HookHost.evaluate_and_set_hooks._gen", "which entries are evaluated"),
    "rootHookOf": ("HookHost.evaluate_and_set_hooks._gen", "the class whose hook of that name is evaluated"),
    "rootCompute": ("HookHost.evaluate_and_set_hooks._gen", "how the value is computed (no look at `__dict__` / `__cache__`)"),
    "rootFallbackWhen": ("HookHost.evaluate_and_set_hooks._gen", "when `root_hook_fallback` is asked"),
    "rootNoneRaises": ("HookHost.evaluate_and_set_hooks._gen", "what a still missing value raises"),
    "rootStore": ("HookHost.evaluate_and_set_hooks._gen", "how the value is stored (setattr on the instance = `Hook.__set__`)"),
    "rootReturns": ("HookHost.evaluate_and_set_hooks", "what is returned"),
    "copyMode": ("HookHost.__copy__", "how a shallow copy is made"),
    "initCache": ("HookHost.__init__", "how the remembered-value store is created"),
}


def _own_canonical(tree, qual):
    fn = _copy.deepcopy(hs.find(tree, qual))
    hs._inline_temps(fn)
    c = hs.Canon(qual, fn, OWN_FUNCS[qual])
    return c.lines, fn.lineno


def own_facts(tables):
    f, problems = {}, []

    def attempt(name, fn, default):
        try:
            f[name] = fn()
        except hs.Gap as ex:
            problems.append(f"{name}: {ex}")
            f[name] = default
        except (KeyError, IndexError, AttributeError, ValueError, TypeError) as ex:
            problems.append(f"{name}: canonical form not recognised ({type(ex).__name__}: {ex})")
            f[name] = default

    def extra_arg():
        ls = tables["HookFunction._determine_extra_args"]
        if len(ls) == 5 and ls[0] == "def(self, cycle)" and re.fullmatch(r"(v\d+) := \{\}", ls[1]):
            v = ls[1].split(" ")[0]
            if ls[2] == "if 'cycle' in inspect.signature(self.function).parameters:" and \
                    ls[3].strip() == f"{v}['cycle'] := cycle" and ls[4] == f"return {v}":
                return True
        raise hs.Gap("HookFunction._determine_extra_args: `" + " ; ".join(hs._strip(ls)) + "`")
    attempt("extraArgCycle", extra_arg, False)

    def tiers():
        return [s for s in tables["#functionsGenOrder"] if not s.endswith("wrappers")]
    attempt("functionTiers", tiers, ["<missing>"])

    def add_store_for():
        return [(c, s) for (w, c, s) in tables["#addStores"] if not w]
    attempt("addStoreFor", add_store_for, [("<missing>", "<missing>")])

    def add_creates():
        ls = tables["Hook.add_function"]
        made = [ln for ln in ls if re.fullmatch(r"(v\d+) := HookFunction\(func, self, .*\)", ln)]
        if len(made) != 1 or hs._depth(made[0]) != 0:
            raise hs.Gap("Hook.add_function: not exactly one unconditional `HookFunction(func, self, ...)`")
        if ls[-1] != f"return {made[0].split(' ')[0]}":
            raise hs.Gap("Hook.add_function: does not return the created HookFunction")
        return True
    attempt("addCreatesRegistration", add_creates, False)

    def add_unwraps():
        ls = tables["Hook.add_function"]
        return ls[1:3] == ["if isinstance(func, HookFunction):", "  func := func.function"]
    attempt("addUnwraps", add_unwraps, False)

    def remove_matches():
        ls = hs._strip(tables["Hook.remove_function"])
        calls = [ln for ln in ls if ".remove(" in ln]
        if len(calls) != 1:
            raise hs.Gap("Hook.remove_function: not exactly one `.remove(`")
        m = re.fullmatch(r"v\d+\.remove\((\w+)\)", calls[0])
        if not m:
            raise hs.Gap(f"Hook.remove_function: `{calls[0]}`")
        return m.group(1)
    attempt("removeMatches", remove_matches, "<missing>")

    def exit_removes():
        ls = tables["HookFunction.__exit__"]
        if len(ls) != 2:
            raise hs.Gap("HookFunction.__exit__: more than one statement")
        return ls[1]
    attempt("exitRemoves", exit_removes, "<missing>")

    def enter_does():
        ls = tables["HookFunction.__enter__"]
        if len(ls) != 2:
            raise hs.Gap("HookFunction.__enter__: more than one statement")
        return ls[1]
    attempt("enterDoes", enter_does, "<missing>")

    def set_writes():
        ls = tables["Hook.__set__"]
        m = re.fullmatch(r"instance\.(__\w+__)\[self\.name\] := value", ls[1]) if len(ls) == 2 else None
        if not m or ls[0] != "def(self, instance, value)":
            raise hs.Gap("Hook.__set__: `" + " ; ".join(hs._strip(ls)) + "`")
        return m.group(1)
    attempt("setWrites", set_writes, "<missing>")

    def delete_from():
        ls = tables["Hook.__delete__"]
        if len(ls) != 2 or ls[0] != "def(self, instance)":
            raise hs.Gap("Hook.__delete__: `" + " ; ".join(hs._strip(ls)) + "`")
        m = re.fullmatch(r"instance\.(__\w+__)\.pop\(self\.name, None\)", ls[1])
        if m:
            return m.group(1), True
        m = re.fullmatch(r"del instance\.(__\w+__)\[self\.name\]", ls[1]) or \
            re.fullmatch(r"instance\.(__\w+__)\.pop\(self\.name\)", ls[1])
        if m:
            return m.group(1), False
        raise hs.Gap(f"Hook.__delete__: `{ls[1]}`")
    attempt("_delete", delete_from, ("<missing>", False))
    f["deleteFrom"], f["deleteTolerant"] = f.pop("_delete")

    # _RootHooksList
    def root_add():
        ls = tables["_RootHooksList.add"]
        if ls == ["def(self, item)", "self.append(item)"]:
            return "append"
        if ls == ["def(self, item)", "if item not in self:", "  self.append(item)"]:
            return "append unless present"
        raise hs.Gap("_RootHooksList.add: `" + " ; ".join(hs._strip(ls)) + "`")
    attempt("rootAddMode", root_add, "<missing>")

    def insert_shift(qual):
        def go():
            ls = tables[qual]
            if len(ls) != 2 or ls[0] != "def(self, position, item)":
                raise hs.Gap(f"{qual}: `" + " ; ".join(hs._strip(ls)) + "`")
            if ls[1] == "self.insert(self.index(position), item)":
                return 0
            m = re.fullmatch(r"self\.insert\(\(self\.index\(position\) \+ (\d+)\), item\)", ls[1])
            if m:
                return int(m.group(1))
            raise hs.Gap(f"{qual}: `{ls[1]}`")
        return go
    attempt("insertBeforeShift", insert_shift("_RootHooksList.insert_before"), 99)
    attempt("insertAfterShift", insert_shift("_RootHooksList.insert_after"), 99)

    def remove_last():
        ls = tables["_RootHooksList.remove_last"]
        if ls == ["def(self, item)", "del self[(-1 - list(reversed(self)).index(item))]"]:
            return "last"
        if ls == ["def(self, item)", "self.remove(item)"] or ls == ["def(self, item)", "del self[self.index(item)]"]:
            return "first"
        raise hs.Gap("_RootHooksList.remove_last: `" + " ; ".join(hs._strip(ls)) + "`")
    attempt("removeLastWhich", remove_last, "<missing>")

    # evaluate_and_set_hooks with its inner generator
    def root_loop():
        ls = tables["HookHost.evaluate_and_set_hooks"]
        flat = hs._strip(ls)
        m0 = re.fullmatch(r"def (v\d+)\(\):", flat[1]) if len(flat) > 2 else None
        if flat[0] != "def(self)" or not m0:
            raise hs.Gap("HookHost.evaluate_and_set_hooks: no inner generator at the top")
        g = m0.group(1)
        m1 = re.fullmatch(r"for (v\d+) in (\w+):", flat[2])
        if not m1:
            raise hs.Gap(f"HookHost.evaluate_and_set_hooks: `{flat[2]}`")
        h, over = m1.groups()
        m2 = re.fullmatch(rf"if issubclass\(type\(self\), {h}\.owner\):", flat[3])
        guard = "issubclass(type(self), entry.owner)" if m2 else "other: " + flat[3]
        m3 = re.fullmatch(rf"{h} := getattr\((type\(self\)|self\.__class__), {h}\.name\)", flat[4])
        hook_of = "type(self)" if m3 else "other: " + flat[4]
        m4 = re.fullmatch(rf"(v\d+) := {h}\.(\w+)\(self\)", flat[5])
        if not m4:
            raise hs.Gap(f"HookHost.evaluate_and_set_hooks: `{flat[5]}`")
        r, compute = m4.groups()
        if flat[6] == f"if {r} is None:" and flat[7] == f"{r} := self.root_hook_fallback({h})":
            fb = "is None"
        else:
            raise hs.Gap(f"HookHost.evaluate_and_set_hooks: fall-back `{flat[6]} ; {flat[7]}`")
        m5 = re.fullmatch(r"raise (\w+)", flat[9])
        if flat[8] != f"if {r} is None:" or not m5:
            raise hs.Gap(f"HookHost.evaluate_and_set_hooks: `{flat[8]} ; {flat[9]}`")
        if flat[10] == f"setattr(self, {h}.name, {r})":
            store = "setattr(self)"
        else:
            raise hs.Gap(f"HookHost.evaluate_and_set_hooks: store `{flat[10]}`")
        if hs._depth(ls[10]) != 3 or hs._depth(ls[5]) != 3:
            raise hs.Gap("HookHost.evaluate_and_set_hooks: compute / store are not unconditional inside the guard")
        ret = {f"return list({g}())": "list of the yielded numbers"}.get(flat[-1], "other: " + flat[-1])
        return over, guard, hook_of, compute, fb, m5.group(1), store, ret
    attempt("_root", root_loop, ("<missing>",) * 8)
    (f["rootLoopOver"], f["rootGuard"], f["rootHookOf"], f["rootCompute"], f["rootFallbackWhen"], f["rootNoneRaises"],
     f["rootStore"], f["rootReturns"]) = f.pop("_root")

    def copy_mode():
        ls = tables["HookHost.__copy__"]
        if ls[0] == "def(self)" and len(ls) == 4 and re.fullmatch(r"(v\d+) := self\.__class__\.__new__\(self\.__class__\)", ls[1]):
            ls = [ls[0], "c := self.__class__", ls[1].replace("self.__class__", "c")] + ls[2:]
        if ls[0] == "def(self)" and len(ls) == 5 and re.fullmatch(r"\w+ := (self\.__class__|type\(self\))", ls[1]):
            c = ls[1].split(" ")[0]
            if re.fullmatch(rf"(v\d+) := {c}\.__new__\({c}\)", ls[2]):
                v = ls[2].split(" ")[0]
                if ls[3] == f"{v}.__dict__.update(self.__dict__)" and ls[4] == f"return {v}":
                    return "new(cls); __dict__.update(self.__dict__)"
        raise hs.Gap("HookHost.__copy__: `" + " ; ".join(hs._strip(ls)) + "`")
    attempt("copyMode", copy_mode, "<missing>")

    def init_cache():
        ls = tables["HookHost.__init__"]
        if ls in (["def(self)", "self.__cache__ := dict()"], ["def(self)", "self.__cache__ := {}"]):
            return "self.__cache__ := dict()"
        raise hs.Gap("HookHost.__init__: `" + " ; ".join(hs._strip(ls)) + "`")
    attempt("initCache", init_cache, "<missing>")
    return f, problems


def extract(repo):
    info, gaps = hs.extract(repo)
    tables = dict(info["tables"])
    linenos = dict(info["lines"])
    tree = None
    try:
        tree = hs.parse(repo)
    except (OSError, SyntaxError) as ex:
        gaps.append(f"hooks.py unreadable: {ex}")
    for q in OWN_FUNCS:
        try:
            if tree is None:
                raise hs.Gap(f"{q}: no syntax tree")
            tables[q], linenos[q] = _own_canonical(tree, q)
        except hs.Gap as ex:
            gaps.append(str(ex))
            tables[q], linenos[q] = ["<missing>"], 0
    # the inner generator of evaluate_and_set_hooks (its statements are part of the role lines of the outer function)
    linenos["HookHost.evaluate_and_set_hooks._gen"] = linenos.get("HookHost.evaluate_and_set_hooks", 0)
    try:
        import ast
        outer = hs.find(tree, "HookHost.evaluate_and_set_hooks") if tree is not None else None
        inner = [n for n in (outer.body if outer is not None else []) if isinstance(n, ast.FunctionDef)]
        if len(inner) == 1:
            linenos["HookHost.evaluate_and_set_hooks._gen"] = inner[0].lineno
    except hs.Gap:
        pass
    tables["#functionsGenOrder"] = info["facts"]["functionsGenOrder"]
    tables["#addStores"] = info["facts"]["addStores"]
    f, problems = own_facts(tables)
    for n in SKELETON_FACTS:
        f[n] = info["facts"][n]
    return {"tables": tables, "lines": linenos, "facts": f}, gaps + problems


USED = ["HookFunction.__call__", "HookFunction._determine_extra_args", "HookFunction.__enter__", "HookFunction.__exit__",
        "Hook._yield_functions_from", "Hook.functions_gen", "Hook.add_function", "Hook.__call__", "Hook.remove_function",
        "Hook.__set__", "Hook.__delete__", "HookHost.__init__", "HookHost.evaluate_and_set_hooks", "HookHost.__copy__",
        "HookHost.__hooks__", "_RootHooksList.add", "_RootHooksList.insert_before", "_RootHooksList.insert_after",
        "_RootHooksList.remove_last"]


def emit(ctx, repo=None, lean_dir=None):
    from .. import core
    repo = repo or core.REPO
    lean_dir = lean_dir or core.LEAN_DIR
    try:
        info, gaps = extract(repo)
    except (OSError, SyntaxError) as ex:
        ctx.tie_breaks.append(f"translator: {hs.HOOKS} unreadable: {type(ex).__name__}: {ex}")
        tabs = {q: ["<missing>"] for q in list(hs.FUNCS) + list(OWN_FUNCS)}
        tabs["#functionsGenOrder"], tabs["#addStores"] = ["<missing>"], [(False, "<missing>", "<missing>")]
        f, _ = own_facts(tabs)
        sk, _ = hs.facts({q: ["<missing>"] for q in hs.FUNCS})
        for n in SKELETON_FACTS:
            f[n] = sk[n]
        info, gaps = {"tables": tabs, "lines": {q: 0 for q in tabs}, "facts": f}, []
    seen = set()
    for g in gaps:
        if g in seen:
            continue
        seen.add(g)
        # gaps of functions that only C01 / C07 read are theirs; gaps already reported by hooks_skeleton.emit_for(C02) are
        # reported once (the driver de-duplicates by text)
        if any((q + ":") in g[:120] for q in USED) or any(g.startswith(n + ":") for n in list(DOC) + SKELETON_FACTS):
            msg = "translator (hooks.py, C02Extra): " + g
            if msg not in ctx.tie_breaks:
                ctx.tie_breaks.append(msg)
    out = ["/- GENERATED by driver/translate/c02_extra.py from pyroll/core/hooks.py of the working tree on every run of "
           "./check C02 - do not edit. -/", "namespace Gen.C02.Extra", ""]
    out.append("/-! ### role lines (canonical form, see driver/translate/hooks_skeleton.py) -/")
    out.append("")
    for q in ROLE_TABLES:
        out.append(f"/-- pyroll/core/hooks.py:{info['lines'].get(q, 0)} `{q}` -/")
        out.append(f"def {hs.lean_name(q)} : List String :=\n  {hs._strs(info['tables'][q])}")
        out.append("")
    out.append("/-! ### facts read off the role lines (consumed by the model) -/")
    out.append("")
    for n in SKELETON_FACTS:
        q, doc = hs.FACT_DOC[n]
        out.append(f"/-- pyroll/core/hooks.py:{info['lines'].get(q, 0)} `{q}`: {doc} -/")
        out.append(hs._fact_def(n, info["facts"][n]))
        out.append("")
    for n, (q, doc) in DOC.items():
        out.append(f"/-- pyroll/core/hooks.py:{info['lines'].get(q, 0)} `{q}`: {doc} -/")
        out.append(hs._fact_def(n, info["facts"][n]))
        out.append("")
    out.append("end Gen.C02.Extra")
    text = "\n".join(out) + "\n"
    changed = write_if_changed(os.path.join(lean_dir, "PyrollModel", "Gen", "C02Extra.lean"), text)
    ctx.notes.setdefault("generated", {})["Gen/C02Extra.lean"] = {
        "functions": len(ROLE_TABLES), "facts": len(SKELETON_FACTS) + len(DOC), "rewritten": changed}
    try:
        bad = self_check(info["facts"])
    except Exception as ex:
        bad = [f"probe raised {type(ex).__name__}: {ex}"]
    for b in bad:
        ctx.tie_breaks.append("translator self-check (C02Extra facts vs. the imported pyroll.core.hooks): " + b)
    ctx.notes["generated"]["Gen/C02Extra.lean"]["self_check_mismatches"] = len(bad)
    return info


def emit_units(ctx, repo=None, lean_dir=None):
    """third generated module `lean/PyrollModel/Gen/C02Units.lean`: which `get_root_hook_results` override evaluates which
    objects' root hooks, for every unit class of pyroll/core (class hierarchy, MROs, overrides, constructed objects, the
    root_hooks list, the loop of Unit.solve) - extractor and self-check: driver/translate/c02_units.py"""
    from . import c02_units
    return c02_units.emit(ctx, repo, lean_dir)


# ---- the facts are executed against the code they were read from -------------------------------------------------------

def self_check(f):
    import copy
    from pyroll.core.hooks import Hook, HookFunction, HookHost, root_hooks
    bad = []

    def fresh(n=1):
        cls = type("HK", (HookHost,), {f"h{k}": Hook[float]() for k in range(n)})
        return cls

    # executing mark after a function that raised / returned
    cls = fresh()

    def boom(self, cycle):
        raise AttributeError("x")
    hf = cls.h0.add_function(boom)
    o = cls()
    try:
        hf(o)
    except AttributeError:
        pass
    left = len(hf._active_instances) > 0
    if left == bool(f["callDiscardInFinally"]) and f["callDiscardGuard"] == "unless cycle":
        bad.append(f"callDiscardInFinally read {f['callDiscardInFinally']}, a raising function "
                   f"{'leaves' if left else 'does not leave'} its executing mark")
    seen = []

    def probe(self, cycle):
        seen.append(cycle)
        return 1.0
    hf2 = cls.h0.add_function(probe)
    hf2(o)

    def plain(self):
        return 1.0
    hf3 = HookFunction(plain, cls.h0)
    if (seen == [False]) != bool(f["extraArgCycle"]) or hf3._determine_extra_args(True) != {}:
        bad.append(f"extraArgCycle read {f['extraArgCycle']}, a function with a `cycle` parameter received {seen}")
    # one function registered twice, one registration removed
    cls = fresh()
    a = cls.h0.add_function(plain)
    b = cls.h0.add_function(a, trylast=True)
    if (b is not a and b.function is a.function) != (bool(f["addCreatesRegistration"]) and bool(f["addUnwraps"])):
        bad.append("addCreatesRegistration / addUnwraps: add_function(<HookFunction>) does not create a second "
                   "registration of the same function")
    cls.h0.remove_function(b)
    still = [x for x in cls.h0.functions if x is a]
    gone = [x for x in cls.h0.functions if x is b]
    if f["removeMatches"] == "func" and (len(still) != 1 or gone):
        bad.append("removeMatches read `func` (the registration object), but removing one of two registrations of a "
                   f"function left {len(still)} of the other and {len(gone)} of itself")
    try:
        cls.h0.remove_function(b)
        tolerant = True
    except ValueError:
        tolerant = False
    if tolerant != bool(f["removeIgnoresAbsent"]):
        bad.append(f"removeIgnoresAbsent read {f['removeIgnoresAbsent']}, removing an absent registration "
                   f"{'passes' if tolerant else 'raises'}")
    # with block
    cls = fresh()
    cm = cls.h0(plain, tryfirst=True)
    inside = None
    with cm:
        inside = [x for x in cls.h0.functions]
    after = [x for x in cls.h0.functions]
    if f["exitRemoves"] == "self.hook.remove_function(self)" and f["enterDoes"] == "pass" and \
            (inside != [cm] or after != []):
        bad.append("exitRemoves / enterDoes: a `with hook(f):` block does not register for exactly its extent")
    # tiers of non-wrappers
    cls = fresh()
    names = {}
    for cond, store in f["addStoreFor"]:
        hfx = cls.h0.add_function(plain, tryfirst=cond == "tryfirst", trylast=cond == "trylast")
        names[id(hfx)] = store
        if not any(x is hfx for x in getattr(cls.h0, store, [])):
            bad.append(f"addStoreFor read {store} for flag `{cond}`, add_function did not append there")
    got = [names.get(id(x)) for x in cls.h0.functions]
    if got != f["functionTiers"]:
        bad.append(f"functionTiers read {f['functionTiers']}, Hook.functions yields the stores as {got}")
    # descriptor writes
    cls = fresh()
    o = cls()
    o.h0 = 3.0
    if ("h0" in getattr(o, f["setWrites"], {})) is not True or o.__cache__:
        bad.append(f"setWrites read {f['setWrites']}, an assignment did not land there (only)")
    del o.h0
    try:
        del o.h0
        tol = True
    except (AttributeError, KeyError):
        tol = False
    if "h0" in o.__dict__ or tol != bool(f["deleteTolerant"]):
        bad.append(f"deleteFrom / deleteTolerant read {f['deleteFrom']} / {f['deleteTolerant']}, observed otherwise")
    # root list
    L = type(root_hooks)
    x = L(["a", "b", "a", "c"])
    x.insert_before("a", "X")
    y = L(["a", "b", "a", "c"])
    y.insert_after("a", "X")
    z = L(["a", "b", "a", "c"])
    z.remove_last("a")
    w = L(["a"])
    w.add("a")
    exp_x = ["a", "b", "a", "c"]
    exp_x.insert(0 + f["insertBeforeShift"], "X")
    exp_y = ["a", "b", "a", "c"]
    exp_y.insert(0 + f["insertAfterShift"], "X")
    exp_z = {"last": ["a", "b", "c"], "first": ["b", "a", "c"]}.get(f["removeLastWhich"])
    exp_w = {"append": ["a", "a"], "append unless present": ["a"]}.get(f["rootAddMode"])
    if list(x) != exp_x or list(y) != exp_y or list(z) != exp_z or list(w) != exp_w:
        bad.append(f"root list facts {f['insertBeforeShift']}/{f['insertAfterShift']}/{f['removeLastWhich']}/"
                   f"{f['rootAddMode']}: observed {list(x)} {list(y)} {list(z)} {list(w)}")
    # shallow copy
    cls = fresh()
    o = cls()
    o.h0 = 1.0
    c = copy.copy(o)
    if f["copyMode"] == "new(cls); __dict__.update(self.__dict__)":
        if c.__dict__ is o.__dict__ or c.__dict__.get("h0") != 1.0 or c.__cache__ is not o.__cache__:
            bad.append("copyMode: a shallow copy is not `new object, own __dict__ holding the entries of the original "
                       "(incl. the entry `__cache__`, i.e. the SAME remembered-value dictionary)`")
    return bad
