"""C17 (T): the GEOMETRIC source items, which are not hook implementations of the `Expr` kind.

* `Profile.local_height` / `Profile.local_width` (pyroll/core/profile/profile.py) -> `C17Geom.ChordMethod`: the geometry term
  whose `.length` is returned (LineString / buffer / intersection over the cross-section), the hooks of `self` that are
  read, the NON-hook attributes / module-level names that are read (`hiddenReads`: state outside the hook system, e.g. a
  memo of an earlier call, an `lru_cache` decorator) and everything that is written (`writes`).
* `shapes.rectangle` -> corner list as formulas in width / height; the `width` / `height` properties given to shapely
  geometries -> `Expr` over `bounds[i]`; `Profile.equivalent_rectangle` -> the arguments it passes to `rectangle`.

Everything is emitted to lean/PyrollModel/Gen/C17Geo.lean (theorems: lean/PyrollProps/C17Geo.lean).  Whitelist of AST node
types; anything else becomes an `.opaque` term / a `hiddenReads` entry and a line in `ctx.tie_breaks`.

`geo_correspondence` (K) runs every generated item against the code it came from: the geometry term is interpreted with
shapely by an independent evaluator and compared with the real method on real profiles; the numeric sub-terms, the
rectangle corners, their bounds / extents / shoelace area are evaluated over Float by the Lean driver and compared with the
real `rectangle(...)` polygon.
"""
import ast
import math
import os

from . import pyexpr
from .pyexpr import Untranslatable, ExprTranslator, lean_expr, lean_str
from ..core import LEAN_DIR, REPO

PROFILE_PY = "profile/profile.py"
HOOKIMPLS_PY = "profile/hookimpls.py"
SHAPES_PY = "shapes.py"
GEOMETRY_TYPES = ("Polygon", "LineString", "MultiLineString", "MultiPolygon")
ALLOWED_GLOBALS = {"np", "LineString", "float", "int", "abs"}   # imported functions / builtins the chord methods may use


def _src(rel):
    path = os.path.join(REPO, "pyroll", "core", rel)
    return ast.parse(open(path).read(), filename=path)


# ---- chord methods ---------------------------------------------------------------------------------------------------

def _class_hooks(tree, cls):
    """({hook name}, {geometry-valued hook name}) declared in the class body as `name = Hook[T]()`"""
    hooks, geo = set(), set()
    for node in tree.body:
        if isinstance(node, ast.ClassDef) and node.name == cls:
            for st in node.body:
                if (isinstance(st, ast.Assign) and len(st.targets) == 1 and isinstance(st.targets[0], ast.Name)
                        and isinstance(st.value, ast.Call) and isinstance(st.value.func, ast.Subscript)
                        and isinstance(st.value.func.value, ast.Name) and st.value.func.value.id == "Hook"):
                    hooks.add(st.targets[0].id)
                    if any(t in ast.unparse(st.value.func.slice) for t in GEOMETRY_TYPES):
                        geo.add(st.targets[0].id)
            return node, hooks, geo
    return None, hooks, geo


class _Chord:
    def __init__(self, fn, hooks, geo_hooks):
        self.fn, self.hooks, self.geo_hooks = fn, hooks, geo_hooks
        args = [a.arg for a in fn.args.args]
        self.self_name, self.param = args[0], (args[1] if len(args) == 2 else None)
        self.locals = {}            # name -> ("num", e) | ("mat", rows) | ("geo", g)
        self.gap = None

    # -- what the method touches (whole body, whatever its shape) --
    def touches(self):
        reads, hidden, writes = set(), set(), set()
        assigned = {self.self_name, self.param}
        nodes = [n for st in self.fn.body for n in ast.walk(st)]        # (not the annotations of the signature)
        for n in nodes:
            if isinstance(n, ast.Name) and isinstance(n.ctx, ast.Store):
                assigned.add(n.id)
        for d in self.fn.decorator_list:
            hidden.add("decorator:" + ast.unparse(d))
        for n in nodes:
            if isinstance(n, ast.Attribute) and isinstance(n.value, ast.Name) and n.value.id == self.self_name:
                if isinstance(n.ctx, ast.Load):
                    (reads if n.attr in self.hooks else hidden).add(n.attr)
                else:
                    writes.add(n.attr)
            elif isinstance(n, ast.Name) and isinstance(n.ctx, ast.Load):
                if n.id not in assigned and n.id not in ALLOWED_GLOBALS:
                    hidden.add("global:" + n.id)
            elif isinstance(n, (ast.Global, ast.Nonlocal)):
                writes.update("global:" + x for x in n.names)
            elif isinstance(n, ast.Call) and isinstance(n.func, ast.Name) and n.func.id in ("setattr", "delattr"):
                writes.add(ast.unparse(n)[:60])
            elif isinstance(n, (ast.Subscript, ast.Attribute)) and isinstance(n.ctx, (ast.Store, ast.Del)) \
                    and not (isinstance(n, ast.Attribute) and isinstance(n.value, ast.Name)
                             and n.value.id == self.self_name):
                writes.add(ast.unparse(n)[:60])
        return sorted(reads), sorted(hidden), sorted(writes)

    # -- values --
    def num(self, node):
        nums = {k: v[1] for k, v in self.locals.items() if v[0] == "num"}
        return ExprTranslator(self.self_name, nums, free_names={self.param}).tr(node)

    def val(self, node):
        if isinstance(node, ast.Name) and node.id in self.locals:
            return self.locals[node.id]
        if isinstance(node, ast.Call):
            f = node.func
            # np.array([(a, b), (c, d)]): 2x2 matrix of numeric literals
            if (isinstance(f, ast.Attribute) and isinstance(f.value, ast.Name) and f.value.id == "np"
                    and f.attr in ("array", "asarray") and len(node.args) == 1 and not node.keywords):
                return ("mat", self.matrix(node.args[0]))
            if isinstance(f, ast.Name) and f.id == "LineString" and len(node.args) == 1 and not node.keywords:
                m = self.val(node.args[0])
                if m[0] != "mat" or len(m[1]) != 2:
                    raise Untranslatable("LineString of something else than two points")
                (z0, y0), (z1, y1) = m[1]
                return ("geo", ("segment", z0, y0, z1, y1))
            if isinstance(f, ast.Attribute) and f.attr == "intersection" and len(node.args) == 1 and not node.keywords:
                a, b = self.val(f.value), self.val(node.args[0])
                if a[0] != "geo" or b[0] != "geo":
                    raise Untranslatable("intersection of non-geometries")
                return ("geo", ("inter", a[1], b[1]))
            if isinstance(f, ast.Attribute) and f.attr == "buffer" and len(node.args) == 1 and not node.keywords:
                g = self.val(f.value)
                if g[0] != "geo":
                    raise Untranslatable("buffer of a non-geometry")
                return ("geo", ("buffer", g[1], self.num(node.args[0])))
        if isinstance(node, ast.BinOp) and isinstance(node.op, ast.Mult):
            # matrix * (u, v): numpy broadcasting multiplies column k by element k
            if isinstance(node.right, ast.Tuple):
                left = self.val(node.left)
                if left[0] == "mat" and all(len(r) == len(node.right.elts) for r in left[1]):
                    cols = [self.num(e) for e in node.right.elts]
                    return ("mat", [[("mul", c, cols[k]) for k, c in enumerate(r)] for r in left[1]])
        if isinstance(node, ast.Attribute) and isinstance(node.value, ast.Name) and node.value.id == self.self_name:
            if node.attr in self.geo_hooks:
                return ("geo", ("attr", node.attr))
            if node.attr not in self.hooks:
                raise Untranslatable(f"self.{node.attr} is not a hook (instance state outside the hook system)")
        return ("num", self.num(node))

    def matrix(self, node):
        if not isinstance(node, (ast.List, ast.Tuple)):
            raise Untranslatable("matrix literal")
        rows = []
        for r in node.elts:
            if not isinstance(r, (ast.List, ast.Tuple)):
                raise Untranslatable("matrix row")
            rows.append([self.num(e) for e in r.elts])
        return rows

    def translate(self):
        """-> geometry term (tuple form); `.opaque` + self.gap when outside the subset"""
        body = list(self.fn.body)
        if body and isinstance(body[0], ast.Expr) and isinstance(body[0].value, ast.Constant) \
                and isinstance(body[0].value.value, str):
            body = body[1:]
        try:
            if self.param is None:
                raise Untranslatable("signature is not (self, coordinate)")
            for st in body[:-1]:
                if isinstance(st, ast.Assign) and len(st.targets) == 1 and isinstance(st.targets[0], ast.Name):
                    self.locals[st.targets[0].id] = self.val(st.value)
                elif isinstance(st, ast.AnnAssign) and isinstance(st.target, ast.Name) and st.value is not None:
                    self.locals[st.target.id] = self.val(st.value)
                else:
                    raise Untranslatable(f"statement {type(st).__name__}: {ast.unparse(st)[:60]}")
            last = body[-1] if body else None
            if not (isinstance(last, ast.Return) and isinstance(last.value, ast.Attribute)
                    and last.value.attr == "length"):
                raise Untranslatable("does not end in `return <geometry>.length`")
            g = self.val(last.value.value)
            if g[0] != "geo":
                raise Untranslatable("returns the length of a non-geometry")
            return g[1]
        except Untranslatable as ex:
            self.gap = str(ex)
            return ("opaque", str(ex)[:80])


def lean_geo(g):
    k = g[0]
    if k == "attr":
        return f"(.attr {lean_str(g[1])})"
    if k == "buffer":
        return f"(.buffer {lean_geo(g[1])} {lean_expr(g[2])})"
    if k == "segment":
        return "(.segment " + " ".join(lean_expr(e) for e in g[1:]) + ")"
    if k == "inter":
        return f"(.inter {lean_geo(g[1])} {lean_geo(g[2])})"
    return f"(.opaque {lean_str(g[1])})"


def geo_num_terms(g, prefix):
    """[(table name, Expr)] - the numeric sub-terms of a geometry term, in a fixed order"""
    k = g[0]
    if k == "buffer":
        return geo_num_terms(g[1], prefix + ".b") + [(prefix + ".dist", g[2])]
    if k == "segment":
        return [(f"{prefix}.{n}", e) for n, e in zip(("z0", "y0", "z1", "y1"), g[1:])]
    if k == "inter":
        return geo_num_terms(g[1], prefix + ".l") + geo_num_terms(g[2], prefix + ".r")
    return []


def geo_eval(g, num_env, geo_env):
    """independent interpretation of a geometry term with shapely"""
    from shapely.geometry import LineString
    k = g[0]
    if k == "attr":
        return geo_env[g[1]]
    if k == "buffer":
        return geo_eval(g[1], num_env, geo_env).buffer(pyexpr.py_eval(g[2], num_env))
    if k == "segment":
        z0, y0, z1, y1 = (pyexpr.py_eval(e, num_env) for e in g[1:])
        return LineString([(z0, y0), (z1, y1)])
    if k == "inter":
        return geo_eval(g[1], num_env, geo_env).intersection(geo_eval(g[2], num_env, geo_env))
    raise Untranslatable("opaque geometry term")


# ---- rectangle, shape extents, equivalent_rectangle -----------------------------------------------------------------------

def _module_const_matrix(tree, name):
    for st in tree.body:
        if isinstance(st, ast.Assign) and len(st.targets) == 1 and isinstance(st.targets[0], ast.Name) \
                and st.targets[0].id == name:
            v = st.value
            if (isinstance(v, ast.Call) and isinstance(v.func, ast.Attribute) and v.func.attr in ("array", "asarray")
                    and len(v.args) == 1):
                return [[ExprTranslator().tr(e) for e in r.elts] for r in v.args[0].elts]
    raise Untranslatable(f"module constant {name} is not a literal matrix")


def extract_rectangle(tree):
    """shapes.rectangle -> [(z_k, y_k)] corner formulas in the variables width, height"""
    fn = next((n for n in tree.body if isinstance(n, ast.FunctionDef) and n.name == "rectangle"), None)
    if fn is None:
        raise Untranslatable("function rectangle not found")
    params = [a.arg for a in fn.args.args]
    if params != ["width", "height"]:
        raise Untranslatable(f"rectangle has parameters {params}")
    env = {p: ("var", p) for p in params}
    mats, polys = {}, {}

    def num(node):
        # float(x) is the identity on numbers
        if isinstance(node, ast.Call) and isinstance(node.func, ast.Name) and node.func.id == "float" \
                and len(node.args) == 1:
            return num(node.args[0])
        return ExprTranslator("<none>", env).tr(node)

    def stmts(body):
        for st in body:
            if isinstance(st, ast.Expr) and isinstance(st.value, ast.Constant):
                continue
            if isinstance(st, ast.Try):
                # conversion of the arguments; the handlers only re-raise
                if not all(isinstance(h.body[-1], ast.Raise) for h in st.handlers) or st.orelse or st.finalbody:
                    raise Untranslatable("try statement with non-raising handler")
                r = stmts(st.body)
                if r is not None:
                    return r
                continue
            if isinstance(st, ast.Assign) and len(st.targets) == 1 and isinstance(st.targets[0], ast.Name):
                t, v = st.targets[0].id, st.value
                if (isinstance(v, ast.BinOp) and isinstance(v.op, ast.Mult) and isinstance(v.left, ast.Name)
                        and isinstance(v.right, ast.Tuple)):
                    m = mats.get(v.left.id) or _module_const_matrix(tree, v.left.id)
                    cols = [num(e) for e in v.right.elts]
                    if any(len(r) != len(cols) for r in m) or len(cols) != 2:
                        raise Untranslatable("corner matrix is not n x 2")
                    mats[t] = [[("mul", c, cols[k]) for k, c in enumerate(r)] for r in m]
                elif isinstance(v, ast.Call) and isinstance(v.func, ast.Name) and v.func.id == "Polygon" \
                        and len(v.args) == 1 and isinstance(v.args[0], ast.Name) and v.args[0].id in mats:
                    polys[t] = mats[v.args[0].id]
                else:
                    env[t] = num(v)
                continue
            if isinstance(st, ast.Return) and isinstance(st.value, ast.Name) and st.value.id in polys:
                return polys[st.value.id]
            raise Untranslatable(f"statement {type(st).__name__}: {ast.unparse(st)[:60]}")
        return None

    r = stmts(fn.body)
    if r is None:
        raise Untranslatable("rectangle does not return a Polygon of a corner matrix")
    return [(a, b) for a, b in r], fn.lineno


def extract_shape_props(tree):
    """the `width` / `height` properties pyroll assigns to shapely's Polygon -> {name: (Expr, lineno)}"""
    out = {}
    for n in tree.body:
        if isinstance(n, ast.FunctionDef) and n.name in ("width", "height") \
                and any(isinstance(d, ast.Name) and d.id == "property" for d in n.decorator_list):
            body = [s for s in n.body if not (isinstance(s, ast.Expr) and isinstance(s.value, ast.Constant))]
            if len(body) != 1 or not isinstance(body[0], ast.Return):
                raise Untranslatable(f"shape property {n.name} is not a single return")
            out[n.name] = (ExprTranslator(n.args.args[0].arg).tr(body[0].value), n.lineno)
    # ... and they are given to Polygon: `for cls in [..., Polygon, ...]: cls.height = height; cls.width = width`
    ok = set()
    for n in tree.body:
        if isinstance(n, ast.For) and isinstance(n.iter, (ast.List, ast.Tuple)) \
                and any(isinstance(e, ast.Name) and e.id == "Polygon" for e in n.iter.elts) and isinstance(n.target, ast.Name):
            for st in n.body:
                if (isinstance(st, ast.Assign) and isinstance(st.targets[0], ast.Attribute)
                        and isinstance(st.targets[0].value, ast.Name) and st.targets[0].value.id == n.target.id
                        and isinstance(st.value, ast.Name) and st.value.id == st.targets[0].attr):
                    ok.add(st.value.id)
    for k in ("width", "height"):
        if k not in out or k not in ok:
            raise Untranslatable(f"shape property {k} not found / not assigned to Polygon")
    return out


def extract_equivalent_rectangle(tree):
    """`Profile.equivalent_rectangle` hook implementation -> ([width argument, height argument] of rectangle(...), lineno)"""
    imported = any(isinstance(n, ast.ImportFrom) and n.module == "shapes" and any(a.name == "rectangle" for a in n.names)
                   for n in tree.body)
    for n in tree.body:
        if isinstance(n, ast.FunctionDef) and any(ast.unparse(d) == "Profile.equivalent_rectangle" for d in n.decorator_list):
            body = [s for s in n.body if not (isinstance(s, ast.Expr) and isinstance(s.value, ast.Constant))]
            if (len(body) == 1 and isinstance(body[0], ast.Return) and isinstance(body[0].value, ast.Call)
                    and isinstance(body[0].value.func, ast.Name) and body[0].value.func.id == "rectangle" and imported
                    and len(body[0].value.args) == 2 and not body[0].value.keywords):
                tr = ExprTranslator(n.args.args[0].arg)
                return [tr.tr(a) for a in body[0].value.args], n.lineno
            raise Untranslatable("equivalent_rectangle is not `return rectangle(<width>, <height>)`")
    raise Untranslatable("hook implementation of Profile.equivalent_rectangle not found")


# ---- emission -------------------------------------------------------------------------------------------------------------

def _lean_list(xs):
    return "[" + ", ".join(xs) + "]"


def emit(ctx, pid="C17Geo"):
    """writes Gen/C17Geo.lean; returns the translated items (tuple forms) for the correspondence"""
    info = {"chords": {}, "table": []}
    L = ["import PyrollModel.C17Geom",
         "/- GENERATED by driver/translate/c17_geo.py from /repo's working tree on every run - do not edit. -/",
         f"namespace Gen.{pid}", "open C17Geom", ""]
    # chord methods
    tree = _src(PROFILE_PY)
    cls, hooks, geo_hooks = _class_hooks(tree, "Profile")
    for name in ("local_height", "local_width"):
        fn = next((n for n in (cls.body if cls else []) if isinstance(n, ast.FunctionDef) and n.name == name), None)
        if fn is None:
            ctx.tie_breaks.append(f"translator: method Profile.{name} not found in pyroll/core/{PROFILE_PY}")
            L += [f"def {name} : ChordMethod := {{ name := \"{name}\", param := \"\", reads := [], hiddenReads := [], "
                  f"writes := [], result := .opaque \"missing in source\" }}", ""]
            continue
        c = _Chord(fn, hooks, geo_hooks)
        reads, hidden, writes = c.touches()
        term = c.translate()
        if c.gap:
            ctx.tie_breaks.append(f"translator: pyroll/core/{PROFILE_PY}:{fn.lineno} `Profile.{name}` is outside the "
                                  f"translatable subset: {c.gap}")
        if hidden or writes:
            ctx.tie_breaks.append(f"translator: pyroll/core/{PROFILE_PY}:{fn.lineno} `Profile.{name}` uses state outside the "
                                  f"hook system: reads {hidden}, writes {writes} (obligation chords_use_hooks_only)")
        info["chords"][name] = {"param": c.param, "reads": reads, "hidden": hidden, "writes": writes, "term": term,
                                "lineno": fn.lineno}
        L += [f"/-- pyroll/core/{PROFILE_PY}:{fn.lineno} `Profile.{name}` -/",
              f"def {name} : ChordMethod :=",
              f"    {{ name := {lean_str(name)}, param := {lean_str(c.param or '')},",
              f"      reads := {_lean_list(map(lean_str, reads))}, hiddenReads := {_lean_list(map(lean_str, hidden))}, "
              f"writes := {_lean_list(map(lean_str, writes))},",
              f"      result := {lean_geo(term)} }}", ""]
        info["table"] += geo_num_terms(term, name)
    # shapes
    stree = _src(SHAPES_PY)
    try:
        corners, ln = extract_rectangle(stree)
        info["corners"] = corners
        L += [f"/-- pyroll/core/{SHAPES_PY}:{ln} `rectangle`: corners of the polygon, in the variables width / height -/",
              "def rectangle_corners : List (Expr × Expr) :=",
              "    " + _lean_list(f"({lean_expr(a)}, {lean_expr(b)})" for a, b in corners), ""]
        for k, (a, b) in enumerate(corners):
            info["table"] += [(f"rectangle.z{k}", a), (f"rectangle.y{k}", b)]
    except Untranslatable as ex:
        ctx.tie_breaks.append(f"translator: pyroll/core/{SHAPES_PY} `rectangle` is outside the translatable subset: {ex}")
        L += ["def rectangle_corners : List (Expr × Expr) := [(.var \"<untranslated>\", .var \"<untranslated>\")]", ""]
    try:
        props = extract_shape_props(stree)
        info["shape_props"] = {k: v[0] for k, v in props.items()}
        for k in ("width", "height"):
            L += [f"/-- pyroll/core/{SHAPES_PY}:{props[k][1]} property `{k}` of shapely geometries -/",
                  f"def shape_{k}_e : Expr := {lean_expr(props[k][0])}", ""]
            info["table"].append((f"shape.{k}", props[k][0]))
    except Untranslatable as ex:
        ctx.tie_breaks.append(f"translator: pyroll/core/{SHAPES_PY} width/height of geometries: {ex}")
        L += ["def shape_width_e : Expr := .var \"<untranslated>\"", "def shape_height_e : Expr := .var \"<untranslated>\"", ""]
    try:
        args, ln = extract_equivalent_rectangle(_src(HOOKIMPLS_PY))
        info["rect_args"] = args
        L += [f"/-- pyroll/core/{HOOKIMPLS_PY}:{ln} `equivalent_rectangle`: the (width, height) passed to `rectangle` -/",
              f"def equivalent_rectangle_args : Expr × Expr := ({lean_expr(args[0])}, {lean_expr(args[1])})", ""]
        info["table"] += [("equivalent_rectangle.width_arg", args[0]), ("equivalent_rectangle.height_arg", args[1])]
    except Untranslatable as ex:
        ctx.tie_breaks.append(f"translator: pyroll/core/{HOOKIMPLS_PY} `equivalent_rectangle`: {ex}")
        L += ["def equivalent_rectangle_args : Expr × Expr := (.var \"<untranslated>\", .var \"<untranslated>\")", ""]
    L += ["/-- the numeric sub-terms, evaluated over Float by the model driver for the correspondence -/",
          "def table : List (String × Expr) := " + _lean_list(f"({lean_str(n)}, {lean_expr(e)})" for n, e in info["table"]),
          "", f"end Gen.{pid}"]
    changed = pyexpr.write_if_changed(os.path.join(LEAN_DIR, "PyrollModel", "Gen", f"{pid}.lean"), "\n".join(L) + "\n")
    ctx.notes.setdefault("generated", {})[f"Gen/{pid}.lean"] = {"defs": 7, "rewritten": changed}
    return info


# ---- (K) correspondence ---------------------------------------------------------------------------------------------------

def _close(a, b, rtol=1e-11):
    return a == b or abs(a - b) <= rtol * max(abs(a), abs(b))


def geo_correspondence(ctx, model, info, profiles, n_pos=6, n_rect=40):
    """`profiles`: real Profile objects.  (1) chord methods: real method vs the generated term interpreted with shapely,
    numeric sub-terms vs Lean Float;  (2) rectangle(w, h): corners, bounds, extents, area vs Lean Float (`@rect`);
    (3) equivalent_rectangle of real profiles vs the generated arguments."""
    from .. import stub
    rng = ctx.rng
    lines, jobs = [], []

    def lean_terms(prefix, env, expect):
        for name, e in info["table"]:
            if name.startswith(prefix):
                vs = sorted(set(pyexpr.expr_vars(e)))
                lines.append(name + " " + " ".join(f"{v}={stub.bits(float(env[v]))}" for v in vs))
                jobs.append(("term", name, dict(env), expect(e)))

    for p in profiles:
        w, h = float(p.width), float(p.height)
        for name, c in info["chords"].items():
            if c["term"][0] == "opaque" or c["hidden"] or c["writes"]:
                continue
            for _ in range(n_pos):
                x = rng.uniform(-0.7, 0.7) * (w if name == "local_height" else h)
                num_env = {c["param"]: x, "width": w, "height": h}
                for r in c["reads"]:
                    if r not in num_env and r != "cross_section":
                        num_env[r] = float(getattr(p, r))
                real = float(getattr(p, name)(x))
                mine = float(geo_eval(c["term"], num_env, {"cross_section": p.cross_section}).length)
                ctx.count("geo-eval:" + name)
                if _close(real, mine, 1e-12):
                    ctx.validated()
                else:
                    ctx.disagreement(f"{name}({x!r}) = {real!r} on the real profile, the translated geometry term gives "
                                     f"{mine!r}", {"method": name, "position": x, "width": w, "height": h,
                                                   "cross_section": [list(q) for q in p.cross_section.exterior.coords][:40]})
                lean_terms(name + ".", num_env, lambda e, env=num_env: pyexpr.py_eval(e, env))
        if "rect_args" in info:
            env = {v: float(getattr(p, v)) for e in info["rect_args"] for v in pyexpr.expr_vars(e)}
            rect = p.equivalent_rectangle
            got = (float(rect.width), float(rect.height))
            want = tuple(pyexpr.py_eval(e, env) for e in info["rect_args"])
            ctx.count("geo-eval:equivalent_rectangle")
            if _close(got[0], want[0]) and _close(got[1], want[1]):
                ctx.validated()
            else:
                ctx.disagreement(f"equivalent_rectangle of a real profile is {got}, the translated arguments give {want}",
                                 {"env": env})
            lean_terms("equivalent_rectangle.", env, lambda e, env=env: pyexpr.py_eval(e, env))
    if "corners" in info:
        from pyroll.core.shapes import rectangle
        for _ in range(n_rect):
            w, h = 10 ** rng.uniform(-4, 3), 10 ** rng.uniform(-4, 3)
            poly = rectangle(w, h)
            b = poly.bounds
            real = [c for q in list(poly.exterior.coords)[:len(info["corners"])] for c in q] + list(b) \
                + [float(poly.width), float(poly.height), float(poly.area)]
            lines.append(f"@rect width={stub.bits(w)} height={stub.bits(h)}")
            jobs.append(("rect", (w, h), None, real))
            if "shape_props" in info:
                benv = {f"bounds[{k}]": b[k] for k in range(4)}
                lean_terms("shape.", benv, lambda e, env=benv: pyexpr.py_eval(e, env))
    out = ctx.lean_model(model, lines) if lines else []
    for (kind, what, env, expect), o in zip(jobs, out):
        ctx.count("geo-eval:lean-" + kind)
        try:
            got = [stub.unbits(t) for t in o.split()]
        except Exception:
            ctx.disagreement(f"model driver answered {o!r} for {kind} {what}", {"what": str(what)})
            continue
        exp = [expect] if kind == "term" else expect
        if len(got) == len(exp) and all(_close(float(a), float(b)) for a, b in zip(got, exp)):
            ctx.validated()
        else:
            ctx.disagreement(f"{kind} {what}: Lean Float evaluation {got} differs from the implementation {exp}",
                             {"what": str(what), "env": env})
    if len(out) != len(jobs):
        ctx.disagreement(f"model driver answered {len(out)} lines for {len(jobs)} requests", {})
