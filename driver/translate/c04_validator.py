"""(T) extractor for `GenericElongationGroove.test_plausibility` (property C04).

The method is the part of the generic constructor that decides whether the parameters it has just resolved are handed
to the caller or refused ("step in z4", "angles do not add up").  It must consist of statements

    if <left> <op> <right>:          op in  >  <  >=  <=
        raise <Exception>(...)

only.  `left` / `right` are translated with the chain translator of `groove.py`: `self.x` is the chain entry / resolved
input `x`, `self._<name>_contour_line(<arg>)` is the translated contour function with `z` := <arg>, `abs`, arithmetic.
Each statement becomes one entry (op, left, right) of `Gen.C04.Valid.plausibility`; the constructor refuses the groove
iff one of them holds.  Anything else in the method is a translator gap.

The source nodes are kept (`Test.left_src` / `Test.right_src`): the harness executes exactly these sub-expressions on
the real object (`evaluate`) and compares them with the Float evaluation of the generated terms, and compares "one of
them holds" with what the real method does (raises / returns).
"""
import ast
import os

from . import groove
from . import pyexpr
from .pyexpr import Untranslatable
from ..core import LEAN_DIR

OPS = {ast.Gt: "gt", ast.Lt: "lt", ast.GtE: "ge", ast.LtE: "le"}
PY_OPS = {"gt": lambda a, b: a > b, "lt": lambda a, b: a < b, "ge": lambda a, b: a >= b, "le": lambda a, b: a <= b}


class Test:
    def __init__(self, op, left, right, exc, left_src, right_src, text):
        self.op, self.left, self.right, self.exc = op, left, right, exc
        self.left_src, self.right_src, self.text = left_src, right_src, text


def subst(e, name, by):
    """replace the variable `name` in the tuple expression `e`"""
    if not isinstance(e, tuple):
        return e
    if e == ("var", name):
        return by
    return tuple(subst(x, name, by) for x in e)


class _Tr(groove._ChainTr):
    def __init__(self, defined, contour_fns):
        super().__init__(defined, set())
        self.cf = contour_fns

    def tr(self, n):
        if isinstance(n, ast.Call):
            p = pyexpr.attr_path(n.func)
            if p is not None and len(p) == 2 and p[0] == "self" and p[1].strip("_") in self.cf \
                    and len(n.args) == 1 and not n.keywords:
                return subst(self.cf[p[1].strip("_")], "z", self.tr(n.args[0]))
        p = pyexpr.attr_path(n)
        if p is not None and p[0] == "self" and len(p) == 2:
            name = p[1].lstrip("_")
            if name not in self.defined and name in groove.INPUTS:
                return ("var", name)            # `self.depth`, `self.flank_angle`: properties / attributes holding inputs
        return super().tr(n)


def extract_plausibility(repo=None, chain_names=(), contour_fns=None):
    """-> ([Test], [gap text])"""
    cls, _ = groove._init_fn(repo)
    fn = next((n for n in cls.body if isinstance(n, ast.FunctionDef) and n.name == "test_plausibility"), None)
    if fn is None:
        return [], ["GenericElongationGroove.test_plausibility not found"]
    if contour_fns is None:
        contour_fns = groove.extract_contour_functions(repo, chain_names)
    tr = _Tr({n: n for n in chain_names}, contour_fns)
    tests, gaps = [], []
    for st in fn.body:
        if isinstance(st, ast.Expr) and isinstance(st.value, ast.Constant):
            continue
        if isinstance(st, ast.Pass):
            continue
        ok = (isinstance(st, ast.If) and not st.orelse and len(st.body) == 1 and isinstance(st.body[0], ast.Raise)
              and isinstance(st.test, ast.Compare) and len(st.test.ops) == 1 and type(st.test.ops[0]) in OPS)
        if not ok:
            gaps.append(f"test_plausibility: statement outside the subset: {ast.unparse(st)[:100]}")
            continue
        exc = st.body[0].exc
        ename = exc.func.id if isinstance(exc, ast.Call) and isinstance(exc.func, ast.Name) else \
            (exc.id if isinstance(exc, ast.Name) else "Exception")
        try:
            left, right = tr.tr(st.test.left), tr.tr(st.test.comparators[0])
        except Untranslatable as ex:
            gaps.append(f"test_plausibility: {ast.unparse(st.test)[:100]}: {ex}")
            continue
        tests.append(Test(OPS[type(st.test.ops[0])], left, right, ename, st.test.left, st.test.comparators[0],
                          ast.unparse(st.test)))
    return tests, gaps


def evaluate(test, obj):
    """the two sides of `test` as the real code computes them on `obj` (its own source sub-expressions are executed)"""
    import numpy as np
    env = {"self": obj, "np": np, "abs": abs}
    out = []
    for node in (test.left_src, test.right_src):
        code = compile(ast.Expression(body=node), "<test_plausibility>", "eval")
        out.append(float(eval(code, {"__builtins__": {}}, env)))
    return out


def fires(test, lhs, rhs):
    return bool(PY_OPS[test.op](lhs, rhs))


def emit(ctx, pid, chain, contour_fns):
    tests, gaps = extract_plausibility(None, [n for n, _ in chain], contour_fns)
    for g in gaps:
        ctx.tie_breaks.append("translator: " + g)
    ns = f"Gen.{pid}.Valid"
    L = [f"import PyrollModel.Gen.{pid}Groove",
         "/- GENERATED by driver/translate/c04_validator.py from GenericElongationGroove.test_plausibility",
         "   (pyroll/core/grooves/generic_elongation.py) - do not edit.",
         "   `plausibility`: one entry (op, left, right) per `if left op right: raise ...` of the method, in source order;",
         "   the generic constructor refuses the resolved parameters iff one of the comparisons holds. -/",
         f"open Gen.{pid}.Groove",
         f"namespace {ns}", ""]
    for i, t in enumerate(tests):
        L.append(f"-- if {t.text}: raise {t.exc}")
        L.append(f"def plaus_{i}_lhs : Expr := {pyexpr.lean_expr(t.left)}")
        L.append(f"def plaus_{i}_rhs : Expr := {pyexpr.lean_expr(t.right)}")
    L.append("")
    L.append("def plausibility : List (String × Expr × Expr) := [" + ", ".join(
        f"({pyexpr.lean_str(t.op)}, plaus_{i}_lhs, plaus_{i}_rhs)" for i, t in enumerate(tests)) + "]")
    L.append("")
    L.append("/-- both sides of every test by name (for the Float evaluation driver) -/")
    L.append("def table : List (String × Expr) := [" + ", ".join(
        f"(\"plaus_{i}_{s}\", plaus_{i}_{s})" for i in range(len(tests)) for s in ("lhs", "rhs")) + "]")
    L.append("")
    L.append(f"end {ns}")
    text = "\n".join(L) + "\n"
    changed = pyexpr.write_if_changed(os.path.join(LEAN_DIR, "PyrollModel", "Gen", f"{pid}Valid.lean"), text)
    ctx.notes.setdefault("generated", {})[f"Gen/{pid}Valid.lean"] = {"tests": len(tests), "rewritten": changed}
    return tests
